"""Generator, encoder, Go renderer and JS skeleton extractor of the C01 check (imported by checks/c01.py).

A program is drawn as a term of the model's language first (GV.Ctrl statements over tables of concrete actions /
conditions / call sites, see lean/GV/Driver/C01.lean) and rendered to Go second, so the Lean driver can evaluate it."""
import re

ZERO = 12
MODV = 1009

# identifiers that are JavaScript reserved words, globals, property names of Object.prototype, names the compiler itself
# uses for temporaries, and non-ASCII identifiers.  (`console`, `Number`, `Uint8Array` are known findings, replayed apart.)
EXOTIC_LOCALS = ["arguments", "eval", "static", "let", "of", "undefined", "NaN", "Math", "Array", "Object", "String", "Date",
                 "Error", "Symbol", "Map", "Function", "JSON", "Infinity", "isNaN", "parseInt", "globalThis", "process",
                 "require", "module", "window", "self", "global", "Promise", "Boolean", "Set", "Int32Array", "Float64Array",
                 "err", "async", "await", "yield", "name", "length", "constructor", "prototype", "toString",
                 "hasOwnProperty", "valueOf", "__proto__", "this", "new", "delete", "typeof", "void", "with", "class",
                 "enum", "export", "extends", "super", "throw", "try", "catch", "finally", "function", "in", "instanceof",
                 "do", "while", "null", "debugger", "implements", "private", "public", "protected", "abstract", "boolean",
                 "byte", "char", "double", "final", "float", "long", "native", "short", "synchronized", "throws",
                 "transient", "volatile", "using", "DataView",
                 "_tmp", "_tuple", "_index", "_ptr", "_struct", "_slice", "_val", "_i", "_ref", "_key", "_r", "_q", "_v",
                 "_entry", "x", "y", "obj", "param", "$_", "é", "变", "ñ9", "Ω_1", "a·b"]
EXOTIC_LOCALS = [n for n in EXOTIC_LOCALS if "$" not in n and "·" not in n]
PLAIN_LOCALS = ["v%d" % i for i in range(8)] + ["k", "n", "w", "acc", "idx", "tmp", "lo", "hi"]
EXOTIC_GLOBALS = ["arguments", "eval", "static", "let", "of", "undefined", "async", "await", "yield", "name", "self", "window",
                  "global", "process", "require", "module", "length", "constructor", "prototype", "toString", "valueOf",
                  "this", "new", "delete", "typeof", "void", "with", "class", "enum", "super", "throw", "try", "function",
                  "Math", "Array", "Object", "String", "NaN", "Infinity", "Symbol", "Map", "Error", "é", "_tmp", "_r"]
LABEL_NAMES = ["class", "let", "static", "enum", "await", "arguments", "eval", "of", "async", "delete", "new", "this",
               "typeof", "void", "with", "yield", "super", "throw", "try", "catch", "do", "while", "in", "function"]
# names the generated helper code uses; never handed out as variable names
HELPERS = {"at", "ix", "tr", "pg", "ps", "cnd", "cnq", "cl", "push", "runfs", "two", "h3", "P", "S", "T", "arr", "mp", "sv", "sl",
           "fs", "tv", "main", "r"}


class Gen:
    def __init__(self, rng, size, maxdepth=5, focus=None):
        self.rng = rng
        self.size = size
        self.maxdepth = maxdepth
        self.focus = focus or {}
        self.acts = []      # [kind, a, b, c, d, e]
        self.conds = []     # [x, k, m, t, p]
        self.calls = []     # dict(callee, arg, dst, go)
        self.nlabels = 0
        self.fns = []       # dict(body, names[8], labels{n: name})
        self.kinds = {}
        self.gnames = []

    def count(self, k):
        self.kinds[k] = self.kinds.get(k, 0) + 1

    def anyvar(self, cells=True):
        r = self.rng
        if cells and r.random() < 0.2:
            return r.randrange(13, 29)
        return r.choice([0, 1, 2, 3, 8, 9, 10, 11, ZERO])

    def namedvar(self):
        return self.rng.choice([0, 1, 2, 3, 8, 9, 10, 11])

    def dstvar(self):
        return self.rng.choice([0, 1, 1, 2, 3, 8, 9, 10, 11])

    def add_act(self, row):
        self.acts.append(list(row))
        return len(self.acts) - 1

    def new_act(self, simple=False):
        """simple=True: must render as ONE Go simple statement (usable as a for-post statement)"""
        r = self.rng
        w = {"plain": 4, "opassign": 4, "swap": 1, "rotate": 0.7, "tuple": 0.8}
        if not simple:
            w.update({"evalorder": 2.5, "closure": 0.8, "runfs": 0.5, "shadow": 1.2})
        for k, f in self.focus.get("act", {}).items():
            if k in w:
                w[k] *= f
        ks = list(w)
        k = r.choices(ks, [w[x] for x in ks])[0]
        self.count("act:" + k)
        if k == "plain":
            return self.add_act([0, self.dstvar(), self.anyvar(), self.anyvar(), r.randrange(0, 30),
                                 0 if simple else (1 if r.random() < 0.7 else 0)])
        if k == "opassign":
            lv = r.choice([0, 1, 2, 3, 4, 5, 5, 6])
            op = r.choice([0, 0, 1, 4]) if lv == 6 else r.choice([0, 0, 1, 2, 3, 4])
            self.count("opassign:lv%d" % lv)
            self.count("opassign:op%d" % op)
            x = self.dstvar() if lv == 6 else self.anyvar(cells=False)
            return self.add_act([1, lv, x, op, self.anyvar(), 0])
        if k == "swap":
            return self.add_act([2, r.randrange(0, 4), self.anyvar(cells=False), self.anyvar(cells=False), 0, 0])
        if k == "rotate":
            a, b, c = r.sample([0, 1, 2, 3, 8, 9, 10, 11], 3)
            return self.add_act([3, a, b, c, 0, 0])
        if k == "tuple":
            d1, d2 = r.sample([0, 1, 2, 3, 8, 9, 10, 11], 2)
            return self.add_act([9, d1, d2, self.anyvar(), self.anyvar(), 0])
        if k == "evalorder":
            form = r.randrange(0, 5)
            self.count("evalorder:form%d" % form)
            z = self.namedvar() if form == 4 else self.anyvar()
            return self.add_act([4, self.dstvar(), self.anyvar(), self.anyvar(), z, form])
        if k == "closure":
            return self.add_act([5, self.anyvar(), r.randrange(1, 9), 0, 0, 0])
        if k == "runfs":
            return self.add_act([6, 0, 0, 0, 0, 0])
        if k == "shadow":
            x = self.namedvar()
            dst = r.choice([v for v in [0, 1, 2, 3, 8, 9, 10, 11] if v != x])
            return self.add_act([7, dst, x, r.randrange(0, 30), 0, 0])
        raise AssertionError(k)

    def new_cond(self, x=None, k=None, m=None, t=None, p=None):
        r = self.rng
        m = r.choice([2, 3, 4, 5]) if m is None else m
        c = [self.anyvar() if x is None else x, r.randrange(0, 9) if k is None else k, m,
             r.randrange(1, m) if t is None else t, (1 if r.random() < 0.5 else 0) if p is None else p]
        self.conds.append(c)
        return len(self.conds) - 1

    def new_call(self, j):
        go = self.rng.choice(["direct", "direct", "funcvalue", "method"])
        self.count("call:" + go)
        self.calls.append(dict(callee=j, arg=self.anyvar(), dst=self.dstvar(), go=go))
        return len(self.calls) - 1

    def stmts(self, ctx, n, tail_branch=True):
        out = []
        for i in range(n):
            if ctx["budget"][0] <= 0:
                break
            out.append(self.stmt(ctx, i == n - 1 and tail_branch))
        return out

    def stmt(self, ctx, may_branch):
        r = self.rng
        ctx["budget"][0] -= 1
        d = ctx["depth"]
        w = {"act": 7}
        if ctx["fi"] + 1 < ctx["nf"]:
            w["fn"] = 1.5
        if d < self.maxdepth:
            w["if"] = 3
            w["switch"] = 2.5
            w["block"] = 0.4
            if ctx["ld"] < 3:
                w["loop"] = 3
        if may_branch:
            if ctx["brk"]:
                w["break"] = 2
            if ctx["loops"]:
                w["continue"] = 2.5
            if d > 0:
                w["return"] = 0.5
        for k, f in self.focus.get("stmt", {}).items():
            if k in w:
                w[k] *= f
        ks = list(w)
        k = r.choices(ks, [w[x] for x in ks])[0]
        self.count("stmt:" + k)
        if k == "act":
            return ("A", self.new_act())
        if k == "fn":
            return ("C", self.new_call(r.randrange(ctx["fi"] + 1, ctx["nf"])))
        if k == "block":
            return ("{", self.stmts(dict(ctx, depth=d + 1), r.randrange(1, 3)))
        if k == "return":
            return ("R",)
        if k == "break":
            cands = [x for x in ctx["brk"] if x[0] is not None]
            if cands and r.random() < 0.45:
                lab, refs = r.choice(cands)
                refs.append(1)
                self.count("break:labelled")
                return ("B", lab)
            return ("B", None)
        if k == "continue":
            cands = [x for x in ctx["loops"] if x[0] is not None]
            if cands and r.random() < 0.45:
                lab, refs = r.choice(cands)
                refs.append(1)
                self.count("continue:labelled")
                return ("T", lab)
            return ("T", None)
        if k == "if":
            return self.gen_if(ctx, r.randrange(1, 4))
        if k == "switch":
            return self.gen_switch(ctx)
        if k == "loop":
            return self.gen_loop(ctx)
        raise AssertionError(k)

    def gen_if(self, ctx, nclauses):
        r = self.rng
        c2 = dict(ctx, depth=ctx["depth"] + 1)
        c = self.new_cond()
        then = self.stmts(c2, r.randrange(1, 3))
        if nclauses > 1:
            els = self.gen_if(ctx, nclauses - 1)
        elif r.random() < 0.5:
            els = ("{", self.stmts(c2, r.randrange(1, 3)))
        else:
            els = None
        return ("I", c, then, els)

    def new_label(self):
        self.nlabels += 1
        return self.nlabels

    def gen_switch(self, ctx):
        r = self.rng
        lab = self.new_label() if r.random() < 0.4 else None
        refs = []
        c2 = dict(ctx, depth=ctx["depth"] + 1, brk=ctx["brk"] + [(lab, refs)])
        ncl = r.randrange(1, 4)
        clauses = []
        for _ in range(ncl):
            clauses.append((self.new_cond(), self.stmts(c2, r.randrange(1, 3))))
        default = self.stmts(c2, r.randrange(1, 3)) if r.random() < 0.6 else None
        if default is not None and len(default) == 0:
            default = None
        nlast = len(clauses) - 1 if default is None else len(clauses)
        ft = [i < nlast and r.random() < 0.25 for i in range(len(clauses))]
        if any(ft):
            self.count("switch:fallthrough")
        return ("W", lab if refs else None, clauses, default, ft)

    def gen_loop(self, ctx):
        r = self.rng
        ld = ctx["ld"]
        cv = 4 + ld
        lab = self.new_label() if r.random() < 0.55 else None
        refs = []
        bound = r.randrange(1, 4)
        variant = r.choice(["post-act", "post-act", "post-opassign", "post-call", "cond-only", "forever"])
        if variant == "post-call" and ctx["fi"] + 1 >= ctx["nf"]:
            variant = "post-act"
        self.count("loop:" + variant)
        init = ("A", self.add_act([0, cv, ZERO, ZERO, 0, 0]))
        cond = self.new_cond(x=cv, k=0, m=MODV, t=bound, p=1 if r.random() < 0.3 else 0)
        c2 = dict(ctx, depth=ctx["depth"] + 1, ld=ld + 1, loops=ctx["loops"] + [(lab, refs)], brk=ctx["brk"] + [(lab, refs)])
        pre = []
        post = None
        lc = cond
        inc = lambda: ("A", self.add_act([0, cv, cv, ZERO, 1, 0]))
        if variant == "post-act":
            post = ("a", inc()[1])
        elif variant == "post-opassign":
            # the counter is advanced at the top of the body; the post statement is an op-assign / swap / tuple action
            pre = [inc()]
            post = ("a", self.new_act(simple=True))
        elif variant == "post-call":
            pre = [inc()]
            post = ("c", self.new_call(r.randrange(ctx["fi"] + 1, ctx["nf"])))
        elif variant == "cond-only":
            pre = [inc()]
        else:
            lc = None
            nc = self.new_cond(x=cv, k=MODV - bound, m=MODV, t=MODV - bound, p=0)
            pre = [("I", nc, [("B", None)], None), inc()]
        body = pre + self.stmts(c2, r.randrange(1, 4))
        return ("{", [init, ("L", lab if refs else None, lc, post, body)])

    def pick_names(self, pool_exotic, pool_plain, n, avoid):
        r = self.rng
        names = []
        while len(names) < n:
            c = r.choice(pool_exotic) if r.random() < 0.6 else r.choice(pool_plain)
            if c not in names and c not in avoid and c not in HELPERS:
                names.append(c)
        return names

    def gen_fn(self, fi, nf):
        ctx = dict(fi=fi, nf=nf, depth=0, ld=0, loops=[], brk=[], budget=[self.size])
        l0 = self.nlabels
        body = self.stmts(ctx, self.rng.randrange(2, 6), tail_branch=False)
        body.append(("R",))
        names = self.pick_names(EXOTIC_LOCALS, PLAIN_LOCALS, 8, set(self.gnames))
        labels = {}
        used = set()
        for n in range(l0 + 1, self.nlabels + 1):
            if self.rng.random() < 0.5:
                c = self.rng.choice(LABEL_NAMES)
                if c not in used:
                    used.add(c)
                    labels[n] = c
                    continue
            labels[n] = "L%d" % n
        self.fns.append(dict(body=body, names=names, labels=labels))


def gen_program(rng, size, maxdepth=5, focus=None):
    g = Gen(rng, size, maxdepth, focus)
    g.gnames = g.pick_names(EXOTIC_GLOBALS, ["g0", "g1", "g2", "g3", "total", "state"], 4, set())
    nf = rng.randrange(1, 6)
    for fi in range(nf):
        g.gen_fn(fi, nf)
    return g


# --------------------------------------------------------------------------------------
# encoding for the Lean driver (same prefix grammar as the C02 driver)
# --------------------------------------------------------------------------------------

def lab(l):
    return "-" if l is None else str(l)


def enc_list(stmts):
    if not stmts:
        return ["K"]
    if len(stmts) == 1:
        return enc_stmt(stmts[0])
    return ["S"] + enc_stmt(stmts[0]) + enc_list(stmts[1:])


def enc_else(els):
    if els is None:
        return ["K"]
    if els[0] == "I":
        return enc_stmt(els)
    return ["{"] + enc_list(els[1])


def enc_default(body):
    # astrewrite toElseBranch: a default body that is a single if / block statement becomes the else branch itself
    if body is None:
        return ["K"]
    if len(body) == 1 and body[0][0] in ("I", "{"):
        return enc_stmt(body[0])
    return ["{"] + enc_list(body)


def enc_stmt(s):
    k = s[0]
    if k == "A":
        return ["A", str(s[1])]
    if k == "C":
        return ["C", str(s[1])]
    if k == "{":
        return ["{"] + enc_list(s[1])
    if k == "R":
        return ["R"]
    if k == "B":
        return ["B", lab(s[1])]
    if k == "T":
        return ["T", lab(s[1])]
    if k == "I":
        return ["I", str(s[1])] + enc_list(s[2]) + enc_else(s[3])
    if k == "L":
        post = ["N"] if s[3] is None else [s[3][0], str(s[3][1])]
        return ["L", lab(s[1]), lab(s[2])] + post + enc_list(s[4])
    if k == "W":
        bodies = [list(b) for _, b in s[2]] + ([list(s[3])] if s[3] is not None else [])
        ft = list(s[4]) + ([False] if s[3] is not None else [])
        eff = []
        for i in range(len(bodies)):
            acc = list(bodies[i])
            j = i
            while ft[j]:
                j += 1
                acc += bodies[j]
            eff.append(acc)

        def chain(i):
            if i == len(s[2]):
                return enc_default(eff[i] if s[3] is not None else None)
            return ["I", str(s[2][i][0])] + enc_list(eff[i]) + chain(i + 1)
        return ["W", lab(s[1])] + chain(0)
    raise AssertionError(k)


def enc_prog(g):
    def tab(rows):
        return ";".join(".".join(str(x) for x in r) for r in rows) if rows else "-"
    return "%s/%s/%s/%s" % (tab(g.acts), tab(g.conds), tab([(c["callee"], c["arg"], c["dst"]) for c in g.calls]),
                            ";".join(",".join(enc_list(f["body"])) for f in g.fns))


# --------------------------------------------------------------------------------------
# rendering to Go
# --------------------------------------------------------------------------------------

PRELUDE = """package main

var %(G0)s, %(G1)s, %(G2)s, %(G3)s int = 1, 2, 3, 5

var arr = [4]int{10, 20, 30, 40}
var mp = map[int]int{}
var sl = []int{5, 9, 2, 6}

type S struct {
	x [4]int
	n int
}

var sv = S{x: [4]int{3, 1, 4, 1}}

type P struct{ a, b int }

func (p P) sum() int { return (p.a + 5*p.b) %% 1009 }

func (s *S) m(a, b int) int { return (a + 3*b + s.x[0]) %% 1009 }

var fs []func() int

func at(id, x int) int { return x }
func cl(id, x int) int { return x }
func ix(id, x int) int { println("i", id, x&3); return x & 3 }
func tr(id, y int) int { println("t", id, y); return y }
func cnd(id int, b bool) bool { println("c", id, b); return b }
func cnq(id int, b bool) bool { return b }
func ps(id int) *S { println("s", id); return &sv }
func two(a, b int) (int, int) { return b, a }
func h3(a, b, c int) int { return (a + 2*b + 3*c) %% 1009 }

func pg(id, x int) *int {
	println("p", id, x&3)
	switch x & 3 {
	case 0:
		return &%(G0)s
	case 1:
		return &%(G1)s
	case 2:
		return &%(G2)s
	}
	return &%(G3)s
}

func push(id int, f func() int) {
	if len(fs) < 6 {
		fs = append(fs, f)
	}
}

func runfs(id int) {
	for _, f := range fs {
		println("f", id, f())
	}
}

type T struct{ pad int }

var tv T
"""

CELLS = ["arr[%d]", "mp[%d]", "sv.x[%d]", "sl[%d]"]
OPS = {0: "+=", 1: "-="}


class Render:
    def __init__(self, g):
        self.g = g
        self.out = []
        self.names = None
        self.labels = None

    def emit(self, ind, s):
        self.out.append("\t" * ind + s)

    def vn(self, v):
        if v < 8:
            return self.names[v]
        if v < 12:
            return self.g.gnames[v - 8]
        if v == ZERO:
            return "0"
        return CELLS[(v - 13) // 4] % ((v - 13) % 4)

    def cond(self, cid):
        x, k, m, t, p = self.g.conds[cid]
        return "%s(%d, (%s+%d)%%%d < %d)" % ("cnd" if p else "cnq", cid, self.vn(x), k, m, t)

    def act_lines(self, aid):
        """Go statements of action `aid` (a list; the first one alone when used as a for-post statement)"""
        kind, a, b, c, d, e = self.g.acts[aid]
        vn = self.vn
        if kind == 0:
            ls = ["%s = at(%d, (%s + 2*%s + %d) %% 1009)" % (vn(a), aid, vn(b), vn(c), d)]
            if e:
                ls.append('println("a", %d, %s)' % (aid, vn(a)))
            return ls
        if kind == 1:
            lv, x, op, y = a, b, c, d
            i = "ix(%d, %s)" % (aid, vn(x))
            lhs = ["arr[%s]" % i, "*pg(%d, %s)" % (aid, vn(x)), "mp[%s]" % i, "sv.x[%s]" % i, "sl[%s]" % i,
                   "ps(%d).x[%s]" % (aid, i), vn(x)][lv]
            if op in OPS:
                return ["%s %s tr(%d, %s)" % (lhs, OPS[op], aid, vn(y))]
            if op == 2:
                return [lhs + "++"]
            if op == 3:
                return [lhs + "--"]
            return ["%s %%= tr(%d, %s)&7 + 1" % (lhs, aid, vn(y))]
        if kind == 2:
            cell = ["arr[%s]", "mp[%s]", "sv.x[%s]", "sl[%s]"][a]
            i, j = "%s&3" % vn(b), "%s&3" % vn(c)
            return ["%s, %s = %s, %s" % (cell % i, cell % j, cell % ("at(%d, %s)&3" % (aid, vn(c))), cell % i)]
        if kind == 3:
            return ["%s, %s, %s = %s, %s, at(%d, %s)" % (vn(a), vn(b), vn(c), vn(b), vn(c), aid, vn(a))]
        if kind == 9:
            return ["%s, %s = two(tr(%d, %s), tr(%d, %s))" % (vn(a), vn(b), aid, vn(c), aid + 1000, vn(d))]
        if kind == 4:
            dst, x, y, z, form = a, b, c, d, e
            t0, t1, t2 = "tr(%d, %s)" % (aid, vn(x)), "tr(%d, %s)" % (aid + 1000, vn(y)), "tr(%d, %s)" % (aid + 2000, vn(z))
            ex = ["(%s - (%s&63)*(%s&63)) %% 1009" % (t0, t1, t2),
                  "h3(%s, %s, %s)" % (t0, t1, t2),
                  "ps(%d).m(%s, %s)" % (aid, t0, t1),
                  "P{%s, %s}.sum()" % (t0, t1),
                  "func(a, b int) int { return (a + 7*b + %s) %% 1009 }(%s, %s)" % (vn(z), t0, t1)][form]
            return ["%s = at(%d, %s)" % (vn(dst), aid, ex), 'println("a", %d, %s)' % (aid, vn(dst))]
        if kind == 5:
            return ["{ j := %s; push(%d, func() int { j += %d; return j }) }" % (vn(a), aid, b)]
        if kind == 6:
            return ["runfs(%d)" % aid]
        if kind == 7:
            dst, x, k = a, b, c
            n = vn(x)
            return ["{ %s := %s + 1; { %s := %s * 2; { %s := %s + %d; { %s := %s %% 1009; %s = at(%d, %s) } } } }" % (
                n, n, n, n, n, n, k, n, n, vn(dst), aid, n), 'println("a", %d, %s)' % (aid, vn(dst))]
        raise AssertionError(kind)

    def call_stmt(self, cid):
        c = self.g.calls[cid]
        a = "cl(%d, %s)" % (cid, self.vn(c["arg"]))
        j = c["callee"]
        e = {"direct": "F%d(%s)", "funcvalue": "fF%d(%s)", "method": "tv.CallF%d(%s)"}[c["go"]] % (j, a)
        return "%s = %s" % (self.vn(c["dst"]), e)

    def block(self, stmts, ind):
        for s in stmts:
            self.stmt(s, ind)

    def stmt(self, s, ind):
        k = s[0]
        if k == "A":
            for l in self.act_lines(s[1]):
                self.emit(ind, l)
        elif k == "C":
            self.emit(ind, self.call_stmt(s[1]))
        elif k == "{":
            self.emit(ind, "{")
            self.block(s[1], ind + 1)
            self.emit(ind, "}")
        elif k == "R":
            self.emit(ind, "return " + self.names[1])
        elif k == "B":
            self.emit(ind, "break" + ("" if s[1] is None else " " + self.labels[s[1]]))
        elif k == "T":
            self.emit(ind, "continue" + ("" if s[1] is None else " " + self.labels[s[1]]))
        elif k == "I":
            self.render_if(s, ind, "if")
        elif k == "L":
            if s[1] is not None:
                self.emit(max(ind - 1, 0), self.labels[s[1]] + ":")
            cond = "" if s[2] is None else self.cond(s[2])
            if s[3] is None:
                head = "for %s{" % (cond + " " if cond else "")
            else:
                post = self.act_lines(s[3][1])[0] if s[3][0] == "a" else self.call_stmt(s[3][1])
                head = "for ; %s; %s {" % (cond, post)
            self.emit(ind, head)
            self.block(s[4], ind + 1)
            self.emit(ind, "}")
        elif k == "W":
            if s[1] is not None:
                self.emit(max(ind - 1, 0), self.labels[s[1]] + ":")
            self.emit(ind, "switch {")
            for i, (c, b) in enumerate(s[2]):
                self.emit(ind, "case %s:" % self.cond(c))
                self.block(b, ind + 1)
                if s[4][i]:
                    self.emit(ind + 1, "fallthrough")
            if s[3] is not None:
                self.emit(ind, "default:")
                self.block(s[3], ind + 1)
            self.emit(ind, "}")
        else:
            raise AssertionError(k)

    def render_if(self, s, ind, kw):
        self.emit(ind, "%s %s {" % (kw, self.cond(s[1])))
        self.block(s[2], ind + 1)
        els = s[3]
        if els is None:
            self.emit(ind, "}")
        elif els[0] == "I":
            self.render_if(els, ind, "} else if")
        else:
            self.emit(ind, "} else {")
            self.block(els[1], ind + 1)
            self.emit(ind, "}")

    def program(self):
        g = self.g
        gn = g.gnames
        self.out = [PRELUDE % dict(G0=gn[0], G1=gn[1], G2=gn[2], G3=gn[3])]
        for fi, f in enumerate(g.fns):
            self.names = f["names"]
            self.labels = f["labels"]
            n = self.names
            self.emit(0, "func F%d(%s int) int {" % (fi, n[0]))
            self.emit(1, "var %s int" % ", ".join(n[1:]))
            self.emit(1, "%s = %s" % (", ".join(["_"] * 7), ", ".join(n[1:])))
            self.block(f["body"], 1)
            self.emit(0, "}")
            self.emit(0, "")
            self.emit(0, "var fF%d func(int) int" % fi)
            self.emit(0, "")
            self.emit(0, "func (t T) CallF%d(x int) int { return F%d(x + t.pad) }" % (fi, fi))
            self.emit(0, "")
        self.emit(0, "func main() {")
        for fi in range(len(g.fns)):
            self.emit(1, "fF%d = F%d" % (fi, fi))
        self.emit(1, "r := F0(0)")
        self.emit(1, 'println("r", r, %s)' % ", ".join(gn))
        self.emit(1, "runfs(0)")
        self.emit(1, 'println("m", %s)' % ", ".join(c % i for c in CELLS for i in range(4)))
        self.emit(0, "}")
        return "\n".join(self.out) + "\n"


def render(g):
    return {"main.go": Render(g).program()}


# --------------------------------------------------------------------------------------
# skeleton of the emitted JavaScript
# --------------------------------------------------------------------------------------

_MARK = re.compile(r"(?<![\w$.])(at|ix|tr|pg|ps|push|runfs|cl|cnd|cnq)\((\d+)[,)]")
_TMPDEF = re.compile(r"(?<![\w$.])(_slice|_index|_struct|_ptr|_val)(?:\$\d+)? = ")
_LABEL_LINE = re.compile(r"^([^\s:(){};=]+):$")


def fn_bodies(js, nfn):
    """lines of the bodies of F0..F{nfn-1} in the non-minified program text"""
    lines = js.split("\n")
    res = {}
    for i, l in enumerate(lines):
        m = re.match(r"^(\t+)F(\d+) = function[^(]*\(", l)
        if m and l.rstrip().endswith("{"):
            ind = m.group(1)
            j = i + 1
            body = []
            while j < len(lines) and not lines[j].startswith(ind + "};"):
                body.append(lines[j])
                j += 1
            res[int(m.group(2))] = (ind, body)
    return [res.get(i) for i in range(nfn)]


def js_skeleton(fn, labels):
    """token list of one emitted function (see GV.Direct.skel) plus the temp-variable names per op-assign action.
    Lines inside nested function literals are skipped; only statement lines of the function itself count."""
    if fn is None:
        return None, None
    ind, body = fn
    base = len(ind) + 1
    lab_of = {}
    for n, name in labels.items():
        lab_of[name] = n
        lab_of[name + "$"] = n
    toks = []
    tmps = {}
    last_act = None
    skip_deeper = None
    pending_tmps = []
    for raw in body:
        depth = len(raw) - len(raw.lstrip("\t"))
        l = raw.strip()
        if not l or l.startswith("/*") and l.endswith("*/"):
            continue
        if skip_deeper is not None:
            if depth > skip_deeper:
                continue
            # the closing line of the literal (`}));`, `})(a, b));`) is indented one level deeper than its opening line,
            # so it has been skipped already; this line is the next statement
            skip_deeper = None
        opens_fn = re.search(r"function[^(]*\([^)]*\) \{$", l) is not None
        if opens_fn:
            skip_deeper = depth

        def lbl(x):
            x = x.strip()
            if x == "":
                return ""
            return str(lab_of.get(x, "?" + x))
        m = _LABEL_LINE.match(l)
        if m and not opens_fn:
            toks.append("L%s:" % lbl(m.group(1)))
            last_act = None
            continue
        if l == "while (true) {":
            toks.append("W{"); last_act = None; continue
        if l == "switch (0) { default:":
            toks.append("S{"); last_act = None; continue
        m = re.match(r"^if \(!\((.*)\)\) \{ break; \}$", l)
        if m:
            c = [x for x in _MARK.findall(m.group(1)) if x[0] in ("cnd", "cnq")]
            toks.append("NB%s" % (c[0][1] if c else "?")); last_act = None; continue
        m = re.match(r"^(\} else )?if \((.*)\) \{$", l)
        if m and not opens_fn:
            c = [x for x in _MARK.findall(m.group(2)) if x[0] in ("cnd", "cnq")]
            cid = c[0][1] if c else "?"
            toks.append(("}EI%s{" if m.group(1) else "I%s{") % cid); last_act = None; continue
        if l == "} else {":
            toks.append("}E{"); last_act = None; continue
        if l == "}":
            toks.append("}"); last_act = None; continue
        m = re.match(r"^break( [^;]+)?;$", l)
        if m:
            toks.append("B" + lbl(m.group(1) or "")); last_act = None; continue
        m = re.match(r"^continue( [^;]+)?;$", l)
        if m:
            toks.append("C" + lbl(m.group(1) or "")); last_act = None; continue
        if re.match(r"^return\b.*;$", l) and depth == base:
            toks.append("R"); last_act = None; continue
        if re.match(r"^return\b.*;$", l):
            toks.append("R"); last_act = None; continue
        if l.startswith("var "):
            continue
        td = _TMPDEF.findall(l)
        marks = _MARK.findall(l)
        ids = []
        for name, n in marks:
            if name in ("cnd", "cnq"):
                continue
            t = ("f%d" % int(n)) if name == "cl" else ("a%d" % (int(n) % 1000))
            if t not in ids:
                ids.append(t)
        if not ids:
            # an unmarked statement line (temporaries of shadow blocks, `_tuple = …` continuation lines …)
            continue
        if len(ids) > 1:
            toks.append("?multi:" + ",".join(ids))
            last_act = None
            continue
        t = ids[0]
        if td:
            tmps.setdefault(t, [])
            tmps[t] += td
        if t != last_act:
            toks.append(t)
            last_act = t
    return toks, tmps
