"""C19 — source maps are complete, in range and point at the right Go lines.

Proof: GV.Props.C19 (hint wire format round trip; Filter.Write removes exactly the hints, reports every hint at the
exact output position, independent of the chunking into Write calls; byte vs UTF-16 columns; JS mapping offsetting).
Ties:
  filter   streams built with the REAL Hint.Pack / WriteTo / Identifier.EncodeHint (hook), random chunkings, fed to the
           REAL sourcemapx.Filter with a recording callback (gvh_c19 lines) vs the Lean driver on the same bytes/chunks
  js       REAL Filter.WriteJS (esbuild + defaultJSMappingCallback) after a prefix vs model (code as it is) vs spec
  ctx      REAL funcContext Write/Printf/SetPos/CatchOutput/Delayed scripts vs the Lean buffer model
  prog     generated Go programs compiled in process with maps, plain and minified: no magic byte in out.js, same
           bytes with and without map, mappings in range, statement starts, Node stack frames resolved through the map
"""
import json
import os
import re

from . import common as C

PID = "C19"
THEOREMS = ["hint_roundtrip", "writeTo_too_long", "enc_bytes", "payload_magic_safe", "one_mapping_per_hint",
            "chunking_independent", "chunking_independent'", "code_split", "hints_removed", "output_magic_free",
            "positions_exact", "positions_exact_init", "columns_units", "columns_units_needs_ascii",
            "placeAt_correct", "offset_js", "offset_js_points_at_text",
            "pending_flushed_by_write", "write_without_pending", "setPos_last_wins", "every_setpos_reported_counterexample", "printf_hint_first",
            "catch_restores", "stmt_position_exact", "alternating_positions_reported", "stmts_all_mapped",
            "rwItems_sub", "minify_keeps_mappings", "mapping_uses_current_fileset", "stale_cache_counterexample", "normalize_full", "name_resolves", "normalize_localmap",
            "normalize_partial_before_repair", "normalize_counterexample", "normalize_counterexample_sibling",
            "normalize_counterexample_modcache", "normalize_counterexample_panic", "normalize_prefix_roots_ok", "offset_js_counterexample_before_repair"]

# the fixed go/token.FileSet shared with harness/cmd/gvh_c19/lines.go (fileSpecs): name, size, line start offsets
FILES = [("a.go", 500, list(range(0, 500, 25))), ("pkg/b.go", 300, list(range(0, 300, 17))), ("c.go", 100, [0, 1, 2, 50, 99])]
KNOWN_SWITCH = "C19 switch tag evaluation has no mapping (synthetic assignment without position)"
KNOWN_CLOSURE = "C19 call of a function literal: the call after the literal body has no mapping (NoPos hint ends the inner statement list)"


def hx(b):
    return "-" if len(b) == 0 else bytes(b).hex()


def position(pos):
    """go/token.FileSet.Position for the fixed file set -> (filename or '-', line, column)"""
    base = 1
    for name, size, lines in FILES:
        if pos != 0 and base <= pos <= base + size:
            off = pos - base
            i = max(k for k, l in enumerate(lines) if l <= off)
            return (name, i + 1, off - lines[i] + 1)
        base += size + 1
    return ("-", 0, 0)


def desc(pos, name=b""):
    f, l, c = position(pos)
    return "%s|%d|%d|%s" % (f, l, c, hx(name))


POS_POOL = [0, 1, 2, 25, 26, 27, 500, 501, 502, 503, 519, 802, 803, 804, 805, 853, 902, 903, 904, 2000, 4, 8, 1032]
NAME_POOL = [b"foo", b"main.Foo", b"$ptr", b"x", b"", "café".encode(), "main.·f".encode(), b"a\x08b", b"T.method$1", b"\xff\xfe"]


def rand_code(rng, maxlen=12):
    n = rng.choice([0, 1, 1, 2, 3, 5, 8, maxlen])
    out = []
    for _ in range(n):
        k = rng.random()
        if k < 0.25:
            out.append(10)
        elif k < 0.35:
            out.append(9)
        elif k < 0.8:
            out.append(rng.randrange(32, 127))
        elif k < 0.9:
            out += list("·".encode())
        else:
            b = rng.randrange(256)
            out.append(b if b != 8 else 7)
    return out


def rand_items(rng, maxitems, raw_ok):
    items = []
    for _ in range(rng.randrange(0, maxitems + 1)):
        k = rng.random()
        if k < 0.45:
            items.append({"c": hx(rand_code(rng))})
        elif k < 0.7 or (not raw_ok and k >= 0.9):
            items.append({"p": rng.choice([rng.choice(POS_POOL), rng.randrange(0, 950)])})
        elif k < 0.9:
            nm, on = rng.choice(NAME_POOL), rng.choice(NAME_POOL)
            items.append({rng.choice("ie"): [hx(nm), hx(on), rng.choice([rng.choice(POS_POOL), rng.randrange(0, 950)])]})
        else:
            n = rng.choice([0, 1, 2, 3, 7, 255, 256, 257, 300])
            pl = [rng.choice([8, 8, 0, 10, rng.randrange(256)]) for _ in range(n)]
            items.append({"r": hx(pl)})
    return items


def item_desc(it):
    if "p" in it:
        return desc(it["p"])
    if "i" in it or "e" in it:
        v = it.get("i") or it.get("e")
        return desc(v[2], bytes.fromhex(v[1]) if v[1] != "-" else b"")
    return None


def chunkings(rng, enc_items, how):
    """enc_items: list of (bytes, is_hint). Returns list of chunks (bytes) whose concatenation is the stream and which
    never split a hint."""
    stream = b"".join(b for b, _ in enc_items)
    if how == "whole":
        return [stream]
    cuts = set()          # admissible cut offsets
    off = 0
    for b, is_hint in enc_items:
        cuts.add(off)
        if not is_hint:
            for k in range(1, len(b)):
                cuts.add(off + k)
        off += len(b)
    cuts.add(off)
    cuts = sorted(cuts)
    if how == "bytes":      # one byte per call, except hints
        sel = cuts
    elif how == "items":
        sel, off = [0], 0
        for b, _ in enc_items:
            off += len(b)
            sel.append(off)
        sel = sorted(set(sel))
    else:
        sel = sorted(set([0, len(stream)] + [c for c in cuts if rng.random() < 0.3]))
    res = [stream[a:b] for a, b in zip(sel, sel[1:])]
    if how == "random" and rng.random() < 0.3:
        res.insert(rng.randrange(0, len(res) + 1), b"")     # an empty Write
    return res or [b""]


def chunks_arg(chs):
    return ",".join(hx(c) for c in chs) if chs else "."


def build_streams(streams):
    """stage A: abstract item lists -> encoded items through the real Pack/WriteTo"""
    ops = ["srcmap build " + json.dumps(s, separators=(",", ":")) for s in streams]
    ans = C.run_gvh_lines(["lines"], ops, name="gvh_c19")
    res = []
    for s, a in zip(streams, ans):
        if a.startswith("harness-error") or a.startswith("bad"):
            raise RuntimeError("gvh_c19 build failed: " + a)
        parts = [] if a == "." else a.split(" ")
        if len(parts) != len(s):
            raise RuntimeError("gvh_c19 build: %d parts for %d items" % (len(parts), len(s)))
        enc = []
        for it, p in zip(s, parts):
            e, pl = p.split("/")
            eb = bytes.fromhex(e) if e != "-" else b""
            enc.append((eb, "c" not in it, pl))
        res.append(enc)
    return res


def all_small_streams():
    """every stream of <= 3 items over a small item alphabet (x all chunkings, added by the caller)"""
    alpha = [{"c": "61"}, {"c": "0a"}, {"c": "620a63"}, {"p": 30}, {"i": ["78", "79", 805]}, {"r": "08"}]
    import itertools
    out = []
    for n in range(0, 4):
        for t in itertools.product(alpha, repeat=n):
            out.append(list(t))
    return out


def all_chunkings(enc_items, limit=64):
    stream = b"".join(b for b, _, _ in enc_items)
    cuts, off = [], 0
    for b, is_hint, _ in enc_items:
        if off:
            cuts.append(off)
        if not is_hint:
            cuts += [off + k for k in range(1, len(b))]
        off += len(b)
    cuts = sorted(set(c for c in cuts if 0 < c < len(stream)))
    res = []
    for mask in range(min(1 << len(cuts), limit)):
        sel = [0] + [c for i, c in enumerate(cuts) if mask >> i & 1] + [len(stream)]
        res.append([stream[a:b] for a, b in zip(sel, sel[1:])])
    return res


def kind(op, ans):
    p = op.split()
    k = p[1]
    if k == "filter":
        if ans.startswith("panic"):
            return "filter:" + ans.split()[0]
        nm = 0 if ans.split()[2] == "-" else ans.split()[2].count(";") + 1
        nch = 0 if p[3] == "." else p[3].count(",") + 1
        return "filter:%s:chunks=%s:maps=%s" % (p[2], "1" if nch <= 1 else "2-4" if nch <= 4 else "5+", "0" if nm == 0 else "1-3" if nm <= 3 else "4+")
    if k == "read":
        return "read:" + (ans if ans.startswith("panic") else "ok")
    return k


def filter_tie(chk, tier):
    rng = chk.rng
    nrand = 6000 if tier == "thorough" else 900
    streams = []
    modes = []
    for _ in range(nrand):
        raw_ok = rng.random() < 0.3
        streams.append(rand_items(rng, rng.choice([2, 4, 8, 16]), raw_ok))
        modes.append("norec" if raw_ok else "rec")
    small = all_small_streams() if tier == "thorough" else all_small_streams()[:43]
    for s in small:
        streams.append(s)
        modes.append("norec")
    encs = build_streams(streams)
    ops = []
    n_hint_magic = 0
    for idx, (s, enc, mode) in enumerate(zip(streams, encs, modes)):
        d = {}
        for it, (eb, is_hint, pl) in zip(s, enc):
            de = item_desc(it)
            if de is not None:
                d[pl] = de
            if is_hint and "08" in [pl[i:i + 2] for i in range(0, len(pl), 2)]:
                n_hint_magic += 1
        dict_arg = ",".join("%s=%s" % kv for kv in sorted(d.items())) or "-"
        ei = [(eb, h) for eb, h, _ in enc]
        if idx >= nrand:     # exhaustive part: all chunkings
            for chs in all_chunkings(enc):
                ops.append("srcmap filter %s %s %s" % (mode, chunks_arg(chs), dict_arg))
                if mode == "norec" and not any("r" in it for it in s):
                    ops.append("srcmap filter rec %s %s" % (chunks_arg(chs), dict_arg))
        else:
            for how in ("whole", "items", "bytes", "random", "random"):
                ops.append("srcmap filter %s %s %s" % (mode, chunks_arg(chunkings(rng, ei, how)), dict_arg))
    chk.extra["hints_with_magic_in_payload"] = n_hint_magic
    # arbitrary bytes (outside the property's domain, the model must still describe the code): panics included
    for _ in range(3000 if tier == "thorough" else 500):
        n = rng.randrange(0, 24)
        bs = [rng.choice([8, 8, 0, 0, 1, 2, 3, 10, 65, rng.randrange(256)]) for _ in range(n)]
        cuts = sorted(set([0, n] + [rng.randrange(0, n + 1) for _ in range(rng.randrange(0, 4))]))
        chs = [bytes(bs[a:b]) for a, b in zip(cuts, cuts[1:])]
        ops.append("srcmap filter norec %s -" % chunks_arg(chs))
        ops.append("srcmap read %s" % hx(bs))
        ops.append("srcmap find %s" % hx(bs))
    for _ in range(2000 if tier == "thorough" else 300):      # well-formed hints followed by arbitrary bytes
        n = rng.choice([0, 1, 2, 3, 5, 17, 255, 256, 300])
        pl = [rng.choice([8, 0, 10, rng.randrange(256)]) for _ in range(n)]
        tail = [rng.choice([8, 65, rng.randrange(256)]) for _ in range(rng.randrange(0, 4))]
        ops.append("srcmap read %s" % hx([8, n >> 8, n & 255] + pl + tail))
    for n in (0, 1, 2, 255, 256, 257, 65534, 65535, 65536, 70000):
        for fill in (8, 0, 65):
            ops.append("srcmap writelen %d %d" % (n, fill))
    for _ in range(300 if tier == "thorough" else 60):
        n = rng.choice([0, 1, 2, 3, 8, 255, 256, 257, 511, 512])
        ops.append("srcmap writeto %s" % hx([rng.choice([8, rng.randrange(256)]) for _ in range(n)]))
    impl = C.run_gvh_lines(["lines"], ops, name="gvh_c19")
    model = C.run_driver(PID, ops)
    bad = [a for a in impl if a.startswith("harness-error") or a.startswith("bad-")]
    if bad:
        raise RuntimeError("gvh_c19 lines: " + bad[0])
    chk.compare("filter", ops, impl, model, kind=kind)
    return len(ops)


JS_SNIPPETS = [
    "function f() {\n  return Error().stack;\n}\nthis.f = f;\n",
    "var a = 1;",
    "var $x = function(a, b) {\n\tif (a) { return b; }\n\treturn a + b;\n};\n\nvar $y = (v) => { throw new Error(v); };\n",
    "/* c */ var q = [1, 2,\n 3];\n",
]


def js_tie(chk, tier):
    rng = chk.rng
    srcs = [(s, "snip%d.inc.js" % i) for i, s in enumerate(JS_SNIPPETS)]
    pre_dir = os.path.join(C.REPO, "compiler", "prelude")
    for f in ("jsmapping.js",) + (("numeric.js", "goroutines.js") if tier == "thorough" else ()):
        srcs.append((open(os.path.join(pre_dir, f)).read(), f))
    iso_ops = []
    for s, path in srcs:
        for m in (0, 1):
            iso_ops.append("srcmap jsiso %s %s %d" % (hx(s.encode()), path, m))
    iso = C.run_gvh_lines(["lines"], iso_ops, name="gvh_c19")
    prefixes = [[], [b"var $goVersion = \"go1.20\";\n"], [b"\t(function() {\n"], [b"(function(){"], [b"x;\n", b"  ab"]]
    nextra = 12 if tier == "thorough" else 4
    streams = [rand_items(rng, 6, False) for _ in range(nextra)]
    for enc in build_streams(streams):
        prefixes.append(chunkings(rng, [(eb, h) for eb, h, _ in enc], "random"))
    ops = []
    for op, ans in zip(iso_ops, iso):
        if ans.startswith("harness-error"):
            raise RuntimeError("gvh_c19 jsiso: " + ans)
        p = op.split()
        maps = ans.split(" ")[1]
        for pre in prefixes:
            ops.append("srcmap js %s %s %s %s %s" % (chunks_arg(pre), p[2], p[3], p[4], maps))
    impl = C.run_gvh_lines(["lines"], ops, name="gvh_c19")
    if any(a.startswith("harness-error") for a in impl):
        raise RuntimeError("gvh_c19 js: " + [a for a in impl if a.startswith("harness-error")][0])
    model = C.run_driver(PID, ops)
    spec = C.run_driver(PID, [o.replace("srcmap js ", "srcmap jsspec ", 1) for o in ops])
    chk.compare("js-offset", ops, impl, model, spec=spec,
                kind=lambda o, c: "js:minify=%s" % o.split()[5])
    return len(ops)


def fsseq_tie(chk, tier):
    """one real Filter, a SEQUENCE of FileSets with overlapping position numbers (what WritePkgCode does per package)"""
    rng = chk.rng
    poses = list(range(0, 130))
    enc = build_streams([[{"p": p} for p in poses]])[0]
    hint = {p: e[0] for p, e in zip(poses, enc)}
    dict_arg = ",".join("%s=%d" % (e[2], p) for p, e in zip(poses, enc))
    names = ["runtime.go", "dep.go", "main.go", "a.go", "b.go", "util.go"]
    ops = []
    for _ in range(1500 if tier == "thorough" else 300):
        segs = []
        for _ in range(rng.choice([1, 2, 2, 3, 4])):
            files, total = [], 0
            for _ in range(rng.choice([1, 1, 2, 3])):
                step = rng.choice([3, 5, 7, 11])
                size = step * rng.randrange(1, 9) + rng.randrange(1, step)       # never a multiple of step
                files.append((rng.choice(names), size, step))
                total += size + 1
            chunks, cur = [], b""
            for _ in range(rng.randrange(1, 7)):
                k = rng.random()
                pos = 0 if k < 0.08 else rng.randrange(1, total + 3) if k < 0.9 else rng.randrange(1, 129)
                cur += hint[min(pos, 129)] + bytes(rand_code(rng, 6)) + b"x"    # at least one byte between two hints
                if rng.random() < 0.4:
                    chunks.append(cur)
                    cur = b""
            chunks.append(cur)
            segs.append("%s@%s" % ("/".join("%s:%d:%d" % f for f in files), chunks_arg(chunks)))
        ops.append("srcmap fsseq %s %s" % (";".join(segs), dict_arg))
    impl = C.run_gvh_lines(["lines"], ops, name="gvh_c19")
    if any(a.startswith("harness-error") for a in impl):
        raise RuntimeError("gvh_c19 fsseq: " + [a for a in impl if a.startswith("harness-error")][0])
    model = C.run_driver(PID, ops)
    chk.compare("filter-fileset-sequence", ops, impl, model, kind=lambda o, c: "fsseq:segments=%d" % (o.split()[2].count(";") + 1))
    return len(ops)


def rand_ctx_script(rng, depth, poses):
    toks = []
    for _ in range(rng.randrange(1, 7)):
        k = rng.random()
        if k < 0.3:
            toks.append("S%d" % rng.choice(poses))
        elif k < 0.5:
            toks.append("W" + hx(rand_code(rng, 4)))
        elif k < 0.7:
            toks.append("F" + hx([c for c in rand_code(rng, 6) if c != 10]))
        elif k < 0.78:
            toks.append("U%d" % rng.randrange(0, 3))
        elif depth > 0:
            head = rng.choice(["I(", "D(", "C0(", "C1(", "C2("])
            toks += [head] + rand_ctx_script(rng, depth - 1, poses) + [")"]
    return toks


def ctx_tie(chk, tier):
    rng = chk.rng
    poses = [0, 1, 4, 30, 127, 128, 300, 805, 70000]
    enc = build_streams([[{"p": p} for p in poses]])[0]
    dict_arg = ",".join("%d=%s" % (p, e[2]) for p, e in zip(poses, enc))
    ops = []
    for _ in range(4000 if tier == "thorough" else 600):
        ops.append("srcmap ctx %s %s" % (dict_arg, " ".join(rand_ctx_script(rng, 3, poses))))
    impl = C.run_gvh_lines(["lines"], ops, name="gvh_c19")
    if any(a.startswith("harness-error") for a in impl):
        raise RuntimeError("gvh_c19 ctx: " + [a for a in impl if a.startswith("harness-error")][0])
    model = C.run_driver(PID, ops)
    chk.compare("funcContext-buffer", ops, impl, model,
                kind=lambda o, c: "ctx:" + ("catch" if " C" in o else "flat") + (":pending" if c.split()[1] != "0" else ""))
    return len(ops)


# --------------------------------------------------------------------------------------
# names of original files: Filter.normalizePath
# --------------------------------------------------------------------------------------

def go_clean(p):
    """path.Clean"""
    if p == "":
        return "."
    rooted = p.startswith("/")
    out = []
    for e in p.split("/"):
        if e in ("", "."):
            continue
        if e == "..":
            if out and out[-1] != "..":
                out.pop()
            elif not rooted:
                out.append("..")
        else:
            out.append(e)
    r = "/".join(out)
    return "/" + r if rooted else (r or ".")


def norm_first_match_real(goroot, gopath, file):
    """True/False: is the FIRST root (code order: cleaned GOPATH entries, then GOROOT as given) that is a string prefix of
    the file a real containment `<root>/src/...`? None: no root is a string prefix."""
    roots = ([go_clean(e) for e in gopath.split(":")] if gopath else []) + [goroot]
    for r in roots:
        if file.startswith(r):
            return r != "/" and file.startswith(r.rstrip("/") + "/src/")
    return None


def norm_triples(rng, n):
    bases = ["/x/go", "/usr/local/go", "/home/u/go", "/y", "/x/g", "/opt/go1.20"]
    sfx = ["-work", "path", "-projects/app", "code", ".d", "x", "_ws", "1"]
    pk = ["demo", "example.org/app", "runtime", "a/b/c", "src", "h-llo"]
    out = []
    for _ in range(n):
        b = rng.choice(bases)
        goroot = rng.choice([b, b, b, b + "/", b + "/sdk/go1.20", "/usr/lib/go-1.23"])
        ws = []
        for _ in range(rng.choice([0, 1, 1, 1, 2, 3])):
            k = rng.random()
            w = (b + rng.choice(sfx) if k < 0.4 else                 # string prefix of GOROOT, not an ancestor
                 b + "/src/ws" if k < 0.48 else b + "/ws" if k < 0.55 else   # nested inside GOROOT
                 os.path.dirname(b) or "/" if k < 0.62 else          # GOROOT nested inside the workspace
                 rng.choice(["/root/go", "/w", "/w/w2", "/w-2", "rel/ws", "/"]))
            w = rng.choice([w, w, w, w + "/", w + "//", "/./" + w.lstrip("/"), w + "/../" + os.path.basename(w.rstrip("/") or "z")])
            ws.append(w)
        if rng.random() < 0.1:
            ws.insert(rng.randrange(0, len(ws) + 1), "")              # empty list element
        gopath = ":".join(ws)
        roots = [go_clean(w) for w in ws] + [go_clean(goroot)]
        r = rng.choice(roots)
        f = rng.choice(pk) + "/" + rng.choice(["main.go", "f.go", "x.inc.js"])
        k = rng.random()
        file = (r + "/src/" + f if k < 0.4 else
                r + "/pkg/mod/example.org/m@v1.2.3/" + f if k < 0.5 else      # module cache / toolchain below a workspace
                r + rng.choice(sfx) + "/" + f if k < 0.62 else               # sibling whose path starts with the root string
                r + rng.choice(sfx) + "/src/" + f if k < 0.7 else
                r + "/" + os.path.basename(f) if k < 0.76 else               # inside the root, outside src
                rng.choice(["/z/app/", "/tmp/gv-1/", "", "rel/"]) + f if k < 0.88 else
                rng.choice([r + "/src/", r + "/src", r + "/a", r, r + "/", "", "/", "a.go", r + "/srcx/" + f, r + "//src/" + f]))
        out.append((goroot, gopath, file))
    # the configurations named in the brief
    out += [("/x/go", "/x/go-workspace", "/x/go-workspace/src/demo/main.go"), ("/usr/local/go", "/usr/local/gopath", "/usr/local/gopath/src/x/y.go"),
            ("/x/go-root", "/x/go", "/x/go-root/src/fmt/print.go"), ("/x/go", "/y", "/x/go-work/app/main.go"),
            ("/x/go", "/x/go/ws", "/x/go/ws/src/p/f.go"), ("/x/ws/sdk/go", "/x/ws", "/x/ws/sdk/go/src/fmt/print.go"),
            ("/x/go", "/y", "/y/pkg/mod/golang.org/toolchain@v0.0.1/src/fmt/print.go"), ("/x/go", "/a:/a-b:/a-b-c", "/a-b-c/src/p/f.go")]
    return out


def norm_tie(chk, tier):
    rng = chk.rng
    triples = norm_triples(rng, 6000 if tier == "thorough" else 1200)
    raw_ops, ops = [], []
    for goroot, gopath, file in triples:
        args = "%s %s %s" % (hx(goroot.encode()), hx(gopath.encode()), hx(file.encode()))
        lm = "1" if rng.random() < 0.05 else "0"
        raw_ops.append("srcmap normraw %s %s" % (args, lm))
        ops.append("srcmap norm %s %s" % (args, lm))
    impl = C.run_gvh_lines(["lines"], raw_ops + ops, name="gvh_c19")
    bad = [a for a in impl if a.startswith("harness-error") or a.startswith("bad-") or a.startswith("panic:other")]
    if bad:
        raise RuntimeError("gvh_c19 norm: " + bad[0])
    model = C.run_driver(PID, raw_ops + ops)
    spec = C.run_driver(PID, [o.replace("srcmap norm ", "srcmap normspec ", 1) for o in ops])
    # the scheme before the repair c63a0c1 must still differ from the specification on the old witnesses (regression cases)
    old = C.run_driver(PID, [o.replace("srcmap norm ", "srcmap normold ", 1) for o in ops])
    chk.extra["normalizePath_triples_where_the_old_scheme_was_wrong"] = sum(1 for a, b in zip(old, spec) if a != b)
    n = len(raw_ops)
    # a name that differs from the specification's choice of root but still leads back to the file through one of the roots
    # (possible only when roots are nested in one another's src) does not violate the property (`name_resolves`): such a
    # difference stays a correspondence break (impl != model) and is not reported as a failing input
    dec = lambda h: "" if h == "-" else bytes.fromhex(h).decode()

    def resolves(o, a):
        p = o.split()
        if not a.startswith("name ") or p[5] != "0":
            return False
        goroot, gopath, file = dec(p[2]), dec(p[3]), dec(p[4])
        name = dec(a.split()[1])
        roots = [go_clean(e) for e in (gopath.split(":") if gopath else [])] + [go_clean(goroot)]
        return bool(file) and any(go_clean(("" if r == "/" else r) + "/src/" + name) == go_clean(file) for r in roots)
    spec_raw = list(model[:n])          # model = specification is proved (normalize_full)
    for i in range(n):
        if impl[i] != spec_raw[i] and resolves(raw_ops[i], impl[i]):
            spec_raw[i] = impl[i]
        if impl[n + i] != spec[i] and resolves(ops[i], impl[n + i]):
            spec[i] = impl[n + i]
            chk.count("norm:other-root-but-resolves")

    def kind_(o, c):
        p = o.split()
        dec = lambda h: "" if h == "-" else bytes.fromhex(h).decode()
        if p[5] == "1":
            return "norm:localmap"
        r = norm_first_match_real(dec(p[2]), dec(p[3]), dec(p[4]))
        return "norm:" + ("no-root-matches" if r is None else "first-match-real" if r else "first-match-bare")
    chk.compare("normalizePath-raw", raw_ops, impl[:n], model[:n], spec=spec_raw, kind=lambda o, c: "normraw:" + c.split()[0])
    chk.compare("normalizePath-name", ops, impl[n:], model[n:], spec=spec, kind=kind_)
    return 2 * n


# --------------------------------------------------------------------------------------
# program level
# --------------------------------------------------------------------------------------

B64 = "ABCDEFGHIJKLMNOPQRSTUVWXYZabcdefghijklmnopqrstuvwxyz0123456789+/"
B64I = {c: i for i, c in enumerate(B64)}


def decode_map(text):
    """source map v3 -> (map json, [(genLine0, genCol, source|None, origLine0, origCol, name|None)]) in file order"""
    m = json.loads(text)
    res = []
    src = ol = oc = nm = 0
    for gl, line in enumerate(m["mappings"].split(";")):
        gc = 0
        if not line:
            continue
        for seg in line.split(","):
            vals, v, sh = [], 0, 0
            for ch in seg:
                d = B64I[ch]
                v += (d & 31) << sh
                if d & 32:
                    sh += 5
                    continue
                vals.append(-(v >> 1) if v & 1 else v >> 1)
                v, sh = 0, 0
            gc += vals[0]
            if len(vals) >= 4:
                src += vals[1]
                ol += vals[2]
                oc += vals[3]
                name = None
                if len(vals) >= 5:
                    nm += vals[4]
                    name = m["names"][nm]
                res.append((gl, gc, m["sources"][src], ol, oc, name))
            else:
                res.append((gl, gc, None, None, None, None))
    return m, res


INC_JS = """// helper for the C19 check
function jsStack(n) {
    switch (n) {
    case 1:
        try { throw new Error("x"); } catch (e) { return e.stack; }
    default:
        for (var i = 0; i < 1; i++) { n = typeof n; }
    }
    return Error().stack;
}
this.jsStack = jsStack;
"""

PANICS = ["index", "index-if", "index-return", "index-multiline", "panic", "nilmap", "divide", "nilptr", "index-call", "index-for", "index-switch",
          "index-elseif", "index-closure"]


class ProgGen:
    """Go programs whose statements carry unique markers, with a call chain ending in a run-time panic."""

    def __init__(self, rng, with_inc, blocking, kind=None):
        self.force_kind = kind
        self.rng = rng
        self.lines = []
        self.marker = 1000
        self.probes = []      # (line, kind, marker)   kind: exact | contains
        self.chain = []       # expected main.go lines of the stack, innermost first
        self.unmapped = {}    # line -> signature of the recorded defect that leaves this statement without mapping
        self.with_inc = with_inc
        self.blocking = blocking
        self.indent_unit = rng.choice(["\t", "\t", "    "])

    def emit(self, depth, text):
        self.lines.append(self.indent_unit * depth + text)
        return len(self.lines)

    def mk(self):
        self.marker += 1
        return self.marker

    def stmts(self, depth, n, budget):
        rng = self.rng
        for _ in range(n):
            k = rng.random()
            if k < 0.3:
                m = self.mk()
                txt = rng.choice(['println("m%d")', 'println("m%d")', 'println("héllo·", "m%d")'])
                l = self.emit(depth, txt % m)
                self.probes.append((l, "exact" if "llo" not in txt else "contains", m))
            elif k < 0.5:
                m = self.mk()
                l = self.emit(depth, "v = v + %d" % m)
                self.probes.append((l, "contains", m))
            elif k < 0.58:
                m = self.mk()
                l = self.emit(depth, "v = v +")
                self.emit(depth + 2, "%d" % m)
                self.probes.append((l, "contains", m))
            elif k < 0.7 and budget > 0:
                m = self.mk()
                l = self.emit(depth, "if v > %d {" % m)
                self.probes.append((l, "contains", m))
                self.stmts(depth + 1, rng.randrange(1, 3), budget - 1)
                if rng.random() < 0.5:
                    self.emit(depth, "} else {")
                    self.stmts(depth + 1, rng.randrange(1, 3), budget - 1)
                self.emit(depth, "}")
            elif k < 0.8 and budget > 0:
                l = self.emit(depth, "for i := 0; i < 2; i++ {")
                self.probes.append((l, "mapped", 0))
                self.stmts(depth + 1, rng.randrange(1, 3), budget - 1)
                self.emit(depth, "}")
            elif k < 0.88 and budget > 0:
                m1, m2 = self.mk(), self.mk()
                l = self.emit(depth, "switch v {")
                self.probes.append((l, "mapped", 0))
                self.unmapped[l] = KNOWN_SWITCH      # the position of the switch is overwritten by the tag assignment's NoPos
                l = self.emit(depth, "case %d:" % m1)
                self.probes.append((l, "contains", m1))
                self.stmts(depth + 1, 1, budget - 1)
                l = self.emit(depth, "case %d, %d:" % (m2, m2 + 100000))
                self.probes.append((l, "contains", m2))
                self.stmts(depth + 1, 1, budget - 1)
                self.emit(depth, "default:")
                self.stmts(depth + 1, 1, budget - 1)
                self.emit(depth, "}")
            elif k < 0.94 and budget > 0:
                l = self.emit(depth, "func() {")
                self.probes.append((l, "mapped", 0))
                self.stmts(depth + 1, rng.randrange(1, 3), budget - 1)
                self.emit(depth, "}()")
            else:
                m = self.mk()
                l = self.emit(depth, 'defer println("m%d")' % m)
                self.probes.append((l, "contains", m))

    def build(self):
        rng = self.rng
        depth_chain = rng.randrange(1, 4)
        kind = rng.choice(PANICS)
        if self.force_kind:
            kind = self.force_kind      # the draw above is kept so that the other programs of a seed do not change
        self.kind = kind
        self.emit(0, "package main")
        self.emit(0, "")
        if self.with_inc:
            self.emit(0, 'import "github.com/gopherjs/gopherjs/js"')
            self.emit(0, "")
        self.emit(0, "type T struct{ a, b int }")
        self.emit(0, "")
        self.emit(0, "var arr []int")
        self.emit(0, "var zero int")
        self.emit(0, "var nilT *T")
        self.emit(0, "var nilMap map[string]int")
        self.emit(0, "")
        self.emit(0, "func id(x int) int { return x }")
        self.emit(0, "")
        # innermost function with the panic site
        names = ["f%d" % i for i in range(depth_chain)]
        for i, name in enumerate(names):
            recv = rng.random() < 0.3
            self.emit(0, ("func (t *T) %s(v int) int {" if recv else "func %s(v int) int {") % name)
            if self.blocking and i == 0:
                self.emit(1, "ch := make(chan int, 1)")
                self.emit(1, "ch <- v")
                self.emit(1, "v = <-ch")
            self.stmts(1, rng.randrange(0, 4), 2)
            if i == 0:
                if kind == "index":
                    l = self.emit(1, "v = arr[v]")
                elif kind == "index-if":
                    l = self.emit(1, "if arr[v] > 0 {")
                    self.emit(2, "v = 0")
                    self.emit(1, "}")
                elif kind == "index-for":
                    l = self.emit(1, "for arr[v] > 0 {")
                    self.emit(2, "v = 0")
                    self.emit(1, "}")
                elif kind == "index-switch":
                    l = self.emit(1, "switch arr[v] {")
                    self.unmapped[l] = KNOWN_SWITCH
                    self.emit(1, "case 1:")
                    self.emit(2, "v = 0")
                    self.emit(1, "}")
                elif kind == "index-elseif":
                    self.emit(1, "if v < 0 {")
                    self.emit(2, "v = 1")
                    l = self.emit(1, "} else if arr[v] > 0 {")
                    self.emit(2, "v = 0")
                    self.emit(1, "}")
                elif kind == "index-closure":
                    self.emit(1, "func() {")
                    l = self.emit(2, "v = arr[v]")
                    self.emit(1, "}()")
                    self.chain.append(l)
                    l = l - 1
                    self.unmapped[l] = KNOWN_CLOSURE
                elif kind == "index-return":
                    l = self.emit(1, "return arr[v]")
                elif kind == "index-multiline":
                    l = self.emit(1, "v = id(")
                    self.emit(2, "arr[v],")
                    self.emit(1, ")")
                elif kind == "index-call":
                    l = self.emit(1, "v = id(arr[v]) + id(v)")
                elif kind == "panic":
                    l = self.emit(1, 'panic("boom")')
                elif kind == "nilmap":
                    l = self.emit(1, 'nilMap["k"] = v')
                elif kind == "divide":
                    l = self.emit(1, "v = v / zero")
                else:
                    l = self.emit(1, "v = nilT.a + v")
                self.chain.append(l)
            else:
                prev = names[i - 1]
                call = ("nilT.%s(v)" if self.prev_recv else "%s(v)") % prev
                style = rng.random()
                if style < 0.6:
                    l = self.emit(1, "v = %s" % call)
                elif style < 0.8:
                    l = self.emit(1, "v = id(v) +")
                    self.emit(3, "%s" % call)
                else:
                    l = self.emit(1, "if %s > 0 {" % call)
                    self.emit(2, "v = 1")
                    self.emit(1, "}")
                self.chain.append(l)
            self.prev_recv = recv
            if kind != "index-return" or i > 0:
                self.stmts(1, rng.randrange(0, 3), 1)
                l = self.emit(1, "return v")
                self.probes.append((l, "mapped", 0))
            self.emit(0, "}")
            self.emit(0, "")
        self.emit(0, "func main() {")
        self.emit(1, "v := 5")
        self.stmts(1, rng.randrange(1, 4), 2)
        if self.with_inc:
            l = self.emit(1, 'println(js.Global.Call("jsStack", 1).String())')
            self.inc_line = l
            self.emit(1, 'println(js.Global.Call("jsStack", 2).String())')
        top = names[-1]
        l = self.emit(1, ("v = nilT.%s(v)" if self.prev_recv else "v = %s(v)") % top)
        self.chain.append(l)
        self.emit(1, "println(v)")
        self.emit(0, "}")
        for l in self.chain:
            if l not in self.unmapped or self.unmapped[l] == KNOWN_SWITCH:
                self.probes.append((l, "mapped", 0))
        return "\n".join(self.lines) + "\n"


EXACT_TOKENS = (b"case", b"for", b"switch", b"throw", b"try", b"typeof")
IDENT = re.compile(rb"[A-Za-z_$][A-Za-z0-9_$]*")
FRAME = re.compile(r"^\s+at (?:(.*?) \()?(?:file://)?([^()\s]*?):(\d+):(\d+)\)?$")


def resolve_source(name, res, files):
    """the original file a map names -> list of lines (bytes) or None"""
    base = os.path.basename(name)
    if base in files and (name == base or name.startswith(res["dir"])):
        return files[base].encode().split(b"\n")
    cands = [name]
    goroot_src = os.path.join(res["goroot"], "src") + "/"
    # normalizePath (localmap off) leaves a leading slash on GOROOT/GOPATH relative names
    rel = name[len(goroot_src):] if name.startswith(goroot_src) else name.lstrip("/")
    if rel.startswith("github.com/gopherjs/gopherjs/"):
        cands.append(os.path.join(C.REPO, rel[len("github.com/gopherjs/gopherjs/"):]))
    if base.startswith("gopherjs__"):
        cands.append(os.path.join(C.REPO, "compiler", "natives", "src", os.path.dirname(rel), base[len("gopherjs__"):]))
    for gp in (res.get("gopath") or "").split(":"):
        if gp:
            cands.append(os.path.join(gp, "src", rel))
    cands.append(os.path.join(res["goroot"], "src", rel))
    cands.append(os.path.join(C.REPO, "compiler", "prelude", base))
    if name.startswith("/repo/"):
        cands.append(os.path.join(C.REPO, name[len("/repo/"):]))
    for c in cands:
        if os.path.isfile(c):
            return open(c, "rb").read().split(b"\n")
    return None


def lookup(order, line0, col0):
    """source-map lookup as Node and Chrome do it: the last mapping at or before (line, column), also when it
    stands on an earlier generated line (multi-line JS of one Go statement); `order` is sorted by position"""
    import bisect
    i = bisect.bisect_right(order, (line0, col0, chr(0x10FFFF))) - 1
    return order[i] if i >= 0 else None


def check_program(chk, job, gen, res, stats):
    """all program-level obligations for one compiled program; returns list of (signature|None, what, detail)"""
    fails = []
    minify = job["minify"]
    tag = "minify" if minify else "plain"
    js = res["js_map"].encode()
    if res["non_utf8"]:
        raise RuntimeError("out.js / map is not valid UTF-8; the JSON transport of this check would be lossy")
    # 1. no hint byte remains
    if res["magic"] != 0 or b"\x08" in js:
        fails.append((None, "magic-byte-in-output", "%d bytes 0x08 in out.js" % js.count(b"\x08")))
    # 2. same code with and without map
    if not res["js_equal"]:
        a, b = res["js_nomap"].encode(), js
        first_pkg = re.compile(rb'^(\t\(function\(\) \{\n|\$packages\["[^"\n]+"\] = \(function\(\) \{\n)', re.M)
        ma, mb = first_pkg.search(a), first_pkg.search(b)
        ia, ib = (ma.start() if ma else -1), (mb.start() if mb else -1)
        # .inc.js and prelude text goes through esbuild only when a map is written (filter.go:101-105): compare the rest
        strip = re.compile(rb"\t\(function\(\) \{\n.*?\n\t\}\)\.call\(\$global\);\n", re.S)
        ta, tb = strip.sub(b"<incjs>", a[ia:]), strip.sub(b"<incjs>", b[ib:])
        if ia < 0 or ib < 0 or ta != tb or minify:
            fails.append((None, "code-differs-with-map", "out.js with map differs from out.js without map outside prelude/.inc.js text"))
        else:
            stats["plain: prelude/.inc.js text re-printed by esbuild when a map is written"] += 1
    m, maps = decode_map(res["map"])
    jl = js.split(b"\n")
    bylines = {}
    srcs = {}
    nonascii = 0
    for mp in maps:
        gl, gc, s, ol, oc, nm = mp
        bylines.setdefault(gl, []).append(mp)
        # 3. in range of the generated file
        if gl >= len(jl) or gc > len(jl[gl]):
            fails.append((None, "generated-position-out-of-range", "%d:%d (%s)" % (gl + 1, gc, s)))
            continue
        if any(b >= 0x80 for b in jl[gl][:gc]):
            nonascii += 1
        if s is None:
            continue
        # 4. in range of the named original file
        if s not in srcs:
            srcs[s] = resolve_source(s, res, job["files"])
        L = srcs[s]
        if L is None:
            fails.append((None, "original-file-missing", s))
            srcs[s] = []
            continue
        if L == []:
            continue
        is_js = s.endswith(".js")
        ol1 = ol + 1                      # VLQ lines are 0-based
        col_ok = oc <= len(L[ol]) + (0 if is_js else 1) if ol < len(L) else False
        if ol < 0 or ol >= len(L) or (ol == len(L) - 1 and L[ol] == b"" and oc > 1) or not col_ok:
            fails.append((None, "original-position-out-of-range", "%s:%d:%d" % (s, ol1, oc)))
            continue
        # 5. JS mappings: the token at the original position is the token at the generated position
        if is_js:
            t = IDENT.match(L[ol][oc:])
            if t and t.group(0) in EXACT_TOKENS:
                g = jl[gl][gc:].lstrip(b" \t")[:len(t.group(0))]
                stats[tag + ":js-token-probes"] += 1
                if g != t.group(0):
                    fails.append((None, "js-mapping-column", "%s:%d:%d token %r but generated text at %d:%d is %r" % (
                        s, ol1, oc, t.group(0), gl + 1, gc, jl[gl][gc:gc + 24])))
    order = sorted(((mp[0], mp[1], mp[2] or "", mp[3], mp[4], mp[5]) for mp in maps), key=lambda x: (x[0], x[1]))
    stats[tag + ":mappings"] += len(maps)
    # AsciiBeforeHints: hypothesis of columns_units
    if nonascii:
        fails.append((None, "ascii-before-hints", "%d mappings are preceded by non-ASCII bytes on their line" % nonascii))
    # 6. statement starts
    main_name = [s for s in m["sources"] if os.path.basename(s) == "main.go"]
    nxt = {}
    for a, b in zip(order, order[1:]):
        nxt[(a[0], a[1])] = (b[0], b[1])
    for (line, kind_, marker) in gen.probes:
        cands = [mp for mp in maps if mp[2] in main_name and mp[3] == line - 1]
        stats[tag + ":stmt-probes"] += 1
        if not cands:
            fails.append((gen.unmapped.get(line), "statement-without-mapping", "main.go:%d (%s probe, marker %d): %s" % (line, kind_, marker, gen.lines[line - 1].strip())))
            continue
        mp = min(cands, key=lambda x: (x[0], x[1]))
        gl, gc = mp[0], mp[1]
        end = nxt.get((gl, gc))
        seg = jl[gl][gc:] if (end is None or end[0] != gl) else jl[gl][gc:end[1]]
        before = jl[gl][:gc].rstrip(b" \t")
        text = seg.lstrip(b" \t")
        mk = str(marker).encode()
        ok = mk in text or kind_ == "mapped"
        if kind_ == "exact":
            ok = text.startswith(b'console.log("m%d");' % marker)
        boundary = before == b"" or before[-1:] in b";{}:" or before.endswith(b"*/")
        if not ok or not boundary:
            fails.append((None, "statement-start", "main.go:%d marker %d mapped to %d:%d where the text is %r (before: %r)" % (
                line, marker, gl + 1, gc, seg[:40], before[-12:])))
    # 7. stack frames of the uncaught panic, resolved through the map
    frames = []
    for ln in res["stderr"].split("\n"):
        fm = FRAME.match(ln)
        if fm and fm.group(2).endswith("out.js"):
            frames.append((int(fm.group(3)), int(fm.group(4))))
    resolved = []
    for (l1, c1) in frames:
        mp = lookup(order, l1 - 1, c1 - 1)
        resolved.append(None if mp is None or not mp[2] else (os.path.basename(mp[2]), mp[3] + 1))
    got = [r[1] for r in resolved if r and r[0] == "main.go"][:len(gen.chain)]
    stats[tag + ":stack-frames"] += len(frames)
    if not frames:
        fails.append((None, "no-stack", "node printed no stack for the panic: %r" % res["stderr"][-300:]))
    elif got != gen.chain:
        without = [l for l in gen.chain if l not in gen.unmapped]
        detail = "panic kind %s: main.go frames resolve to lines %s, statements are at %s" % (gen.kind, got, gen.chain)
        if without != gen.chain and got[:len(without)] == without:
            for sig in sorted(set(gen.unmapped[l] for l in gen.chain if l in gen.unmapped)):
                fails.append((sig, "stack-frame-line", detail))
        else:
            fails.append((None, "stack-frame-line", detail))
    stats[tag + ":stack-frames-without-source (glue code, recorded NoPos findings)"] += sum(1 for r in resolved if r is None)
    # 8. frames inside the .inc.js helper (stack strings printed by the program)
    if gen.with_inc:
        inc_frames = []
        for ln in res["stdout"].split("\n"):
            fm = FRAME.match(ln)
            if fm and fm.group(2).endswith("out.js") and (fm.group(1) or "").endswith("jsStack"):
                mp = lookup(order, int(fm.group(3)) - 1, int(fm.group(4)) - 1)
                inc_frames.append(None if mp is None or not mp[2] else (os.path.basename(mp[2]), mp[3] + 1))
        stats[tag + ":incjs-frames"] += len(inc_frames)
        want = [("helper.inc.js", 5), ("helper.inc.js", 9)]
        if inc_frames != want:
            fails.append((None, "incjs-frame-line", "frames inside jsStack resolve to %s, want %s" % (inc_frames, want)))
    return fails


def prog_tie(chk, tier):
    import collections
    rng = chk.rng
    nprog = 60 if tier == "thorough" else 14
    jobs, gens = [], []
    for i in range(nprog):
        with_inc = i % 4 == 1
        # the witnesses of the two recorded findings are replayed in every run
        g = ProgGen(rng, with_inc, blocking=(i % 3 == 2), kind={0: "index-closure", 1: "index-switch"}.get(i))
        src = g.build()
        files = {"main.go": src}
        if with_inc:
            files["helper.inc.js"] = INC_JS
        for minify in (False, True):
            jobs.append({"id": "p%d%s" % (i, "m" if minify else "p"), "files": files, "minify": minify,
                         "localmap": i % 2 == 0, "run": True, "timeout": 60})
            gens.append(g)
    p = C.run_gvh(["prog", "-j", "8"], [json.dumps(j) for j in jobs], name="gvh_c19",
                  extra_env={"NODE_OPTIONS": "--stack-trace-limit=100"})
    if p.returncode != 0:
        raise RuntimeError("gvh_c19 prog failed: " + p.stderr[-3000:])
    results = [json.loads(l) for l in p.stdout.split("\n") if l.strip()]
    if len(results) != len(jobs):
        raise RuntimeError("gvh_c19 prog answered %d results for %d jobs" % (len(results), len(jobs)))
    # a node run that timed out (loaded machine) is a harness problem, not an observation: run it again alone
    for i, res in enumerate(results):
        if res.get("class") == "timeout" or (not res.get("err") and not res.get("stderr") and res.get("exit", 0) != 0):
            j2 = dict(jobs[i], timeout=300)
            p2 = C.run_gvh(["prog", "-j", "1"], [json.dumps(j2)], name="gvh_c19", extra_env={"NODE_OPTIONS": "--stack-trace-limit=100"})
            if p2.returncode != 0:
                raise RuntimeError("gvh_c19 prog (retry) failed: " + p2.stderr[-2000:])
            results[i] = json.loads(p2.stdout.strip().split("\n")[-1])
            if results[i].get("class") == "timeout":
                raise RuntimeError("node timed out twice on program %s (harness failure)" % jobs[i]["id"])
    stats = collections.Counter()
    for job, g, res in zip(jobs, gens, results):
        if res.get("err") and "compiler panic" in res["err"]:
            # the compiler itself fell over while writing/filtering the code (e.g. a hint that cannot be read back)
            chk.add_mismatch("programs", json.dumps({"program": job["id"], "minify": job["minify"], "what": "compiler-panic", "files": job["files"]}),
                             impl=res["err"][:400], spec="the program compiles (it does on the unchanged tree and natively)")
            continue
        if res.get("err"):
            raise RuntimeError("program %s does not compile (generator bug): %s\n%s" % (job["id"], res["err"], job["files"]["main.go"]))
        fails = check_program(chk, job, g, res, stats)
        tag = "prog:%s:%s%s%s" % ("minify" if job["minify"] else "plain", g.kind, ":incjs" if g.with_inc else "", ":blocking" if g.blocking else "")
        chk.add_case("programs", job["id"] + job["files"]["main.go"], kindkey=tag,
                     sample={"tie": "programs", "op": job["id"], "probes": len(g.probes), "chain": g.chain, "kind": g.kind})
        seen = set()
        for sig, what, detail in fails:
            if (sig, what) in seen:
                continue
            seen.add((sig, what))
            chk.add_mismatch("programs", json.dumps({"program": job["id"], "minify": job["minify"], "localmap": job["localmap"],
                                                     "what": what, "files": job["files"]}),
                             impl=detail, spec="C19 program-level obligation '%s' holds" % what, signature=sig)
    nl = layout_tie(chk, tier, stats) + multipkg_tie(chk, tier, stats)
    chk.extra["program_stats"] = dict(sorted(stats.items()))
    return len(jobs) + nl


def serve_resolves(name, res):
    """does `name` (a "sources" entry written in the default, non-localmap mode) lead to an existing file the way
    `gopherjs serve` and a debugger configured with the roots resolve it: <GOPATH entry>/src/name, <GOROOT>/src/name?
    Sources that only exist inside the compiler (overlays `gopherjs__*.go`, the embedded js / nosync packages, the prelude)
    are looked up in the repository instead. The main package of a module-mode project is named by its base name."""
    rel = name.lstrip("/")
    base = os.path.basename(name)
    roots = [g for g in (res.get("gopath") or "").split(":") if g] + [res["goroot"]]
    if any(os.path.isfile(os.path.join(r, "src", rel)) for r in roots):
        return True
    if rel.startswith("github.com/gopherjs/gopherjs/"):
        return os.path.isfile(os.path.join(C.REPO, rel[len("github.com/gopherjs/gopherjs/"):]))
    if base.startswith("gopherjs__"):
        return os.path.isfile(os.path.join(C.REPO, "compiler", "natives", "src", os.path.dirname(rel), base[len("gopherjs__"):]))
    if name == base:
        return os.path.isfile(os.path.join(res["dir"], base)) or os.path.isfile(os.path.join(C.REPO, "compiler", "prelude", base))
    return False


def layout_tie(chk, tier, stats):
    """projects in directory layouts where the roots are string prefixes of one another: GOROOT = <scratch>/go (a symlink to
    the real GOROOT), GOPATH = <scratch>/go-workspace; a GOPATH-mode project below $GOPATH/src and a module-mode project in
    <scratch>/go-projects/app (a sibling whose path starts with the GOROOT string). GOPHERJS_GOROOT is read when the harness
    process starts, hence a separate harness run."""
    import shutil
    import subprocess
    rng = chk.rng
    sc = C.scratch("gvc19l")
    n = 0
    try:
        goroot = subprocess.run(["go", "env", "GOROOT"], capture_output=True, text=True, env=dict(C.env(), GOTOOLCHAIN="local")).stdout.strip()
        os.symlink(goroot, os.path.join(sc, "go"))
        gopath = os.path.join(sc, "go-workspace")
        layouts = [("gopath", os.path.join(gopath, "src", "demo"), {"GO111MODULE": "off"}, None),
                   ("sibling-module", os.path.join(sc, "go-projects", "app"), {}, "module gvprog\n\ngo 1.20\n")]
        for lname, d, envx, gomod in layouts:
            jobs, gens = [], []
            for k in range(2 if tier == "thorough" else 1):
                g = ProgGen(rng, False, blocking=False)
                src = g.build()
                dk = d + (str(k) if k else "")
                os.makedirs(dk, exist_ok=True)
                open(os.path.join(dk, "main.go"), "w").write(src)
                if gomod:
                    open(os.path.join(dk, "go.mod"), "w").write(gomod)
                for minify in (False, True):
                    jobs.append({"id": "%s%d%s" % (lname.replace("-", ""), k, "m" if minify else "p"), "files": {"main.go": src}, "minify": minify,
                                 "localmap": False, "run": True, "timeout": 120, "dir": dk})
                    gens.append(g)
            env = dict({"NODE_OPTIONS": "--stack-trace-limit=100", "GOPHERJS_GOROOT": os.path.join(sc, "go"), "GOPATH": gopath,
                        "VERIF_SCRATCH": sc}, **envx)
            p = C.run_gvh(["prog", "-j", "2"], [json.dumps(j) for j in jobs], name="gvh_c19", extra_env=env)
            if p.returncode != 0:
                raise RuntimeError("gvh_c19 prog (layout %s) failed: %s" % (lname, p.stderr[-3000:]))
            results = [json.loads(l) for l in p.stdout.split("\n") if l.strip()]
            for job, g, res in zip(jobs, gens, results):
                if res.get("err"):
                    raise RuntimeError("layout %s: program %s does not compile: %s" % (lname, job["id"], res["err"]))
                if res["goroot"] != os.path.join(sc, "go"):
                    raise RuntimeError("layout %s: the harness did not pick up GOPHERJS_GOROOT (%s)" % (lname, res["goroot"]))
                fails = check_program(chk, job, g, res, stats)
                m = json.loads(res["map"])
                for sname in m["sources"]:
                    stats["layout:%s:sources" % lname] += 1
                    if not serve_resolves(sname, res):
                        fails.append((None, "source-not-resolvable",
                                      "sources entry %r names no file under <GOPATH>/src or <GOROOT>/src (GOROOT=%s GOPATH=%s project=%s)" % (
                                          sname, res["goroot"], res.get("gopath"), job["dir"])))
                n += 1
                chk.add_case("programs", job["id"] + job["files"]["main.go"], kindkey="prog:layout:%s:%s" % (lname, "minify" if job["minify"] else "plain"))
                seen = set()
                for sig, what, detail in fails:
                    if (sig, what) in seen:
                        continue
                    seen.add((sig, what))
                    chk.add_mismatch("programs", json.dumps({"program": job["id"], "layout": lname, "goroot": res["goroot"], "gopath": res.get("gopath"),
                                                             "dir": job["dir"], "minify": job["minify"], "what": what, "files": job["files"]}),
                                     impl=detail, spec="C19 program-level obligation '%s' holds" % what, signature=sig)
    finally:
        shutil.rmtree(sc, ignore_errors=True)
    return n


def gen_multipkg(rng, proj):
    """a GOPATH-mode program of 2-4 user packages: small single-file dependencies of different sizes (leaf packages are
    written right after runtime), every package with marker statements (unique string literals) and a call chain that
    ends in a run-time panic inside the innermost dependency."""
    ndep = rng.randrange(1, 4)
    order = list(range(ndep))
    rng.shuffle(order)
    files, markers, chain = {}, [], []
    for k in range(ndep):
        lines = ["package dep%d" % k, ""]
        imp = k + 1 if (k + 1 < ndep and rng.random() < 0.6) else None      # some dependencies import the next one
        if imp is not None:
            lines += ['import "%s/dep%d"' % (proj, imp), ""]
        for _ in range(rng.choice([0, 0, 1, 3, 8, 20])):                      # different sizes: position ranges differ
            lines.append("// padding " + "x" * rng.randrange(0, 60))
        lines += ["var Arr []int", "", "func F(v int) int {"]
        for j in range(rng.randrange(1, 4)):
            lines.append('\tprintln("d%d-m%d")' % (k, j))
            markers.append(("dep%d/dep%d.go" % (k, k), len(lines), "d%d-m%d" % (k, j)))
            if rng.random() < 0.5:
                lines.append("\tv = v + %d" % (j + 1))
        if imp is not None:
            lines.append("\tv = dep%d.F(v)" % imp)
        if k == 0:
            lines.append("\tif v > 0 {")
            lines.append("\t\tv = Arr[v] // panics")
            chain.append(("dep0/dep0.go", len(lines)))
            lines.append("\t}")
        lines += ["\treturn v", "}", ""]
        files["dep%d/dep%d.go" % (k, k)] = "\n".join(lines)
    lines = ["package main", "", "import ("] + ['\t"%s/dep%d"' % (proj, k) for k in order] + [")", "", "func main() {", "\tv := 0"]
    for k in order:
        if k != 0:
            lines.append('\tprintln("main-m%d")' % k)
            markers.append(("main.go", len(lines), "main-m%d" % k))
            lines.append("\tv = dep%d.F(v) - v" % k)
    lines.append('\tprintln("main-last")')
    markers.append(("main.go", len(lines), "main-last"))
    lines.append("\tv = dep0.F(v + 1)")
    chain.append(("main.go", len(lines)))
    lines += ["\tprintln(v)", "}", ""]
    files["main.go"] = "\n".join(lines)
    return files, markers, chain


def check_multipkg(job, res, files, markers, chain, proj):
    fails = []
    js = res["js_map"].encode()
    jl = js.split(b"\n")
    m, maps = decode_map(res["map"])
    order = sorted(((mp[0], mp[1], mp[2] or "", mp[3], mp[4], mp[5]) for mp in maps), key=lambda x: (x[0], x[1]))
    want_name = lambda rel: "/%s/%s" % (proj, rel)
    # every user file appears in "sources"
    for rel in files:
        if want_name(rel) not in m["sources"]:
            fails.append(("user-file-missing-from-sources", "%s is not in sources %s" % (want_name(rel), [s_ for s_ in m["sources"] if proj in s_ or "runtime" in s_])))
    # every marker statement of every package maps to the right FILE and LINE
    for rel, line, lit in markers:
        needle = b'console.log("%s");' % lit.encode()
        at = js.find(needle)
        if at < 0:
            fails.append(("marker-not-in-output", lit))
            continue
        gl = js.count(b"\n", 0, at)
        gc = at - (js.rfind(b"\n", 0, at) + 1)
        mp = lookup(order, gl, gc)
        got = None if mp is None or not mp[2] else (mp[2], mp[3] + 1)
        if got != (want_name(rel), line) or (mp[0], mp[1]) != (gl, gc) and jl[gl][mp[1]:gc].strip(b" \t") != b"":
            fails.append(("marker-maps-to-wrong-position", "marker %r of %s:%d (generated %d:%d) maps to %s" % (lit, rel, line, gl + 1, gc, got)))
    # the panic's stack: innermost frame in the dependency, then main
    frames = []
    for ln in res["stderr"].split("\n"):
        fm = FRAME.match(ln)
        if fm and fm.group(2).endswith("out.js"):
            mp = lookup(order, int(fm.group(3)) - 1, int(fm.group(4)) - 1)
            if mp is not None and mp[2] and ("/" + proj + "/") in mp[2]:
                frames.append((mp[2], mp[3] + 1))
    want = [(want_name(rel), line) for rel, line in chain]
    if [f for f in frames if f in want][:len(want)] != want or (frames and frames[0] != want[0]):
        fails.append(("stack-frame-file-line", "user frames resolve to %s, want %s first" % (frames[:6], want)))
    return fails


def multipkg_tie(chk, tier, stats):
    import shutil
    rng = chk.rng
    sc = C.scratch("gvc19m")
    try:
        gopath = os.path.join(sc, "ws")
        jobs, infos = [], []
        for i in range(12 if tier == "thorough" else 4):
            proj = "mp%d" % i
            files, markers, chain = gen_multipkg(rng, proj)
            d = os.path.join(gopath, "src", proj)
            for rel, src in files.items():
                os.makedirs(os.path.dirname(os.path.join(d, rel)), exist_ok=True)
                open(os.path.join(d, rel), "w").write(src)
            for minify in (False, True):
                jobs.append({"id": "%s%s" % (proj, "m" if minify else "p"), "files": files, "minify": minify, "localmap": False,
                             "run": True, "timeout": 120, "dir": d})
                infos.append((files, markers, chain, proj))
        p = C.run_gvh(["prog", "-j", "4"], [json.dumps(j) for j in jobs], name="gvh_c19",
                      extra_env={"NODE_OPTIONS": "--stack-trace-limit=100", "GOPATH": gopath, "GO111MODULE": "off", "VERIF_SCRATCH": sc})
        if p.returncode != 0:
            raise RuntimeError("gvh_c19 prog (multi-package) failed: " + p.stderr[-3000:])
        results = [json.loads(l) for l in p.stdout.split("\n") if l.strip()]
        for job, info, res in zip(jobs, infos, results):
            if res.get("err"):
                raise RuntimeError("multi-package program %s does not compile: %s\n%s" % (job["id"], res["err"], json.dumps(job["files"])[:1500]))
            fails = check_multipkg(job, res, *info)
            stats["multipkg:markers"] += len(info[1])
            stats["multipkg:packages"] += len(info[0])
            chk.add_case("programs", job["id"] + json.dumps(job["files"]), kindkey="prog:multipkg:%dpkgs:%s" % (len(info[0]), "minify" if job["minify"] else "plain"))
            seen = set()
            for what, detail in fails:
                if what in seen:
                    continue
                seen.add(what)
                chk.add_mismatch("programs", json.dumps({"program": job["id"], "layout": "multi-package GOPATH project", "minify": job["minify"],
                                                         "what": what, "files": job["files"]}),
                                 impl=detail, spec="C19 program-level obligation '%s' holds" % what)
        return len(jobs)
    finally:
        shutil.rmtree(sc, ignore_errors=True)


def run(tier, seed):
    chk = C.Check(PID, tier, seed)
    chk.rule = ("filter: streams = random interleavings of code chunks (no 0x08; newlines, tabs, ASCII, U+00B7, raw bytes) and "
                "hints built by the real Hint.Pack/WriteTo/EncodeHint (positions incl. NoPos / file boundaries / out of range, "
                "identifiers incl. non-ASCII and 0x08 in names, raw payloads with 0x08 and sizes 0..300) x chunkings "
                "(whole, per item, one byte per Write outside hints, random with empty writes); exhaustive: all streams of "
                "<= 3 items over a 6-item alphabet x all admissible chunkings (thorough); arbitrary byte strings incl. "
                "truncated hints (panics compared); payload sizes up to 0xFFFF/0x10000. js: esbuild output of snippets and real "
                "prelude files written after prefixes ending at column 0 / != 0. ctx: random scripts over "
                "SetPos/Write/Printf/Indented/CatchOutput/Delayed. A case is non-trivial when distinct (sha1 of the op line).")
    chk.trusted = ["Lean 4.33 kernel", "axioms: propext, Classical.choice, Quot.sound at most (listed per theorem)",
                   "hand-written model GV.Model.SrcMap tied to internal/sourcemapx and compiler/utils.go by these differential runs "
                   "(hook /repo/compiler/verif_hooks_c19.go, harness/cmd/gvh_c19)",
                   "GV.Spec.SrcMap = my reading of 'position in a text' (1-based line, 0-based column) and of the source map v3 format",
                   "the VLQ / JSON decoders written for this check (Go and Python)"]
    chk.assumptions = ["hint payload encoding (encoding/gob) and go/token.FileSet.Position are not modelled; their round trip is "
                       "observed through the recording callback against positions computed by the check",
                       "esbuild (minification of prelude / .inc.js and its own source map) is not modelled",
                       "AsciiBeforeHints (bytes before a hint on its line are ASCII) is a hypothesis of columns_units, tested on every "
                       "emitted out.js by the prog tie",
                       "original columns in Go mappings are go/token columns (1-based); the property only speaks about original lines",
                       "stack frames are resolved the way Node and Chrome do: last mapping at or before the position, also across "
                       "generated lines (non-minified code spreads one Go statement over several lines); a mapping without source = unresolved",
                       "non-minified builds: prelude / .inc.js text is re-printed by esbuild only when a map is written (filter.go:101-105), "
                       "so out.js with and without map are compared outside that text (counted in program_stats); minified builds are compared whole"]
    import time
    t0 = time.time()
    phases = {}

    def lap(name):
        nonlocal t0
        phases[name] = round(time.time() - t0, 1)
        t0 = time.time()
    C.build_gvh("gvh_c19")
    lap("go build harness")
    chk.proof = C.check_proofs(PID, THEOREMS, tier)
    lap("lean build + axiom audit")
    n1 = filter_tie(chk, tier)
    lap("filter tie")
    n2 = js_tie(chk, tier)
    lap("js tie")
    n3 = ctx_tie(chk, tier)
    lap("ctx tie")
    n6 = fsseq_tie(chk, tier)
    lap("fileset sequence tie")
    n5 = norm_tie(chk, tier)
    lap("normalizePath tie")
    n4 = prog_tie(chk, tier)
    lap("program tie")
    chk.extra["phase_seconds"] = phases
    C.log("[C19] phases: %s" % phases)
    chk.extra["ops"] = {"filter": n1, "js": n2, "ctx": n3, "normalizePath": n5, "fileset sequences": n6, "program builds": n4}
    chk.extra["exhaustive"] = False
    chk.extra["exhaustive_subspace"] = "all streams of <= 3 items over a 6-item alphabet x all admissible chunkings (<= 64 each)" if tier == "thorough" \
        else "first 43 streams (<= 2 items) of the thorough sub-space x all admissible chunkings"
    return chk.finish()


def replay(path):
    rep = json.load(open(path))
    ops = [m["op"] for m in rep.get("failing_inputs", []) if m.get("op", "").startswith("srcmap ")]
    if not ops:
        print("no failing op line recorded; broken obligations:", rep.get("broken_obligations"))
        return 1
    C.build_gvh("gvh_c19")
    impl = C.run_gvh_lines(["lines"], ops, name="gvh_c19")
    model = C.run_driver(PID, ops)
    bad = 0
    for o, a, b in zip(ops, impl, model):
        print("%s\n  impl : %s\n  model: %s" % (o[:300], a[:300], b[:300]))
        bad += a != b
    return 1 if bad else 0
