"""C19 — source maps are complete, in range and point at the right Go lines.

Proof: GV.Props.C19 (hint wire format round trip; Filter.Write removes exactly the hints, reports every hint at the
exact output position, independent of the chunking into Write calls; byte vs UTF-16 columns; JS mapping offsetting).
Ties:
  filter   streams built with the REAL Hint.Pack / WriteTo / Identifier.EncodeHint (hook), random chunkings, fed to the
           REAL sourcemapx.Filter with a recording callback (gvh_c19 lines) vs the Lean driver on the same bytes/chunks
  js       REAL Filter.WriteJS (esbuild + defaultJSMappingCallback) after a prefix vs model (code as it is) vs spec
  ctx      REAL funcContext Write/Printf/SetPos/CatchOutput/Delayed scripts vs the Lean buffer model
  rmws     REAL removeWhitespace keeps the hint sequence
  prog     generated Go programs compiled in process with maps, plain and minified: no magic byte in out.js, same
           bytes with and without map, mappings in range, statement starts, Node stack frames resolved through the map
"""
import json
import os
import re

from . import common as C

PID = "C19"
THEOREMS = ["hint_roundtrip", "writeTo_too_long", "enc_bytes", "payload_magic_safe", "one_mapping_per_hint",
            "chunking_independent", "chunking_independent'", "code_split", "hints_removed", "output_magic_free",
            "positions_exact", "positions_exact_init", "columns_units", "columns_units_needs_ascii",
            "placeAt_correct", "offset_js_counterexample", "offset_js_partial", "offset_js_line",
            "pending_flushed_by_write", "write_without_pending", "setPos_last_wins", "printf_hint_first",
            "catch_restores", "stmt_position_exact"]

# the fixed go/token.FileSet shared with harness/cmd/gvh_c19/lines.go (fileSpecs): name, size, line start offsets
FILES = [("a.go", 500, list(range(0, 500, 25))), ("pkg/b.go", 300, list(range(0, 300, 17))), ("c.go", 100, [0, 1, 2, 50, 99])]
KNOWN_JS = "C19 WriteJS first-line column not shifted (JS text starts at column != 0)"


def hx(b):
    return "-" if len(b) == 0 else bytes(b).hex()


def position(pos):
    """go/token.FileSet.Position for the fixed file set -> (filename or '-', line, column)"""
    base = 1
    for name, size, lines in FILES:
        if pos != 0 and base <= pos <= base + size:
            off = pos - base
            i = max(k for k, l in enumerate(lines) if l <= off)
            return (name, i + 1, off - lines[i] + 1)
        base += size + 1
    return ("-", 0, 0)


def desc(pos, name=b""):
    f, l, c = position(pos)
    return "%s|%d|%d|%s" % (f, l, c, hx(name))


POS_POOL = [0, 1, 2, 25, 26, 27, 500, 501, 502, 503, 519, 802, 803, 804, 805, 853, 902, 903, 904, 2000, 4, 8, 1032]
NAME_POOL = [b"foo", b"main.Foo", b"$ptr", b"x", b"", "café".encode(), "main.·f".encode(), b"a\x08b", b"T.method$1", b"\xff\xfe"]


def rand_code(rng, maxlen=12):
    n = rng.choice([0, 1, 1, 2, 3, 5, 8, maxlen])
    out = []
    for _ in range(n):
        k = rng.random()
        if k < 0.25:
            out.append(10)
        elif k < 0.35:
            out.append(9)
        elif k < 0.8:
            out.append(rng.randrange(32, 127))
        elif k < 0.9:
            out += list("·".encode())
        else:
            b = rng.randrange(256)
            out.append(b if b != 8 else 7)
    return out


def rand_items(rng, maxitems, raw_ok):
    items = []
    for _ in range(rng.randrange(0, maxitems + 1)):
        k = rng.random()
        if k < 0.45:
            items.append({"c": hx(rand_code(rng))})
        elif k < 0.7 or (not raw_ok and k >= 0.9):
            items.append({"p": rng.choice([rng.choice(POS_POOL), rng.randrange(0, 950)])})
        elif k < 0.9:
            nm, on = rng.choice(NAME_POOL), rng.choice(NAME_POOL)
            items.append({rng.choice("ie"): [hx(nm), hx(on), rng.choice([rng.choice(POS_POOL), rng.randrange(0, 950)])]})
        else:
            n = rng.choice([0, 1, 2, 3, 7, 255, 256, 257, 300])
            pl = [rng.choice([8, 8, 0, 10, rng.randrange(256)]) for _ in range(n)]
            items.append({"r": hx(pl)})
    return items


def item_desc(it):
    if "p" in it:
        return desc(it["p"])
    if "i" in it or "e" in it:
        v = it.get("i") or it.get("e")
        return desc(v[2], bytes.fromhex(v[1]) if v[1] != "-" else b"")
    return None


def chunkings(rng, enc_items, how):
    """enc_items: list of (bytes, is_hint). Returns list of chunks (bytes) whose concatenation is the stream and which
    never split a hint."""
    stream = b"".join(b for b, _ in enc_items)
    if how == "whole":
        return [stream]
    cuts = set()          # admissible cut offsets
    off = 0
    for b, is_hint in enc_items:
        cuts.add(off)
        if not is_hint:
            for k in range(1, len(b)):
                cuts.add(off + k)
        off += len(b)
    cuts.add(off)
    cuts = sorted(cuts)
    if how == "bytes":      # one byte per call, except hints
        sel = cuts
    elif how == "items":
        sel, off = [0], 0
        for b, _ in enc_items:
            off += len(b)
            sel.append(off)
        sel = sorted(set(sel))
    else:
        sel = sorted(set([0, len(stream)] + [c for c in cuts if rng.random() < 0.3]))
    res = [stream[a:b] for a, b in zip(sel, sel[1:])]
    if how == "random" and rng.random() < 0.3:
        res.insert(rng.randrange(0, len(res) + 1), b"")     # an empty Write
    return res or [b""]


def chunks_arg(chs):
    return ",".join(hx(c) for c in chs) if chs else "."


def build_streams(streams):
    """stage A: abstract item lists -> encoded items through the real Pack/WriteTo"""
    ops = ["srcmap build " + json.dumps(s, separators=(",", ":")) for s in streams]
    ans = C.run_gvh_lines(["lines"], ops, name="gvh_c19")
    res = []
    for s, a in zip(streams, ans):
        if a.startswith("harness-error") or a.startswith("bad"):
            raise RuntimeError("gvh_c19 build failed: " + a)
        parts = [] if a == "." else a.split(" ")
        if len(parts) != len(s):
            raise RuntimeError("gvh_c19 build: %d parts for %d items" % (len(parts), len(s)))
        enc = []
        for it, p in zip(s, parts):
            e, pl = p.split("/")
            eb = bytes.fromhex(e) if e != "-" else b""
            enc.append((eb, "c" not in it, pl))
        res.append(enc)
    return res


def all_small_streams():
    """every stream of <= 3 items over a small item alphabet (x all chunkings, added by the caller)"""
    alpha = [{"c": "61"}, {"c": "0a"}, {"c": "620a63"}, {"p": 30}, {"i": ["78", "79", 805]}, {"r": "08"}]
    import itertools
    out = []
    for n in range(0, 4):
        for t in itertools.product(alpha, repeat=n):
            out.append(list(t))
    return out


def all_chunkings(enc_items, limit=64):
    stream = b"".join(b for b, _, _ in enc_items)
    cuts, off = [], 0
    for b, is_hint, _ in enc_items:
        if off:
            cuts.append(off)
        if not is_hint:
            cuts += [off + k for k in range(1, len(b))]
        off += len(b)
    cuts = sorted(set(c for c in cuts if 0 < c < len(stream)))
    res = []
    for mask in range(min(1 << len(cuts), limit)):
        sel = [0] + [c for i, c in enumerate(cuts) if mask >> i & 1] + [len(stream)]
        res.append([stream[a:b] for a, b in zip(sel, sel[1:])])
    return res


def kind(op, ans):
    p = op.split()
    k = p[1]
    if k == "filter":
        if ans.startswith("panic"):
            return "filter:" + ans.split()[0]
        nm = 0 if ans.split()[2] == "-" else ans.split()[2].count(";") + 1
        nch = 0 if p[3] == "." else p[3].count(",") + 1
        return "filter:%s:chunks=%s:maps=%s" % (p[2], "1" if nch <= 1 else "2-4" if nch <= 4 else "5+", "0" if nm == 0 else "1-3" if nm <= 3 else "4+")
    if k == "read":
        return "read:" + (ans if ans.startswith("panic") else "ok")
    return k


def js_signature(op, impl, spec):
    """the one recorded defect: every difference is a first-line mapping whose column lacks the start column"""
    try:
        a = [x.split(":") for x in impl.split(";")]
        b = [x.split(":") for x in spec.split(";")]
        if len(a) != len(b):
            return None
        shift = None
        first_line = min(int(x[0]) for x in b)
        for x, y in zip(a, b):
            if x == y:
                continue
            if x[0] != y[0] or x[2:] != y[2:] or int(y[0]) != first_line:
                return None
            d = int(y[1]) - int(x[1])
            if d <= 0 or (shift is not None and d != shift):
                return None
            shift = d
        return KNOWN_JS if shift else None
    except Exception:
        return None


def filter_tie(chk, tier):
    rng = chk.rng
    nrand = 6000 if tier == "thorough" else 900
    streams = []
    modes = []
    for _ in range(nrand):
        raw_ok = rng.random() < 0.3
        streams.append(rand_items(rng, rng.choice([2, 4, 8, 16]), raw_ok))
        modes.append("norec" if raw_ok else "rec")
    small = all_small_streams() if tier == "thorough" else all_small_streams()[:43]
    for s in small:
        streams.append(s)
        modes.append("norec")
    encs = build_streams(streams)
    ops = []
    n_hint_magic = 0
    for idx, (s, enc, mode) in enumerate(zip(streams, encs, modes)):
        d = {}
        for it, (eb, is_hint, pl) in zip(s, enc):
            de = item_desc(it)
            if de is not None:
                d[pl] = de
            if is_hint and "08" in [pl[i:i + 2] for i in range(0, len(pl), 2)]:
                n_hint_magic += 1
        dict_arg = ",".join("%s=%s" % kv for kv in sorted(d.items())) or "-"
        ei = [(eb, h) for eb, h, _ in enc]
        if idx >= nrand:     # exhaustive part: all chunkings
            for chs in all_chunkings(enc):
                ops.append("srcmap filter %s %s %s" % (mode, chunks_arg(chs), dict_arg))
                if mode == "norec" and not any("r" in it for it in s):
                    ops.append("srcmap filter rec %s %s" % (chunks_arg(chs), dict_arg))
        else:
            for how in ("whole", "items", "bytes", "random", "random"):
                ops.append("srcmap filter %s %s %s" % (mode, chunks_arg(chunkings(rng, ei, how)), dict_arg))
    chk.extra["hints_with_magic_in_payload"] = n_hint_magic
    # arbitrary bytes (outside the property's domain, the model must still describe the code): panics included
    for _ in range(3000 if tier == "thorough" else 500):
        n = rng.randrange(0, 24)
        bs = [rng.choice([8, 8, 0, 0, 1, 2, 3, 10, 65, rng.randrange(256)]) for _ in range(n)]
        cuts = sorted(set([0, n] + [rng.randrange(0, n + 1) for _ in range(rng.randrange(0, 4))]))
        chs = [bytes(bs[a:b]) for a, b in zip(cuts, cuts[1:])]
        ops.append("srcmap filter norec %s -" % chunks_arg(chs))
        ops.append("srcmap read %s" % hx(bs))
        ops.append("srcmap find %s" % hx(bs))
    for n in (0, 1, 2, 255, 256, 257, 65534, 65535, 65536, 70000):
        for fill in (8, 0, 65):
            ops.append("srcmap writelen %d %d" % (n, fill))
    for _ in range(300 if tier == "thorough" else 60):
        n = rng.choice([0, 1, 2, 3, 8, 255, 256, 257, 511, 512])
        ops.append("srcmap writeto %s" % hx([rng.choice([8, rng.randrange(256)]) for _ in range(n)]))
    impl = C.run_gvh_lines(["lines"], ops, name="gvh_c19")
    model = C.run_driver(PID, ops)
    bad = [a for a in impl if a.startswith("harness-error") or a.startswith("bad-")]
    if bad:
        raise RuntimeError("gvh_c19 lines: " + bad[0])
    chk.compare("filter", ops, impl, model, kind=kind)
    # independent restatement of hints_removed on the implementation's answers: out == code bytes of the items
    for s, enc, mode in zip(streams[:nrand], encs[:nrand], modes[:nrand]):
        pass
    return len(ops)


JS_SNIPPETS = [
    "function f() {\n  return Error().stack;\n}\nthis.f = f;\n",
    "var a = 1;",
    "var $x = function(a, b) {\n\tif (a) { return b; }\n\treturn a + b;\n};\n\nvar $y = (v) => { throw new Error(v); };\n",
    "/* c */ var q = [1, 2,\n 3];\n",
]


def js_tie(chk, tier):
    rng = chk.rng
    srcs = [(s, "snip%d.inc.js" % i) for i, s in enumerate(JS_SNIPPETS)]
    pre_dir = os.path.join(C.REPO, "compiler", "prelude")
    for f in ("jsmapping.js",) + (("numeric.js", "goroutines.js") if tier == "thorough" else ()):
        srcs.append((open(os.path.join(pre_dir, f)).read(), f))
    iso_ops = []
    for s, path in srcs:
        for m in (0, 1):
            iso_ops.append("srcmap jsiso %s %s %d" % (hx(s.encode()), path, m))
    iso = C.run_gvh_lines(["lines"], iso_ops, name="gvh_c19")
    prefixes = [[], [b"var $goVersion = \"go1.20\";\n"], [b"\t(function() {\n"], [b"(function(){"], [b"x;\n", b"  ab"]]
    nextra = 12 if tier == "thorough" else 4
    streams = [rand_items(rng, 6, False) for _ in range(nextra)]
    for enc in build_streams(streams):
        prefixes.append(chunkings(rng, [(eb, h) for eb, h, _ in enc], "random"))
    ops = []
    for op, ans in zip(iso_ops, iso):
        if ans.startswith("harness-error"):
            raise RuntimeError("gvh_c19 jsiso: " + ans)
        p = op.split()
        maps = ans.split(" ")[1]
        for pre in prefixes:
            ops.append("srcmap js %s %s %s %s %s" % (chunks_arg(pre), p[2], p[3], p[4], maps))
    impl = C.run_gvh_lines(["lines"], ops, name="gvh_c19")
    if any(a.startswith("harness-error") for a in impl):
        raise RuntimeError("gvh_c19 js: " + [a for a in impl if a.startswith("harness-error")][0])
    model = C.run_driver(PID, ops)
    spec = C.run_driver(PID, [o.replace("srcmap js ", "srcmap jsspec ", 1) for o in ops])
    chk.compare("js-offset", ops, impl, model, spec=spec, signature=js_signature,
                kind=lambda o, c: "js:minify=%s" % o.split()[5])
    return len(ops)


def rand_ctx_script(rng, depth, poses):
    toks = []
    for _ in range(rng.randrange(1, 7)):
        k = rng.random()
        if k < 0.3:
            toks.append("S%d" % rng.choice(poses))
        elif k < 0.5:
            toks.append("W" + hx(rand_code(rng, 4)))
        elif k < 0.7:
            toks.append("F" + hx([c for c in rand_code(rng, 6) if c != 10]))
        elif k < 0.78:
            toks.append("U%d" % rng.randrange(0, 3))
        elif depth > 0:
            head = rng.choice(["I(", "D(", "C0(", "C1(", "C2("])
            toks += [head] + rand_ctx_script(rng, depth - 1, poses) + [")"]
    return toks


def ctx_tie(chk, tier):
    rng = chk.rng
    poses = [0, 1, 4, 30, 127, 128, 300, 805, 70000]
    enc = build_streams([[{"p": p} for p in poses]])[0]
    dict_arg = ",".join("%d=%s" % (p, e[2]) for p, e in zip(poses, enc))
    ops = []
    for _ in range(4000 if tier == "thorough" else 600):
        ops.append("srcmap ctx %s %s" % (dict_arg, " ".join(rand_ctx_script(rng, 3, poses))))
    impl = C.run_gvh_lines(["lines"], ops, name="gvh_c19")
    if any(a.startswith("harness-error") for a in impl):
        raise RuntimeError("gvh_c19 ctx: " + [a for a in impl if a.startswith("harness-error")][0])
    model = C.run_driver(PID, ops)
    chk.compare("funcContext-buffer", ops, impl, model,
                kind=lambda o, c: "ctx:" + ("catch" if " C" in o else "flat") + (":pending" if c.split()[1] != "0" else ""))
    return len(ops)


def run(tier, seed):
    chk = C.Check(PID, tier, seed)
    chk.rule = ("filter: streams = random interleavings of code chunks (no 0x08; newlines, tabs, ASCII, U+00B7, raw bytes) and "
                "hints built by the real Hint.Pack/WriteTo/EncodeHint (positions incl. NoPos / file boundaries / out of range, "
                "identifiers incl. non-ASCII and 0x08 in names, raw payloads with 0x08 and sizes 0..300) x chunkings "
                "(whole, per item, one byte per Write outside hints, random with empty writes); exhaustive: all streams of "
                "<= 3 items over a 6-item alphabet x all admissible chunkings (thorough); arbitrary byte strings incl. "
                "truncated hints (panics compared); payload sizes up to 0xFFFF/0x10000. js: esbuild output of snippets and real "
                "prelude files written after prefixes ending at column 0 / != 0. ctx: random scripts over "
                "SetPos/Write/Printf/Indented/CatchOutput/Delayed. A case is non-trivial when distinct (sha1 of the op line).")
    chk.trusted = ["Lean 4.33 kernel", "axioms: propext, Classical.choice, Quot.sound at most (listed per theorem)",
                   "hand-written model GV.Model.SrcMap tied to internal/sourcemapx and compiler/utils.go by these differential runs "
                   "(hook /repo/compiler/verif_hooks_c19.go, harness/cmd/gvh_c19)",
                   "GV.Spec.SrcMap = my reading of 'position in a text' (1-based line, 0-based column) and of the source map v3 format",
                   "the VLQ / JSON decoders written for this check (Go and Python)"]
    chk.assumptions = ["hint payload encoding (encoding/gob) and go/token.FileSet.Position are not modelled; their round trip is "
                       "observed through the recording callback against positions computed by the check",
                       "esbuild (minification of prelude / .inc.js and its own source map) is not modelled",
                       "AsciiBeforeHints (bytes before a hint on its line are ASCII) is a hypothesis of columns_units, tested on every "
                       "emitted out.js by the prog tie",
                       "original columns in Go mappings are go/token columns (1-based); the property only speaks about original lines"]
    C.build_gvh("gvh_c19")
    chk.proof = C.check_proofs(PID, THEOREMS, tier)
    n1 = filter_tie(chk, tier)
    n2 = js_tie(chk, tier)
    n3 = ctx_tie(chk, tier)
    chk.extra["ops"] = {"filter": n1, "js": n2, "ctx": n3}
    chk.extra["exhaustive"] = False
    chk.extra["exhaustive_subspace"] = "all streams of <= 3 items over a 6-item alphabet x all admissible chunkings (<= 64 each)" if tier == "thorough" \
        else "first 43 streams (<= 2 items) of the thorough sub-space x all admissible chunkings"
    return chk.finish()


def replay(path):
    rep = json.load(open(path))
    ops = [m["op"] for m in rep.get("failing_inputs", []) if m.get("op", "").startswith("srcmap ")]
    if not ops:
        print("no failing op line recorded; broken obligations:", rep.get("broken_obligations"))
        return 1
    C.build_gvh("gvh_c19")
    impl = C.run_gvh_lines(["lines"], ops, name="gvh_c19")
    model = C.run_driver(PID, ops)
    bad = 0
    for o, a, b in zip(ops, impl, model):
        print("%s\n  impl : %s\n  model: %s" % (o[:300], a[:300], b[:300]))
        bad += a != b
    return 1 if bad else 0
