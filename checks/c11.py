"""C11 — Go and JavaScript values convert as documented and round-trip.
Proof: GV.Props.C11 (UTF-8<->UTF-16 round trips, type-directed round trip on the whole documented domain by induction on the
value, documented table, wrapper cache stability, callback guard at full strength for $send/$recv/$select + scheduler invariant).
The models mirror /repo with fixes/C11-*.patch applied.
Ties: (a) the REAL $externalize/$internalize/$externalizeFunction/$makeFunc and $send/$recv/$block of the prelude under
Node vs the Lean driver (model) and the Lean spec; (b) self-checking compiled programs using every js.Object accessor,
expected values computed by the model; (c) the callback-guard witness on the real prelude and in a compiled program."""
import json
import re
from . import common as C

THEOREMS = [
    "utf16_roundtrip", "utf16_roundtrip_converse", "externalize_invalid_byte", "internalize_lone_low", "internalize_lone_high_end",
    "internalize_high_then_any", "roundtrip_scalar", "roundtrip", "roundtrip_negzero", "roundtrip_nilmap", "roundtrip64_exact",
    "roundtrip64_beyond", "mk64_exact", "documented_table_ext", "documented_table_back", "wrapper_stable", "wrapper_injective",
    "wrapper_call_spec", "sliceToNative_window", "slice_invariant", "sliceToNative_fastpath_counterexample", "tag_key_spec", "tag_key_byte_escaped_denotes_bytes", "tag_key_byte_escaped_counterexample", "callback_guard", "callback_guard_raised", "cur_reset_after_every_activation", "callback_block_rejected", "scheduler_never_calls_noGoroutine", "callback_guard_witness", "callback_guard_old_counterexample",
]

INT_KINDS = {"Ti": (-2 ** 31, 2 ** 31 - 1), "Ti8": (-128, 127), "Ti16": (-2 ** 15, 2 ** 15 - 1), "Ti32": (-2 ** 31, 2 ** 31 - 1),
             "Tu": (0, 2 ** 32 - 1), "Tu8": (0, 255), "Tu16": (0, 65535), "Tu32": (0, 2 ** 32 - 1), "Tup": (0, 2 ** 32 - 1)}
TA_OF = {"Ti": "i32", "Ti32": "i32", "Ti8": "i8", "Ti16": "i16", "Tu": "u32", "Tu32": "u32", "Tup": "u32", "Tu8": "u8", "Tu16": "u16",
         "Tf32": "f32", "Tf64": "f64"}
TA_RANGE = {"i8": (-128, 127), "i16": (-2 ** 15, 2 ** 15 - 1), "i32": (-2 ** 31, 2 ** 31 - 1), "u8": (0, 255), "u16": (0, 65535),
            "u32": (0, 2 ** 32 - 1)}
SCALARS = list(INT_KINDS) + ["Tb", "TI64", "TU64", "Tf32", "Tf64", "Ts"]
CODEPOINT_BOUNDS = [0, 0x7F, 0x80, 0x7FF, 0x800, 0xD7FF, 0xE000, 0xFFFD, 0xFFFF, 0x10000, 0x10001, 0x103FF, 0x10400, 0x10FFFF]


def hexs(bs):
    return "-" if len(bs) == 0 else bytes(bs).hex()


def hex16(us):
    return "-" if len(us) == 0 else "".join("%04x" % u for u in us)


# ---------------------------------------------------------------------------------------------------------------
# generators
# ---------------------------------------------------------------------------------------------------------------

class Gen:
    def __init__(self, rng):
        self.rng = rng
        self.fid = 0

    # --- strings ---
    def scalar(self):
        r = self.rng
        k = r.random()
        if k < 0.3:
            cp = r.choice(CODEPOINT_BOUNDS) + r.choice([0, 0, 1, -1])
            cp = min(max(cp, 0), 0x10FFFF)
        elif k < 0.55:
            cp = r.randrange(0x20, 0x7F)
        else:
            cp = r.choice([r.randrange(0, 0x80), r.randrange(0x80, 0x800), r.randrange(0x800, 0xD800), r.randrange(0xE000, 0x10000),
                           r.randrange(0x10000, 0x110000)])
        if 0xD800 <= cp <= 0xDFFF:
            cp = 0xE000
        return cp

    def valid_utf8(self, maxlen=5):
        return [b for _ in range(self.rng.randrange(0, maxlen + 1)) for b in chr(self.scalar()).encode("utf-8")]

    def any_bytes(self, maxlen=6):
        r = self.rng
        out = []
        for _ in range(r.randrange(0, maxlen + 1)):
            k = r.random()
            if k < 0.5:
                out += list(chr(self.scalar()).encode("utf-8"))
            elif k < 0.75:
                out.append(r.choice([0x80, 0xBF, 0xC0, 0xC1, 0xC2, 0xDF, 0xE0, 0xED, 0xEF, 0xF0, 0xF4, 0xF5, 0xFF, 0xA0, 0x9F, 0x90, 0x8F]))
            elif k < 0.9:
                v = list(chr(self.scalar()).encode("utf-8"))
                out += v[:r.randrange(0, len(v) + 1)]
            else:
                out.append(r.randrange(256))
        return out

    def go_string(self, clean):
        return self.valid_utf8() if clean or self.rng.random() < 0.6 else self.any_bytes()

    def utf16(self, wellformed, maxlen=5):
        r = self.rng
        out = []
        for _ in range(r.randrange(0, maxlen + 1)):
            if wellformed or r.random() < 0.65:
                cp = self.scalar()
                if cp >= 0x10000:
                    out += [0xD800 + ((cp - 0x10000) >> 10), 0xDC00 + ((cp - 0x10000) & 0x3FF)]
                else:
                    out.append(cp)
            else:
                out.append(r.choice([0xD800, 0xDBFF, 0xDC00, 0xDFFF, r.randrange(0xD800, 0xE000)]))
        return out

    # --- numbers ---
    def frac(self, small=True):
        r = self.rng
        tr = r.choice([0, 0, 1, 2, 127, 128, 255, 256, 4095]) if small else r.choice([0, 1, 65535, 2 ** 31 - 1, 2 ** 31, 2 ** 32 - 1, 2 ** 32, 2 ** 40])
        neg = r.random() < 0.5
        return "q%d_%s_%d" % (r.randrange(0, 1023), ("-%d" % tr if (neg and tr) else "%d" % tr), 1 if neg else 0)

    def float_val(self, t, allow_negzero=True):
        r = self.rng
        k = r.random()
        if k < 0.12:
            return "nz" if allow_negzero else "n0"
        if k < 0.2:
            return "nan"
        if k < 0.27:
            return r.choice(["pinf", "ninf"])
        if k < 0.6:
            lim = 2 ** 24 if t == "Tf32" else 2 ** 53
            return "n%d" % r.choice([0, 1, -1, lim, -lim, lim - 1, r.randrange(-lim, lim + 1), r.randrange(-1000, 1000)])
        if k < 0.65 and t == "Tf64":
            return "n%d" % (r.choice([1, -1]) * r.randrange(2 ** 52, 2 ** 53) * 2 ** r.randrange(1, 11))
        return self.frac(small=True)

    def int_val(self, t):
        lo, hi = INT_KINDS[t]
        r = self.rng
        return "n%d" % r.choice([lo, hi, 0, 1, lo + 1, hi - 1, r.randrange(lo, hi + 1), r.randrange(max(lo, -300), min(hi, 300) + 1)])

    def pair64(self, v, signed):
        v %= 2 ** 64
        hi, lo = v >> 32, v & 0xFFFFFFFF
        if signed and hi >= 2 ** 31:
            hi -= 2 ** 32
        return "L%d_%d" % (hi, lo)

    def val64(self, t, small):
        r = self.rng
        signed = t == "TI64"
        if small:
            v = r.choice([0, 1, 2 ** 31, 2 ** 32 - 1, 2 ** 32, 2 ** 53, 2 ** 53 - 1, r.randrange(0, 2 ** 53 + 1), r.randrange(0, 2 ** 33)])
            if signed and r.random() < 0.5:
                v = -v
        else:
            b = [2 ** 53 + 1, 2 ** 53 + 2, 2 ** 53 + 3, 2 ** 54 + 2, 2 ** 54 + 6, 2 ** 63 - 1, 2 ** 63 - 512, 2 ** 63 - 513, 2 ** 62 + 1,
                 r.randrange(2 ** 53, 2 ** 63), r.randrange(2 ** 53, 2 ** 63) & ~0x7FF]
            if signed:
                v = r.choice(b) * r.choice([1, -1])
                v = r.choice([v, -2 ** 63, -2 ** 63 + 1])
            else:
                v = r.choice(b + [2 ** 63, 2 ** 64 - 1, 2 ** 64 - 1024, 2 ** 64 - 1025, 2 ** 64 - 2048, r.randrange(2 ** 63, 2 ** 64)])
        return self.pair64(v, signed)

    # --- types ---
    def field_name(self, exported, used):
        r = self.rng
        while True:
            first = r.choice("ABCDEFGHXYZ") if exported else r.choice("abcdefxyz_")
            nm = first + "".join(r.choice("abcXYZ019_") for _ in range(r.randrange(0, 3)))
            if nm not in used and nm != "_":
                used.add(nm)
                return nm

    def ty(self, depth, domain=False, allow=("TE", "TO", "TF", "TP")):
        """domain=True: only the types of the documented round-trip domain (no pointers/interfaces/funcs/*js.Object)."""
        r = self.rng
        if depth <= 0 or r.random() < 0.3:
            return r.choice(SCALARS)
        opts = ["TS", "TS", "TA", "TM", "TT"]
        if not domain:
            opts += list(allow)
        k = r.choice(opts)
        if k == "TS":
            return "TS(%s)" % self.ty(depth - 1, domain, allow)
        if k == "TA":
            return "TA(%d,%s)" % (r.randrange(0, 4), self.ty(depth - 1, domain, allow))
        if k == "TM":
            return "TM(%s)" % self.ty(depth - 1, domain, allow)
        if k == "TT":
            used = set()
            fs = []
            for _ in range(r.randrange(0, 4)):
                ex = r.random() < 0.75
                fs.append(("x" if ex else "y") + hexs(self.field_name(ex, used).encode()) + "," + self.ty(depth - 1, domain, allow))
            return "TT(%s)" % ",".join(fs)
        if k == "TP":
            inner = self.ty(depth - 1, domain, allow)
            while inner.startswith("TA") or inner.startswith("TP") or inner in ("TO",):   # array pointers / **T have other representations
                inner = self.ty(depth - 1, domain, allow)
            return "TP(%s)" % inner
        if k == "TF":
            return "TF(v0,TL(),TL())"
        return k  # TE, TO


def parse_sx(s):
    pos = [0]

    def node():
        st = pos[0]
        while pos[0] < len(s) and s[pos[0]] not in "(),":
            pos[0] += 1
        name = s[st:pos[0]]
        args = []
        if pos[0] < len(s) and s[pos[0]] == "(":
            pos[0] += 1
            if s[pos[0]] == ")":
                pos[0] += 1
                return (name, args)
            while True:
                args.append(node())
                if s[pos[0]] == ",":
                    pos[0] += 1
                    continue
                if s[pos[0]] == ")":
                    pos[0] += 1
                    break
                raise ValueError("bad sexpr " + s)
        return (name, args)
    r = node()
    assert pos[0] == len(s), s
    return r


def show_sx(x):
    return x[0] + ("(" + ",".join(show_sx(a) for a in x[1]) + ")" if x[1] or x[0] in ("sl", "ar", "mp", "st", "ja", "jo", "TT", "TL") else "")


class ValGen(Gen):
    """values for a type given as parsed sexpr"""

    def go(self, T, clean, depth=4, flags=None):
        """clean=True: a value of the documented round-trip domain; flags (a set) records 'negzero' / 'nilmap' / 'big64' /
        'badutf8' when such a value is placed."""
        r = self.rng
        flags = flags if flags is not None else set()
        n, a = T
        if n == "Tb":
            return r.choice("tf")
        if n in INT_KINDS:
            return self.int_val(n)
        if n in ("TI64", "TU64"):
            small = clean or r.random() < 0.6
            if not small:
                flags.add("big64")
            return self.val64(n, small)
        if n in ("Tf32", "Tf64"):
            v = self.float_val(n, allow_negzero=("nonegzero" not in flags))
            if v == "nz":
                flags.add("negzero")
            return v
        if n == "Ts":
            s = self.go_string(clean)
            try:
                bytes(s).decode("utf-8")
            except UnicodeDecodeError:
                flags.add("badutf8")
            return "s" + hexs(s)
        if n == "TS":
            if r.random() < 0.15:
                return "nil"
            return "sl(%s)" % ",".join(self.go(a[0], clean, depth - 1, flags) for _ in range(r.randrange(0, 4)))
        if n == "TA":
            return "ar(%s)" % ",".join(self.go(a[1], clean, depth - 1, flags) for _ in range(int(a[0][0])))
        if n == "TM":
            if r.random() < 0.15 and "nonilmap" not in flags:
                flags.add("nilmap")
                return "nil"
            keys = []
            for _ in range(r.randrange(0, 4)):
                k = self.go_string(clean)
                try:
                    bytes(k).decode("utf-8")
                except UnicodeDecodeError:
                    flags.add("badutf8")
                if k not in keys:
                    keys.append(k)
            return "mp(%s)" % ",".join("s" + hexs(k) + "," + self.go(a[0], clean, depth - 1, flags) for k in keys)
        if n == "TT":
            vals = []
            for i in range(0, len(a), 2):
                exported = a[i][0][0] == "x"
                if clean and not exported:
                    vals.append(self.zero(a[i + 1]))      # unexported fields do not travel: domain = they hold the zero value
                else:
                    vals.append(self.go(a[i + 1], clean, depth - 1, flags))
            return "st(%s)" % ",".join(vals)
        if n == "TP":
            if r.random() < 0.25:
                return "nil"
            return "pt(%s)" % self.go(a[0], clean, depth - 1, flags)
        if n == "TE":
            if r.random() < 0.15 or depth <= 0:
                return "nil"
            D = self.ty(min(depth - 1, 2), allow=("TO", "TF", "TP"))
            return "if(%s,%s)" % (D, self.go(parse_sx(D), clean, depth - 1, flags))
        if n == "TO":
            return "ob(%s)" % self.js_any(2)
        if n == "TF":
            if r.random() < 0.2:
                return "nil"
            self.fid += 1
            return "fn%d" % r.randrange(0, 6)
        raise ValueError(n)

    def zero(self, T):
        n, a = T
        if n == "Tb":
            return "f"
        if n in INT_KINDS or n in ("Tf32", "Tf64"):
            return "n0"
        if n in ("TI64", "TU64"):
            return "L0_0"
        if n == "Ts":
            return "s-"
        if n == "TA":
            return "ar(%s)" % ",".join(self.zero(a[1]) for _ in range(int(a[0][0])))
        if n == "TT":
            return "st(%s)" % ",".join(self.zero(a[i + 1]) for i in range(0, len(a), 2))
        if n == "TO":
            return "ob(null)"
        return "nil"

    # --- JavaScript values ---
    def js_num(self):
        r = self.rng
        k = r.random()
        if k < 0.1:
            return r.choice(["nz", "nan", "pinf", "ninf"])
        if k < 0.55:
            return "n%d" % r.choice([0, 1, -1, 2 ** 31, -2 ** 31, 2 ** 31 - 1, 2 ** 32, 2 ** 32 - 1, 2 ** 53, -2 ** 53, 255, 256, -129, 65536,
                                      r.randrange(-2 ** 53, 2 ** 53), r.randrange(-70000, 70000)])
        if k < 0.7:
            return "n%d" % (r.choice([1, -1]) * r.randrange(2 ** 52, 2 ** 53) * 2 ** r.randrange(1, 12))
        return self.frac(small=r.random() < 0.6)

    def js_str(self):
        r = self.rng
        k = r.random()
        if k < 0.3:
            pre = r.choice(["", "", " ", "\t\n", "﻿ ", "+", "-", " -", "0x", "0X", "-0x"])
            body = "".join(r.choice("0123456789") for _ in range(r.randrange(0, 9)))
            suf = r.choice(["", "", "", "abc", ".5", "e3", " "])
            return "w" + hex16([ord(c) for c in pre + body + suf])
        return "w" + hex16(self.utf16(wellformed=r.random() < 0.5))

    def js_key(self):
        return "w" + hex16(self.utf16(wellformed=self.rng.random() < 0.8, maxlen=3))

    def js_ta(self, cls=None):
        r = self.rng
        cls = cls or r.choice(list(TA_OF.values()))
        els = []
        for _ in range(r.randrange(0, 4)):
            if cls in TA_RANGE:
                lo, hi = TA_RANGE[cls]
                els.append("n%d" % r.choice([lo, hi, 0, r.randrange(lo, hi + 1)]))
            else:
                els.append(self.float_val("T" + cls))
        return "ta_%s(%s)" % (cls, ",".join(els))

    def js_any(self, depth):
        r = self.rng
        k = r.random()
        if k < 0.08:
            return "u"
        if k < 0.16:
            return "null"
        if k < 0.24:
            return r.choice("tf")
        if k < 0.42:
            return self.js_num()
        if k < 0.56:
            return self.js_str()
        if k < 0.64:
            return self.js_ta()
        if k < 0.70:
            return "jf%d" % r.randrange(0, 5)
        if k < 0.74:
            return "gf%d" % r.randrange(0, 5)
        if k < 0.78:
            return "wr%d" % r.randrange(0, 9)
        if depth <= 0:
            return "null"
        if k < 0.89:
            return "ja(%s)" % ",".join(self.js_any(depth - 1) for _ in range(r.randrange(0, 4)))
        keys = []
        for _ in range(r.randrange(0, 4)):
            kk = self.js_key()
            if kk not in keys:
                keys.append(kk)
        return "jo(%s)" % ",".join(kk + "," + self.js_any(depth - 1) for kk in keys)

    def js_for(self, T, depth=4):
        """a JavaScript value offered to $internalize for Go type T: mostly of the matching shape, sometimes not"""
        r = self.rng
        n, a = T
        if r.random() < 0.08:
            return r.choice(["u", "null"])
        if n == "TO" or n == "TE":
            return self.js_any(min(depth, 3))
        if n == "Tb":
            return r.choice(["t", "f", self.js_num(), self.js_str(), "ja()", "jo()"])
        if n in INT_KINDS:
            return r.choice([self.js_num(), self.js_num(), self.int_val(n), self.js_str(), "t", "jo()"])
        if n in ("TI64", "TU64"):
            return r.choice([self.js_num(), self.js_num(), "t", "f"])
        if n == "Tf32":     # may end up in a Float32Array: only float32-representable numbers (evidence assumption)
            return r.choice([self.float_val(n), self.float_val(n), "n%d" % r.randrange(-2 ** 24, 2 ** 24), "t", "w0037", "w002d00310032"])
        if n == "Tf64":
            return r.choice([self.float_val(n), self.float_val(n), self.js_num(), self.js_str(), "t"])
        if n == "Ts":
            return r.choice([self.js_str(), self.js_str(), self.js_str(), self.js_num(), "t", "jo()"])
        if n == "TS" or n == "TA":
            e = a[0] if n == "TS" else a[1]
            cnt = r.randrange(0, 4) if n == "TS" else max(0, int(a[0][0]) + r.choice([0, 0, 0, 0, 1, -1]))
            if e[0] in TA_OF and r.random() < 0.6:
                cls = TA_OF[e[0]] if r.random() < 0.7 else None
                if cls is None and e[0] in INT_KINDS:
                    # a foreign class for an integer element kind: not Float32Array, whose stores would round the
                    # internalized integers (outside the model: Float32Array stores are assumed exact)
                    cls = r.choice(["i8", "i16", "i32", "u8", "u16", "u32", "f64"])
                s = self.js_ta(cls)
                if n == "TA":                      # force the element count
                    nm, args = parse_sx(s)
                    args = (args + [("n0", [])] * cnt)[:cnt]
                    s = show_sx((nm, args)) if args else nm + "()"
                return s
            return "ja(%s)" % ",".join(self.js_for(e, depth - 1) for _ in range(cnt))
        if n == "TM":
            if r.random() < 0.1:
                return r.choice(["n5", "w-", "t", "jf1"])
            keys = []
            for _ in range(r.randrange(0, 4)):
                kk = self.js_key()
                if kk not in keys:
                    keys.append(kk)
            return "jo(%s)" % ",".join(kk + "," + self.js_for(a[0], depth - 1) for kk in keys)
        if n == "TT" or (n == "TP" and a[0][0] == "TT"):
            S = T if n == "TT" else a[0]
            fa = S[1]
            if r.random() < 0.06:
                return r.choice(["n5", "t", "ja()"])
            props = []
            for i in range(0, len(fa), 2):
                if r.random() < 0.85:
                    nm = bytes.fromhex(fa[i][0][1:]) if fa[i][0][1:] != "-" else b""
                    props.append("w" + hex16(list(nm)) + "," + self.js_for(fa[i + 1], depth - 1))
            if r.random() < 0.3:
                props.append("w0071007a," + self.js_any(1))     # an extra property "qz"
            return "jo(%s)" % ",".join(props)
        if n == "TP":
            return r.choice(["u", "null"])
        if n == "TF":
            return r.choice(["jf%d" % r.randrange(0, 5), "gf%d" % r.randrange(0, 5)])
        raise ValueError(n)


def gen_conv_ops(g, tier):
    """returns list of (op, meta) for the ext/int/rt/wrap/mkfunc/cls/back ties"""
    rng = g.rng
    big = tier == "thorough"
    ops = []
    # boundary numbers through every scalar kind, both directions
    bounds = [0, 1, -1, 127, 128, -128, -129, 255, 256, 32767, 32768, -32768, -32769, 65535, 65536, 2 ** 31 - 1, 2 ** 31, -2 ** 31, -2 ** 31 - 1,
              2 ** 32 - 1, 2 ** 32, 2 ** 32 + 1, -2 ** 32, 2 ** 53 - 1, 2 ** 53, -2 ** 53, 2 ** 53 + 2, 2 ** 63, -2 ** 63, 2 ** 64, 2 ** 64 - 2048, 2 ** 63 - 1024,
              -2 ** 63 - 2048, 2 ** 65, 10 ** 20]
    for t in list(INT_KINDS) + ["TI64", "TU64", "Tf64", "Tb", "Ts", "TE"]:
        for b in bounds:
            if float(b) == b and int(float(b)) == b:
                ops.append(("jsconv int %s n%d" % (t, b), {}))
                ops.append(("jsconv wrap %s n%d" % (t, b), {}))
        for x in ["nz", "nan", "pinf", "ninf", "q511_0_0", "q511_0_1", "q0_1_0", "q1022_-1_1", "q5_4294967295_0", "q5_-4294967296_1", "u", "null", "t", "f",
                  "w-", "w0031", "w002d0030", "w00200030007800660066", "w0061", "ja()", "jo()"]:
            ops.append(("jsconv int %s %s" % (t, x), {}))
    for t, signed in (("TI64", True), ("TU64", False)):
        vs = [0, 1, 2 ** 31, 2 ** 32 - 1, 2 ** 32, 2 ** 53 - 1, 2 ** 53, 2 ** 53 + 1, 2 ** 53 + 2, 2 ** 53 + 3, 2 ** 54 + 2, 2 ** 54 + 6, 2 ** 62, 2 ** 63 - 1, 2 ** 63 - 512,
              2 ** 63 - 513, 2 ** 63 - 1024]
        if signed:
            vs += [-v for v in vs] + [-2 ** 63]
        else:
            vs += [2 ** 63, 2 ** 63 + 1, 2 ** 64 - 1, 2 ** 64 - 1024, 2 ** 64 - 1025, 2 ** 64 - 2048, 2 ** 64 - 3072]
        for v in vs:
            p = g.pair64(v, signed)
            ops.append(("jsconv ext %s %s" % (t, p), {}))
            ops.append(("jsconv rt %s %s" % (t, p), {"domain": abs(v) <= 2 ** 53}))
    # typed generated values
    n_ext = 2500 if big else 500
    for _ in range(n_ext):
        T = g.ty(rng.choice([1, 2, 3, 4]))
        flags = set()
        v = g.go(parse_sx(T), clean=False, flags=flags)
        ops.append(("jsconv ext %s %s" % (T, v), {}))
        if rng.random() < 0.3:
            ops.append(("jsconv cls %s %s" % (T, v), {"cls": True}))
    # the documented round-trip domain
    n_rt = 3000 if big else 600
    for i in range(n_rt):
        T = g.ty(rng.choice([0, 1, 2, 3, 4]), domain=True)
        flags = set()
        mode = i % 4
        if mode == 0:
            flags.update(["nonegzero", "nonilmap"])
        elif mode == 1:
            flags.add("nonilmap")
        elif mode == 2:
            flags.add("nonegzero")
        v = g.go(parse_sx(T), clean=True, flags=flags)
        ops.append(("jsconv rt %s %s" % (T, v), {"domain": True}))
        if rng.random() < 0.25:
            ops.append(("jsconv cls %s %s" % (T, v), {"cls": True}))
    # round trips outside the domain (invalid UTF-8, 64-bit beyond 2^53, pointers, interfaces): model is the oracle
    for _ in range(n_rt // 3):
        T = g.ty(rng.choice([1, 2, 3]), allow=("TP", "TO", "TE"))
        v = g.go(parse_sx(T), clean=False)
        ops.append(("jsconv rt %s %s" % (T, v), {"domain": False}))
    n_int = 4000 if big else 800
    for _ in range(n_int):
        T = g.ty(rng.choice([0, 1, 2, 3, 4]))
        j = g.js_for(parse_sx(T))
        ops.append(("jsconv int %s %s" % (T, j), {}))
        if rng.random() < 0.3:
            ops.append(("jsconv wrap %s %s" % (T, j), {}))
    for _ in range(n_int // 4):
        j = g.js_any(4)
        ops.append(("jsconv int TE %s" % j, {}))
        ops.append(("jsconv back %s" % j, {"back": True}))
    for _ in range(n_int // 8):
        flags = set()
        v = g.go(("TE", []), clean=False, flags=flags)
        ops.append(("jsconv mkfunc %s" % v, {}))
    return ops


def gen_str_ops(g, tier):
    rng = g.rng
    ops = []
    cps = set()
    for b in CODEPOINT_BOUNDS + [0xD7FF, 0xE000, 0xDBFF + 0x2400, 0x2400]:
        for d in (-1, 0, 1):
            cps.add(min(max(b + d, 0), 0x10FFFF))
    if tier == "thorough":
        cps.update(range(0, 0x110000, 97))
    else:
        cps.update(range(0, 0x110000, 4099))
    for cp in sorted(cps):
        if 0xD800 <= cp <= 0xDFFF:
            continue
        s = list(chr(cp).encode("utf-8"))
        ops.append(("jsconv rtstr %s" % hexs(s), hexs(s)))
        ops.append(("jsconv rtstr %s" % hexs([0x61] + s + [0xC3, 0xA9]), hexs([0x61] + s + [0xC3, 0xA9])))
        u = [cp] if cp < 0x10000 else [0xD800 + ((cp - 0x10000) >> 10), 0xDC00 + ((cp - 0x10000) & 0x3FF)]
        ops.append(("jsconv rtstr16 %s" % hex16(u), hex16(u)))
        ops.append(("jsconv xstr %s" % hexs(s), None))
        ops.append(("jsconv istr %s" % hex16(u), None))
    # all single surrogates, alone / at the end / before every class of unit
    for h in [0xD800, 0xD801, 0xDBFF, 0xDC00, 0xDFFF, 0xDABC]:
        for tail in ([], [0x61], [0xDC00], [0xDFFF], [0xD800], [0xE9], [0xFFFF], [0xDBFF, 0xDC00], [0x61, 0xDC00]):
            for head in ([], [0xE9]):
                ops.append(("jsconv istr %s" % hex16(head + [h] + tail), None))
    for b in range(0x80, 0x100):
        ops.append(("jsconv xstr %s" % hexs([b]), None))
        ops.append(("jsconv xstr %s" % hexs([0x61, b, 0xE2, 0x82, 0xAC]), None))
    n = 6000 if tier == "thorough" else 1200
    for _ in range(n):
        s = g.valid_utf8(6)
        ops.append(("jsconv rtstr %s" % hexs(s), hexs(s)))
        u = g.utf16(True, 6)
        ops.append(("jsconv rtstr16 %s" % hex16(u), hex16(u)))
        ops.append(("jsconv xstr %s" % hexs(g.any_bytes(8)), None))
        ops.append(("jsconv istr %s" % hex16(g.utf16(False, 6)), None))
    return ops


def gen_guard_ops(g, tier):
    rng = g.rng
    scripts = [(0, "send_cb_7|recv_1|dequeue"), (0, "recv_cb|send_1_9|dequeue"), (1, "send_1_3|send_cb_4|recv_2|recv_2|dequeue"),
               (0, "send_cb_7"), (0, "recv_cb"), (2, "send_cb_1|send_cb_2|send_cb_3|recv_1|recv_1|recv_1|dequeue|dequeue"),
               (0, "recv_1|send_cb_5|dequeue"), (0, "send_1_5|recv_cb|dequeue"),
               (0, "sel_cb_0_s5.r|recv_1|send_2_4|dequeue"), (1, "sel_1_3_s5.r.d|sel_2_0_r.s6|sel_3_7_r.s6|sel_cb_0_r|sel_cb_2_d.r|dequeue"),
               (0, "sel_1_0_s5.r|sel_2_0_r|send_3_8|recv_3|dequeue|dequeue"), (0, "sel_1_0_s5.r|send_cb_8|recv_cb"),
               (0, "sel_cb_5_r.s1.r|sel_cb_0_d|sel_cb_0_s2"), (2, "sel_cb_11_s1.s2.r|sel_cb_4_s3.r|sel_cb_9_r.r|sel_cb_0_r|dequeue")]
    n = 1500 if tier == "thorough" else 300
    for _ in range(n):
        cap = rng.choice([0, 0, 1, 2])
        evs = []
        for _ in range(rng.randrange(1, 8)):
            k = rng.random()
            who = rng.choice(["cb", "cb", "1", "2", "3"])
            if k < 0.3:
                evs.append("send_%s_%d" % (who, rng.randrange(1, 10)))
            elif k < 0.6:
                evs.append("recv_%s" % who)
            elif k < 0.85:
                cases = [rng.choice(["r", "r", "s%d" % rng.randrange(1, 10), "s%d" % rng.randrange(1, 10), "d"]) for _ in range(rng.randrange(1, 4))]
                if cases.count("d") > 1:
                    cases = [c for c in cases if c != "d"] + ["d"]
                evs.append("sel_%s_%d_%s" % (who, rng.randrange(0, 12), ".".join(cases)))
            else:
                evs.append("dequeue")
        scripts.append((cap, "|".join(evs)))
    return ["jsconv guard %d %s" % s for s in scripts]


# ---------------------------------------------------------------------------------------------------------------

SLICE_ELEMS = {
    "Ti8": lambda i: "n%d" % (i - 3), "Ti16": lambda i: "n%d" % (1000 * i - 2000), "Ti32": lambda i: "n%d" % (100000 * i - 7), "Ti": lambda i: "n%d" % (i * 65537),
    "Tu8": lambda i: "n%d" % (247 + i), "Tu16": lambda i: "n%d" % (65527 + i), "Tu32": lambda i: "n%d" % (4294967287 + i), "Tu": lambda i: "n%d" % (i + 1),
    "Tup": lambda i: "n%d" % (7 * i), "Tf32": lambda i: ["n1", "nz", "nan", "q511_2_0", "pinf", "n-3"][i % 6], "Tf64": lambda i: ["nz", "q5_1_0", "nan", "n9007199254740992", "ninf", "n0"][i % 6],
    "Tb": lambda i: "tf"[i % 2], "Ts": lambda i: "s" + hexs(list(("e%dé" % i).encode())), "TI64": lambda i: "L%d_%d" % (i - 2, 4294967295 - i), "TU64": lambda i: "L%d_%d" % (i, i),
    "TS(Ti8)": lambda i: "sl(%s)" % ",".join("n%d" % k for k in range(i)) if i else "nil",
}


def gen_slice_ops(g, tier):
    """slices as (backing array length L, offset, len, cap): built by `new T(array)` and `$subslice(s, lo, hi, max)` of the real
    prelude; EVERY (L, lo, hi, max) with 0 <= lo <= hi <= max <= L <= 6 for every element kind, plus chains of two and three
    sub-slicings (which give offset > 0 with every len/cap combination) and a few out-of-range ones."""
    rng = g.rng
    ops = []
    for t, val in SLICE_ELEMS.items():
        for L in range(0, 7):
            backing = "ar(%s)" % ",".join(val(i) for i in range(L))
            for lo in range(0, L + 1):
                for hi in range(lo, L + 1):
                    for mx in range(hi, L + 1):
                        ops.append("jsconv slice %s %s %d:%d:%d" % (t, backing, lo, hi, mx))
    kinds = list(SLICE_ELEMS)
    for _ in range(6000 if tier == "thorough" else 1200):
        t = rng.choice(kinds)
        L = rng.randrange(0, 9)
        backing = "ar(%s)" % ",".join(SLICE_ELEMS[t](i) for i in range(L))
        chain = []
        cap = L
        for _ in range(rng.choice([2, 2, 3])):
            if rng.random() < 0.06:
                chain.append("%d:%d:%d" % (rng.randrange(0, 4), rng.randrange(0, 9), rng.randrange(0, 10)))   # possibly out of range
                break
            lo = rng.randrange(0, cap + 1)
            hi = rng.randrange(lo, cap + 1)
            mx = rng.choice([hi, hi, cap, rng.randrange(hi, cap + 1)])
            chain.append("%d:%d:%d" % (lo, hi, mx))
            cap = mx - lo
        ops.append("jsconv slice %s %s %s" % (t, backing, "/".join(chain)))
    return ops


def slice_kind(op, ans):
    p = op.split()
    if ans.startswith("panic"):
        return "slice:bounds-panic"
    first = p[4].split("/")
    lo, hi, mx = map(int, first[-1].split(":"))
    L = 0 if p[3] == "ar()" else p[3].count(",") + 1
    k = "slice:" + ("typed" if p[2] in TA_OF else "array")
    if len(first) == 1 and lo == 0 and hi == mx and hi < L:
        k += ":offset0-len=cap<backing"
    elif len(first) == 1 and lo == 0 and hi == L:
        k += ":whole"
    elif hi == lo:
        k += ":empty"
    return k


def gen_hist_ops(g, tier):
    """histories of JavaScript-side events over the real $go / $goroutine / $runScheduled: goroutines started from callbacks
    (scripts of sends, receives, selects, returns and unrecovered panics), channel operations in callbacks, timers."""
    rng = g.rng
    scripts = [(0, "go_p|cbrecv|go_s5|cbrecv|tick"), (0, "go_r|go_r.p|cbsend_1|cbsend_2|cbsend_3|tick|cbrecv"),
               (1, "go_s1.s2.s3|cbrecv|cbrecv|cbrecv|cbrecv|go_-|go_x.s1"), (0, "go_r.p|go_r|go_s1.s2|tick|cbrecv|tick"),
               (0, "go_l0:s5+r|go_l3:r+s6|cbsel_0_r.s7|cbsel_0_d|go_r|go_p|go_s9|tick|tick"), (0, "go_p|cbsend_1|cbsel_0_s1.r|go_p|cbrecv"),
               (2, "go_s1.p|cbsend_2|cbsend_3|cbrecv|go_r.r.r.p|cbsend_4|tick|cbsend_5"), (0, "go_r.s2.p|go_r|cbsend_1|tick|cbrecv|cbsend_3")]

    def gop():
        k = rng.random()
        if k < 0.3:
            return "s%d" % rng.randrange(1, 10)
        if k < 0.6:
            return "r"
        if k < 0.72:
            cases = [rng.choice(["r", "s%d" % rng.randrange(1, 10), "d"]) for _ in range(rng.randrange(1, 4))]
            if cases.count("d") > 1:
                cases = [c for c in cases if c != "d"] + ["d"]
            return "l%d:%s" % (rng.randrange(0, 12), "+".join(cases))
        if k < 0.9:
            return "p"
        return "x"

    n = 2500 if tier == "thorough" else 500
    for _ in range(n):
        cap = rng.choice([0, 0, 1, 2])
        evs = []
        for _ in range(rng.randrange(2, 10)):
            k = rng.random()
            if k < 0.4:
                ops = [gop() for _ in range(rng.randrange(0, 4))]
                evs.append("go_" + (".".join(ops) if ops else "-"))
            elif k < 0.58:
                evs.append("cbsend_%d" % rng.randrange(1, 10))
            elif k < 0.76:
                evs.append("cbrecv")
            elif k < 0.88:
                cases = [rng.choice(["r", "s%d" % rng.randrange(1, 10), "d"]) for _ in range(rng.randrange(1, 4))]
                if cases.count("d") > 1:
                    cases = [c for c in cases if c != "d"] + ["d"]
                evs.append("cbsel_%d_%s" % (rng.randrange(0, 12), ".".join(cases)))
            else:
                evs.append("tick")
        scripts.append((cap, "|".join(evs)))
    return ["jsconv hist %d %s" % s for s in scripts]


def hist_kind(op, ans):
    evs = op.split()[3]
    outs = ans.split("|")
    k = "hist"
    if any(o.startswith("threw") for o in outs):
        k += ":goroutine-panic"
        after = False
        for o in outs:
            if after and o.startswith("err:cannot-block"):
                k += ":then-blocked-callback-rejected"
                break
            after = after or o.startswith("threw")
    elif "err:cannot-block" in ans:
        k += ":blocked-callback-rejected"
    if "timers=1" in ans:
        k += ":timer-left"
    return k


def kind_of(op, ans):
    p = op.split()
    k = p[1]
    if k in ("ext", "int", "rt", "wrap", "cls"):
        top = p[2].split("(")[0]
        res = ans.split(":")[0] + ":" + ans.split(":")[1] if ans.startswith("err:") else "ok"
        return "%s:%s:%s" % (k, top, res)
    if k == "guard":
        return "guard:" + ("cannot-block" if "err:cannot-block" in ans else "no-block-in-callback") + (":select" if "sel_" in op else "") + (":typeerror" if "typeerror" in ans else "")
    return k


def run(tier, seed):
    chk = C.Check("C11", tier, seed)
    chk.rule = ("(a) ops = calls of the real $externalize/$internalize/$externalizeFunction/$makeFunc on (type object, value) pairs; type "
                "objects built with the real prelude constructors; values: boundary numbers (+-2^31, +-2^53, 2^63, 2^64-1 ...) through "
                "every numeric kind, seeded random typed composites to depth 4 (slices with offsets, arrays, string-keyed maps, "
                "structs with exported/unexported fields, pointers, interfaces, *js.Object, funcs), JS values of matching and "
                "mismatching shape (typed arrays of every class, lone surrogates, digit strings, wrappers); string transcoding: "
                "all code points at encoding boundaries + a stride over all code points, every invalid lead byte, lone surrogates "
                "in every context; callback-guard scripts (send/recv/select by goroutines and inside callbacks, controlled Math.random) on the real $send/$recv/$select/$block/$schedule; HISTORIES of JavaScript-side "
                "events over the real $go/$goroutine/$runScheduled (goroutines started from callbacks that send/receive/select/return/die of an "
                "unrecovered panic which JavaScript catches, channel operations in callbacks, timers firing) with $curGoroutine, queues, run queue, "
                "pending timers and counters compared after EVERY event. An op is non-trivial when "
                "distinct (sha1 of the op line). (b,c) compiled programs under GopherJS+Node, expected values from the model; js-tagged struct fields "
                "with tags drawn from identifiers, names needing bracket notation, non-ASCII (BMP / non-BMP), quotes / backslashes / </script>, "
                "non-decimal number characters and random mixtures - each written from Go and read by JavaScript under the tag's UTF-16 name, "
                "written by JavaScript and read from Go, listed with js.Keys, and function-valued; deferred / go'ed variadic js calls.")
    chk.trusted = ["Lean 4.33 kernel", "axioms: propext, Classical.choice, Quot.sound at most (listed per theorem)",
                   "hand-written models GV.Model.JsConv / Utf16 / CbGuard tied to jsmapping.js / goroutines.js by this differential run",
                   "GV.Spec.JsTable = my transcription of the table in the package comment of js/js.go",
                   "reuses GV.Props.C14 (UTF-8 decode/encode = Unicode Table 3-7)"]
    chk.assumptions = [
        "time.Time <-> Date and DOM Node rows of the table cannot be exercised here (package time does not compile against the sandbox GOROOT; no DOM)",
        "JS numbers are modelled as exact integers / -0 / NaN / +-Inf / opaque non-integral tokens; Number::toString and parseFloat are "
        "assumed to round-trip doubles; parseInt(String(x)) = trunc(x) is assumed for 1e-6 <= |x| < 1e21 (generated inputs stay inside)",
        "values stored into Float32Array are representable as float32 (generated so)",
        "property order of plain JS objects is modelled as insertion order; maps/objects are compared with keys sorted",
        "cyclic JS objects (the `seen` cache of $internalize) and makeWrapper (MakeFullWrapper) are not modelled",
        "V8 implements charCodeAt/fromCharCode/typed arrays/ToInt32 per ECMAScript",
        "outside the documented domain, transcribed in the model but not required by any theorem: pointers are not in the js package's table "
        "(null -> *struct with exported fields is a JavaScript TypeError, nil *struct -> null); a struct whose FIRST field is an interface{} "
        "holding a *js.Object externalizes to the internal js.Object wrapper struct (the package comment only speaks of structs containing a "
        "*js.Object field); a missing property internalizes to the string \"undefined\" for string fields, which is exactly the documented "
        "'converted according to JavaScript type conversions' (String(undefined)); MakeFullWrapper passes its makeWrapper argument in the recv "
        "slot of $internalize (makeWrapper is not modelled)",
    ]
    chk.proof = C.check_proofs("C11", THEOREMS, tier)
    g = ValGen(chk.rng)

    # ---------------- (a) conversions ----------------
    conv = gen_conv_ops(g, tier)
    ops = [o for o, _ in conv]
    model = C.run_driver("C11", ops)
    if any(m == "bad-op" for m in model):
        raise RuntimeError("generator produced an op the driver cannot parse: %s" % ops[model.index("bad-op")])
    keep = [i for i, m in enumerate(model) if m not in ("err:unmodelled", "err:ill-typed")]
    chk.extra["ops_outside_model_fragment_dropped"] = len(ops) - len(keep)
    conv = [conv[i] for i in keep]
    ops = [ops[i] for i in keep]
    model = [model[i] for i in keep]
    impl = C.run_node(ops)
    model_of = dict(zip(ops, model))
    # specification stream: round trip = identity on the documented domain; documented classes; model elsewhere
    spec_ops = []
    for (o, meta) in conv:
        p = o.split()
        if p[1] == "rt" and meta.get("domain"):
            spec_ops.append("jsconv rtspec %s %s" % (p[2], p[3]))
        elif p[1] == "cls":
            spec_ops.append("jsconv clsspec %s %s" % (p[2], p[3]))
        elif p[1] == "back":
            spec_ops.append("jsconv backspec %s" % p[2])
        else:
            spec_ops.append(o)
    spec = C.run_driver("C11", spec_ops)
    for i, (o, meta) in enumerate(conv):
        p = o.split()
        if p[1] == "cls":
            # the table speaks about non-nil values of documented types that do not wrap a *js.Object
            if spec[i] == "undocumented" or model[i] in ("null",) or model[i].startswith("err:") or "TO" in p[2] or "nil" == p[3]:
                spec[i] = model[i]
        if p[1] == "back" and (spec[i] == "undocumented" or model[i].startswith("op")):
            spec[i] = model[i]

    chk.compare("prelude-jsconv", ops, impl, model, spec=spec, kind=kind_of)

    # ---------------- strings ----------------
    sops = gen_str_ops(g, tier)
    so = [o for o, _ in sops]
    smodel = C.run_driver("C11", so)
    sspec = [s if s is not None else m for (_, s), m in zip(sops, smodel)]
    chk.compare("prelude-utf16", so, C.run_node(so), smodel, spec=sspec, kind=lambda o, a: o.split()[1])

    # ---------------- wrapper cache ----------------
    cops = []
    for _ in range(400 if tier == "thorough" else 80):
        cops.append("jsconv cache %s" % ",".join(str(chk.rng.randrange(0, 5)) for _ in range(chk.rng.randrange(1, 12))))
    chk.compare("wrapper-cache", cops, C.run_node(cops), C.run_driver("C11", cops), kind=lambda o, a: "cache")

    # ---------------- callback guard on the real prelude ----------------
    gops = gen_guard_ops(g, tier)
    gmodel = C.run_driver("C11", gops)
    # callback_guard is proved at full strength for the model, so the model is the specification
    chk.compare("prelude-callback-guard", gops, C.run_node(gops), gmodel, kind=kind_of)

    # ---------------- slices as windows of their backing array ----------------
    slops = gen_slice_ops(g, tier)
    chk.extra["exhaustive_subspace"] = ("every slice (backing length L <= 6, lo <= hi <= max <= L) x %d element kinds through $subslice, "
                                        "$sliceToNativeArray, $externalize and back" % len(SLICE_ELEMS))
    chk.compare("prelude-slice-window", slops, C.run_node(slops), C.run_driver("C11", slops), kind=slice_kind)

    # ---------------- histories over the real scheduler: $curGoroutine === $noGoroutine after every event ----------------
    hops = gen_hist_ops(g, tier)
    hmodel = C.run_driver("C11", hops)
    if any(" cur=cb " not in (" " + st + " ") for m in hmodel for st in m.split("|")):
        raise RuntimeError("model violates its own proved invariant (cur = none after every event)")
    # cur_reset_after_every_activation / callback_block_rejected are proved for the model, so the model is the specification
    chk.compare("prelude-scheduler-history", hops, C.run_node(hops), hmodel, kind=hist_kind)

    # ---------------- (b), (c) compiled programs ----------------
    program_tie(chk, tier, g)
    chk.extra["exhaustive"] = False
    return chk.finish()


# ---------------------------------------------------------------------------------------------------------------
# compiled programs
# ---------------------------------------------------------------------------------------------------------------

GO_SCALAR = {"Tb": "bool", "Ti": "int", "Ti8": "int8", "Ti16": "int16", "Ti32": "int32", "Tu": "uint", "Tu8": "uint8", "Tu16": "uint16",
             "Tu32": "uint32", "Tup": "uintptr", "TI64": "int64", "TU64": "uint64", "Tf32": "float32", "Tf64": "float64", "Ts": "string"}


def go_str(bs):
    return '"' + "".join("\\x%02x" % b for b in bs) + '"'


def unhex(h):
    return b"" if h == "-" else bytes.fromhex(h)


def go_type(T):
    n, a = T
    if n in GO_SCALAR:
        return GO_SCALAR[n]
    if n == "TS":
        return "[]" + go_type(a[0])
    if n == "TA":
        return "[%s]%s" % (a[0][0], go_type(a[1]))
    if n == "TM":
        return "map[string]" + go_type(a[0])
    if n == "TT":
        return "struct{" + "; ".join("%s %s" % (unhex(a[i][0][1:]).decode(), go_type(a[i + 1])) for i in range(0, len(a), 2)) + "}"
    raise ValueError(n)


def go_num(T, x):
    gt = GO_SCALAR[T]
    if x in ("nz", "nan", "pinf", "ninf"):
        return "%s(%s)" % (gt, {"nz": "negz", "nan": "nan", "pinf": "pinf", "ninf": "ninf"}[x])
    if x[0] == "n":
        v = int(x[1:])
        if T in ("Tf32", "Tf64"):
            return "%s(%d.0)" % (gt, v)
        return "%s(%d)" % (gt, v)
    tok, tr, neg = x[1:].split("_")
    mag = abs(int(tr)) * 1024 + int(tok) + 1
    return "%s(%s%d.0/1024)" % (gt, "-" if neg == "1" else "", mag)


def go_lit(T, v):
    n, a = T
    vn, va = v
    if n == "Tb":
        return "true" if vn == "t" else "false"
    if n in ("TI64", "TU64"):
        hi, lo = vn[1:].split("_")
        return "%s(%d)" % (GO_SCALAR[n], int(hi) * 2 ** 32 + int(lo))
    if n == "Ts":
        return go_str(unhex(vn[1:]))
    if n in GO_SCALAR:
        return go_num(n, vn)
    if vn == "nil":
        return "(%s)(nil)" % go_type(T)
    if n == "TS":
        return "%s{%s}" % (go_type(T), ", ".join(go_lit(a[0], x) for x in va))
    if n == "TA":
        return "%s{%s}" % (go_type(T), ", ".join(go_lit(a[1], x) for x in va))
    if n == "TM":
        return "%s{%s}" % (go_type(T), ", ".join("%s: %s" % (go_str(unhex(va[i][0][1:])), go_lit(a[0], va[i + 1])) for i in range(0, len(va), 2)))
    if n == "TT":
        return "%s{%s}" % (go_type(T), ", ".join(go_lit(a[2 * i + 1], x) for i, x in enumerate(va)))
    raise ValueError(n)


def js_lit(x):
    n, a = x
    if n == "u":
        return "undefined"
    if n == "null":
        return "null"
    if n in ("t", "f"):
        return "true" if n == "t" else "false"
    if n == "ja":
        return "[" + ",".join(js_lit(y) for y in a) + "]"
    if n == "jo":
        return "({" + ",".join("%s:%s" % (js_lit(a[i]), js_lit(a[i + 1])) for i in range(0, len(a), 2)) + "})"
    if n.startswith("ta_"):
        cls = {"i8": "Int8Array", "i16": "Int16Array", "i32": "Int32Array", "u8": "Uint8Array", "u16": "Uint16Array", "u32": "Uint32Array",
               "f32": "Float32Array", "f64": "Float64Array"}[n[3:]]
        return "new %s([%s])" % (cls, ",".join(js_lit(y) for y in a))
    if n[0] == "w":
        h = n[1:]
        return '"' + ("" if h == "-" else "".join("\\u" + h[i:i + 4] for i in range(0, len(h), 4))) + '"'
    if n in ("nz", "nan", "pinf", "ninf"):
        return {"nz": "-0", "nan": "NaN", "pinf": "Infinity", "ninf": "-Infinity"}[n]
    if n[0] == "n":
        return "(%s)" % n[1:]
    tok, tr, neg = n[1:].split("_")
    return "(%s%d/1024)" % ("-" if neg == "1" else "", abs(int(tr)) * 1024 + int(tok) + 1)


JS_SHOW = """(function(){
function hex4(n){return (n+0x10000).toString(16).slice(1);}
function u16(s){if(s.length===0)return '-';var h='';for(var i=0;i<s.length;i++)h+=hex4(s.charCodeAt(i));return h;}
function num(x){if(x!==x)return 'nan';if(x===Infinity)return 'pinf';if(x===-Infinity)return 'ninf';if(Object.is(x,-0))return 'nz';
 if(Number.isInteger(x))return 'n'+BigInt(x).toString();var neg=x<0,a=Math.abs(x),tr=Math.floor(a),tok=(a-tr)*1024-1;
 return 'q'+tok+'_'+(neg?(tr===0?'0':'-'+tr):String(tr))+'_'+(neg?1:0);}
var TA={i8:Int8Array,i16:Int16Array,i32:Int32Array,u8:Uint8Array,u16:Uint16Array,u32:Uint32Array,f32:Float32Array,f64:Float64Array};
function show(v){if(v===undefined)return 'u';if(v===null)return 'null';
 switch(typeof v){case 'boolean':return v?'t':'f';case 'number':return num(v);case 'string':return 'w'+u16(v);case 'function':return 'jf?';}
 for(var c in TA)if(v.constructor===TA[c])return 'ta_'+c+'('+Array.from(v).map(num).join(',')+')';
 if(Array.isArray(v))return 'ja('+v.map(show).join(',')+')';
 var ks=Object.keys(v).sort(function(a,b){var n=Math.min(a.length,b.length);for(var i=0;i<n;i++){var d=a.charCodeAt(i)-b.charCodeAt(i);if(d)return d;}return a.length-b.length;});
 var out=[];ks.forEach(function(k){out.push('w'+u16(k));out.push(show(v[k]));});return 'jo('+out.join(',')+')';}
return show;})()"""

GO_HELPERS = """
var zero float64
var negz = math.Copysign(0, -1)
var nan = math.NaN()
var pinf = math.Inf(1)
var ninf = math.Inf(-1)

func itoa(n int64) string {
	if n == 0 {
		return "0"
	}
	neg := n < 0
	var b []byte
	for n != 0 {
		d := n % 10
		if d < 0 {
			d = -d
		}
		b = append([]byte{byte('0' + d)}, b...)
		n /= 10
	}
	if neg {
		return "-" + string(b)
	}
	return string(b)
}

const hexdigits = "0123456789abcdef"

func hexs(s string) string {
	if len(s) == 0 {
		return "-"
	}
	b := make([]byte, 0, 2*len(s))
	for i := 0; i < len(s); i++ {
		b = append(b, hexdigits[s[i]>>4], hexdigits[s[i]&15])
	}
	return string(b)
}

func num(x float64) string {
	switch {
	case x != x:
		return "nan"
	case x > 1.7e308:
		return "pinf"
	case x < -1.7e308:
		return "ninf"
	case x == 0 && 1/x < 0:
		return "nz"
	}
	if x == math.Floor(x) && x >= -9.2e18 && x <= 9.2e18 {
		return "n" + itoa(int64(x))
	}
	if x == math.Floor(x) {
		return "nbig"
	}
	neg := x < 0
	a := math.Abs(x)
	tr := math.Floor(a)
	tok := (a-tr)*1024 - 1
	s := "q" + itoa(int64(tok)) + "_"
	if neg && tr != 0 {
		s += "-"
	}
	s += itoa(int64(tr)) + "_"
	if neg {
		return s + "1"
	}
	return s + "0"
}

func join(xs []string) string {
	s := ""
	for i, x := range xs {
		if i > 0 {
			s += ","
		}
		s += x
	}
	return s
}

func nums(n int, at func(int) float64) string {
	out := []string{}
	for i := 0; i < n; i++ {
		out = append(out, num(at(i)))
	}
	return join(out)
}

func show(v interface{}) string {
	switch x := v.(type) {
	case nil:
		return "nil"
	case bool:
		if x {
			return "if(Tb,t)"
		}
		return "if(Tb,f)"
	case float64:
		return "if(Tf64," + num(x) + ")"
	case string:
		return "if(Ts,s" + hexs(x) + ")"
	case []interface{}:
		out := []string{}
		for _, e := range x {
			out = append(out, show(e))
		}
		return "if(TS(TE),sl(" + join(out) + "))"
	case map[string]interface{}:
		keys := []string{}
		for k := range x {
			keys = append(keys, k)
		}
		for i := 1; i < len(keys); i++ {
			for j := i; j > 0 && keys[j] < keys[j-1]; j-- {
				keys[j], keys[j-1] = keys[j-1], keys[j]
			}
		}
		out := []string{}
		for _, k := range keys {
			out = append(out, "s"+hexs(k), show(x[k]))
		}
		return "if(TM(TE),mp(" + join(out) + "))"
	case []int8:
		return "if(TS(Ti8),sl(" + nums(len(x), func(i int) float64 { return float64(x[i]) }) + "))"
	case []int16:
		return "if(TS(Ti16),sl(" + nums(len(x), func(i int) float64 { return float64(x[i]) }) + "))"
	case []int:
		return "if(TS(Ti),sl(" + nums(len(x), func(i int) float64 { return float64(x[i]) }) + "))"
	case []uint8:
		return "if(TS(Tu8),sl(" + nums(len(x), func(i int) float64 { return float64(x[i]) }) + "))"
	case []uint16:
		return "if(TS(Tu16),sl(" + nums(len(x), func(i int) float64 { return float64(x[i]) }) + "))"
	case []uint:
		return "if(TS(Tu),sl(" + nums(len(x), func(i int) float64 { return float64(x[i]) }) + "))"
	case []float32:
		return "if(TS(Tf32),sl(" + nums(len(x), func(i int) float64 { return float64(x[i]) }) + "))"
	case []float64:
		return "if(TS(Tf64),sl(" + nums(len(x), func(i int) float64 { return x[i] }) + "))"
	case *js.Object:
		if x == js.Undefined {
			return "if(TO,ob(u))"
		}
		return "if(TO,ob(?))"
	}
	return "?"
}
"""

PROG_HEAD = "package main\n\nimport (\n\t\"math\"\n\n\t\"github.com/gopherjs/gopherjs/js\"\n)\n" + GO_HELPERS


def prog_ext(cases):
    """P1: Go values handed to a JavaScript probe through Invoke; the probe renders what arrived."""
    body = "\n".join("\tprintln(probe.Invoke(%s).String())" % go_lit(parse_sx(T), parse_sx(v)) for (T, v) in cases)
    return PROG_HEAD + "\nfunc main() {\n\t_ = zero\n\tprobe := js.Global.Call(\"eval\", %s)\n%s\n}\n" % (go_str(JS_SHOW.encode()), body)


def prog_iface(cases):
    """P2: JavaScript values built by eval, read back with Interface()."""
    body = "\n".join("\tprintln(show(js.Global.Call(\"eval\", %s).Interface()))" % go_str(("(" + js_lit(parse_sx(j)) + ")").encode()) for j in cases)
    return PROG_HEAD + "\nfunc main() {\n\t_, _, _, _ = negz, nan, pinf, ninf\n%s\n}\n" % body


ACCESSORS = PROG_HEAD + """
type T struct {
	*js.Object
	Name  string        `js:"name"`
	Count int           `js:"count"`
	Ratio float64       `js:"ratio"`
	Big   int64         `js:"big"`
	Tags  []string      `js:"tags"`
	Fn    func(int) int `js:"fn"`
}

type W struct{ n int }

func (w *W) Add(k int) int { w.n += k; return w.n }
func (w *W) Name() string   { return "w\\xc3\\xa9\\xf0\\x9f\\x98\\x80" }
func (w *W) hidden() int    { return 1 }

func b2s(b bool) string {
	if b {
		return "true"
	}
	return "false"
}

func main() {
	_, _ = pinf, ninf
	ev := func(s string) *js.Object { return js.Global.Call("eval", s) }
	o := js.Global.Get("Object").New()
	// Set / Get with every scalar kind, Bool/String/Int/Int64/Uint64/Float accessors
	o.Set("b", true)
	o.Set("i", -2147483648)
	o.Set("u8", uint8(255))
	o.Set("i64", int64(-9007199254740992))
	o.Set("u64", uint64(9007199254740992))
	o.Set("f", 1.5)
	o.Set("nz", negz)
	o.Set("nan", nan)
	o.Set("s", "h\\xc3\\xa9\\xf0\\x9f\\x98\\x80\\xff")
	println("get.b", b2s(o.Get("b").Bool()))
	println("get.i", o.Get("i").Int())
	println("get.u8", o.Get("u8").Int())
	println("get.i64", itoa(o.Get("i64").Int64()))
	println("get.u64", itoa(int64(o.Get("u64").Uint64())))
	println("get.f", num(o.Get("f").Float()))
	println("get.nz", num(o.Get("nz").Float()))
	println("get.nan", num(o.Get("nan").Float()))
	println("get.s", hexs(o.Get("s").String()))
	println("js.s", ev("(function(o){var s=o.s,h='';for(var i=0;i<s.length;i++)h+=s.charCodeAt(i).toString(16)+'.';return h;})").Invoke(o).String())
	println("js.typeof", ev("(function(o){return [typeof o.b,typeof o.i,typeof o.i64,typeof o.f,typeof o.s,Object.is(o.nz,-0),o.i64,o.u64].join()})").Invoke(o).String())
	o.Delete("b")
	println("deleted", b2s(o.Get("b") == js.Undefined))
	println("keys", join(js.Keys(o)))
	// non-constant property names go through $externalize(key, $String)
	key := "k\\xc3\\xa9y"
	o.Set(key, 7)
	println("get.key", o.Get(key).Int(), ev("(function(o){return o['k\\u00e9y']})").Invoke(o).Int())
	// arrays: Index / SetIndex / Length
	a := js.Global.Get("Array").New(3)
	a.SetIndex(0, "x")
	a.SetIndex(1, []int8{-1, 2})
	a.SetIndex(2, map[string]interface{}{"p": []interface{}{1, "q", nil}})
	println("len", a.Length())
	println("idx0", a.Index(0).String())
	println("idx1", show(a.Index(1).Interface()))
	println("idx2", show(a.Index(2).Interface()))
	println("idx9", b2s(a.Index(9) == js.Undefined))
	// Call / Invoke / New with converted arguments and results
	println("call", b2s(js.Global.Get("Math").Call("max", 3, 7.5, int64(6)).Float() == 7.5))
	println("call.str", b2s(js.Global.Get("String").Call("fromCharCode", 0xd83d, 0xde00).String() == "\\xf0\\x9f\\x98\\x80"))
	println("invoke", b2s(ev("(function(a,b){return a+b})").Invoke("a\\xc3\\xa9", "b").String() == "a\\xc3\\xa9b"))
	println("new", js.Global.Get("Array").New(1, 2, 3).Length())
	println("variadic", js.Global.Get("Math").Call("max", []interface{}{1, 9, 4}...).Int())
	// Int on out-of-range and non-numeric values (parseInt, then >> 0)
	println("int.big", ev("4294967301").Int(), ev("'12px'").Int(), ev("undefined").Int(), ev("1e21").Int(), ev("-1.9").Int())
	println("int64", itoa(ev("9007199254740993").Int64()), itoa(ev("-1").Int64()), itoa(int64(ev("18446744073709551615").Uint64())))
	println("unsafe", b2s(o.Unsafe() != 0))
	// Interface() of every class
	println("iface", show(ev("[true, 1.5, 'x', null, undefined, [1], {a: 1}, new Uint8Array([1,2]), new Float64Array([1.5])]").Interface()))
	println("iface.fn", ev("(function(a,b){return a*b})").Interface().(func(...interface{}) *js.Object)(6, 7).Int())
	// js-tagged struct fields
	t := &T{Object: js.Global.Get("Object").New()}
	t.Name = "n\\xc3\\xa9"
	t.Count = 41
	t.Count++
	t.Ratio = 0.25
	t.Big = 1 << 40
	t.Tags = []string{"a", "\\xf0\\x9f\\x98\\x80"}
	t.Fn = func(x int) int { return x * 2 }
	println("tag", hexs(t.Name), t.Count, num(t.Ratio), itoa(t.Big), len(t.Tags), hexs(t.Tags[1]), t.Fn(21))
	println("tag.js", hexs(ev("(function(o){return [o.name,o.count,o.ratio,o.big,o.tags.length,o.tags[1].length,o.fn(5),Object.keys(o).sort().join('|')].join()})").Invoke(t).String()))
	// a struct wrapping a *js.Object externalizes to that object
	println("wrapobj", b2s(ev("(function(a,b){return a===b})").Invoke(t, t.Object).Bool()))
	// MakeFunc: this / arguments / converted result
	mf := js.MakeFunc(func(this *js.Object, args []*js.Object) interface{} {
		return map[string]interface{}{"n": len(args), "first": args[0], "this": this.Get("tag")}
	})
	println("makefunc", ev("(function(f){var r=f.call({tag:'T'},10,20);return [r.n,r.first,r['this']].join()})").Invoke(mf).String())
	// MakeWrapper: exported methods only, __internal_object__ round trip
	w := &W{n: 1}
	mw := js.MakeWrapper(w)
	println("wrapper", ev("(function(w){return [w.Add(4),w.Add(5),w.Name().length,typeof w.hidden,Object.keys(w).sort().join('|')].join()})").Invoke(mw).String())
	println("wrapper.back", b2s(mw.Interface().(*W) == w), w.n)
	// exposed functions: converted parameters and results, same JavaScript function every time
	f := func(a int8, s string, xs []float64, m map[string]int) (int, string) {
		return int(a) + len(xs) + len(m), s + "!"
	}
	js.Global.Set("gf", f)
	js.Global.Set("gf2", f)
	println("expose", ev("(function(){var r=gf(300,'\\\\u00e9\\\\ud83d\\\\ude00',[1,2],{a:1});return [r[0],r[1].length,gf===gf2].join()})()").String())
	o.Set("f1", f)
	o.Set("arr", []interface{}{f})
	println("stable", b2s(ev("(function(o){return o.f1===gf && o.arr[0]===gf})").Invoke(o).Bool()))
	// struct / map / slice externalization seen from JavaScript
	type P struct {
		A int
		B string
		c int
		D []uint16
		E map[string]bool
	}
	println("struct.js", ev("(function(p){return JSON.stringify(p)+'|'+p.D.constructor.name})").Invoke(P{1, "x", 3, []uint16{65535}, map[string]bool{"k": true}}).String())
	println("nilslice", b2s(ev("(function(a,b,c){return a===null&&b===null&&c===null})").Invoke([]int(nil), map[string]int(nil), (*P)(nil)).Bool()))
	_ = zero
}
"""

# what the js package documentation and the model predict for ACCESSORS (line by line)
ACCESSORS_EXPECT = [
    "get.b true", "get.i -2147483648", "get.u8 255", "get.i64 -9007199254740992", "get.u64 9007199254740992", "get.f q511_1_0", "get.nz nz",
    "get.nan nan", "get.s 68c3a9f09f9880efbfbd", "js.s 68.e9.d83d.de00.fffd.",
    "js.typeof boolean,number,number,number,string,true,-9007199254740992,9007199254740992",
    "deleted true", "keys i,u8,i64,u64,f,nz,nan,s", "get.key 7 7", "len 3", "idx0 x", "idx1 if(TS(Ti8),sl(n-1,n2))",
    "idx2 if(TM(TE),mp(s70,if(TS(TE),sl(if(Tf64,n1),if(Ts,s71),nil))))", "idx9 true", "call true", "call.str true", "invoke true", "new 3", "variadic 9",
    "int.big 5 12 0 1 -1", "int64 9007199254740992 -1 0", "unsafe true",
    "iface if(TS(TE),sl(if(Tb,t),if(Tf64,q511_1_0),if(Ts,s78),nil,if(TO,ob(u)),if(TS(TE),sl(if(Tf64,n1))),if(TM(TE),mp(s61,if(Tf64,n1))),if(TS(Tu8),sl(n1,n2)),if(TS(Tf64),sl(q511_1_0))))",
    "iface.fn 42", "tag 6ec3a9 42 q255_0_0 1099511627776 2 f09f9880 42",
    "tag.js " + "n\u00e9,42,0.25,1099511627776,2,2,10,big|count|fn|name|ratio|tags".encode("utf-8").hex(),
    "wrapobj true", "makefunc 2,10,T", "wrapper 5,10,4,undefined,Add|Name|__internal_object__", "wrapper.back true 10", "expose 47,4,true", "stable true",
    'struct.js {"A":1,"B":"x","D":{"0":65535},"E":{"k":true}}|Uint16Array', "nilslice true",
]

FINDING_PROBES = PROG_HEAD + """
func main() {
	ev := func(s string) *js.Object { return js.Global.Call("eval", s) }
	// the sign of zero through every route from JavaScript to Go
	println("float.accessor", num(ev("-0").Float()))
	println("float.interface", num(ev("-0").Interface().(float64)))
	js.Global.Set("fz", func(x float64) string { return num(x) })
	println("float.param", ev("fz(-0)").String())
	js.Global.Set("fs", func(xs []float64) string { return num(xs[0]) })
	println("float.slice", ev("fs(new Float64Array([-0]))").String())
	js.Global.Set("ident", func(x float64) float64 { return x })
	println("float.roundtrip", ev("Object.is(ident(-0), -0)").Bool())
	// nil map / nil slice round trips
	js.Global.Set("mnil", func(m map[string]int) bool { return m == nil })
	js.Global.Set("snil", func(s []int) bool { return s == nil })
	js.Global.Set("mid", func(m map[string]int) map[string]int { return m })
	println("nil.slice", ev("snil(null)").Bool())
	println("nil.map", ev("mnil(null)").Bool())
	println("nil.map.roundtrip", ev("mid(null) === null").Bool())
	// int / uint parameters are truncated like every other integer kind (and like (*js.Object).Int())
	js.Global.Set("fi", func(x int) string { return num(float64(x)) })
	js.Global.Set("fu", func(x uint) string { return num(float64(x)) })
	println("int.param", ev("fi(4294967301)").String(), ev("fi(undefined)").String(), ev("fi(-1.9)").String())
	println("uint.param", ev("fu(-1)").String(), ev("fu(4294967296)").String())
	// a Go array internalized from a plain JavaScript Array is backed by the array class of its element kind
	js.Global.Set("fa", func(m map[string][2]int8) interface{} { return m["k"] })
	println("array.native", ev("(function(){var r=fa({k:[1,300]});return r.constructor.name+':'+Array.from(r).join()})()").String())
	_, _, _, _, _ = zero, nan, pinf, ninf, negz
}
"""
FINDING_EXPECT = ["float.accessor nz", "float.interface nz", "float.param nz", "float.slice nz", "float.roundtrip true",
                  "nil.slice true", "nil.map true", "nil.map.roundtrip true", "int.param n5 n0 n-1", "uint.param n4294967295 n0",
                  "array.native Int8Array:1,44"]

GUARD_PROG = """package main

import "github.com/gopherjs/gopherjs/js"

func main() {
	c := make(chan int)
	done := make(chan bool)
	js.Global.Set("cb", func() {
		defer func() {
			if e := recover(); e != nil {
				println("callback recovered:", e.(error).Error())
			}
		}()
		%s
		println("callback: not reached")
	})
	js.Global.Call("setTimeout", js.Global.Get("cb"), 0)
	go func() {
		// continues after the first timer has fired (woken through a later timer)
		t := make(chan bool)
		js.Global.Call("setTimeout", func() { go func() { t <- true }() }, 30)
		<-t
		%s
		done <- true
	}()
	<-done
	println("main: finished")
}
"""
GUARD_SEND = ("c <- 7", 'select {\n\t\tcase v := <-c:\n\t\t\tprintln("goroutine: received", v)\n\t\tdefault:\n\t\t\tprintln("goroutine: nothing to receive")\n\t\t}')
GUARD_SELECT = ("select {\n\t\tcase c <- 7:\n\t\tcase v := <-c:\n\t\t\tprintln(v)\n\t\t}",
                'select {\n\t\tcase v := <-c:\n\t\t\tprintln("goroutine: received", v)\n\t\tdefault:\n\t\t\tprintln("goroutine: nothing to receive")\n\t\t}')
GUARD_RECV = ("println(<-c)", 'select {\n\t\tcase c <- 9:\n\t\t\tprintln("goroutine: sent")\n\t\tdefault:\n\t\t\tprintln("goroutine: nobody receiving")\n\t\t}')
GUARD_MSG = "callback recovered: runtime error: cannot block in JavaScript callback, fix by wrapping code in goroutine"
GUARD_EXPECT = {
    "send": ([GUARD_MSG, "goroutine: nothing to receive", "main: finished"], "exit0"),
    "recv": ([GUARD_MSG, "goroutine: nobody receiving", "main: finished"], "exit0"),
    "select": ([GUARD_MSG, "goroutine: nothing to receive", "main: finished"], "exit0"),
}


# ---------------------------------------------------------------------------------------------------------------
# js-tagged struct fields: property names seen from both sides; deferred / go'ed variadic js calls
# ---------------------------------------------------------------------------------------------------------------

TAG_FIXED = ["name", "$x_1", "_9", "größe", "价格", "\U0001d4b3y", "my name", "a-b", "a.b", "f(x)", "1abc", "x y-z",
             "größe-cm", "价格 (USD)", "ok-\U0001f600", "\U0001f600", "é è", "\U0001d4b3-\U0001d4b4",
             'a"b', "a'b", "a\\b", "</script>", "<x>&=", "a\"'\\<>&=b", "@&\"'<>//my name", "x²", "½", "nⅧ", "d٣"]
TAG_POOLS = ["abcxyzABZ", "019", "$_", " -.()[]+*/", "\"'\\<>&=", "ößéØ", "价格あ", "\U0001f600\U0001d4b3\U00010400",
             "²Ⅷ٣"]


def gen_tags(rng, n):
    tags = []
    fixed = list(TAG_FIXED)
    rng.shuffle(fixed)
    for t in fixed[:max(4, n // 2)]:
        tags.append(t)
    while len(tags) < n:
        k = rng.randrange(1, 6)
        pools = [rng.choice(TAG_POOLS) for _ in range(rng.randrange(1, 4))]
        t = "".join(rng.choice(rng.choice(pools)) for _ in range(k))
        if t and t not in tags and t.strip() == t and t not in ("constructor", "toString", "valueOf"):
            tags.append(t)
    return tags


def tag_literal(tag):
    """the Go struct tag `js:"<tag>"` as an interpreted Go string literal (every byte escaped)"""
    inner = tag.replace("\\", "\\\\").replace('"', '\\"')
    return go_str(('js:"' + inner + '"').encode("utf-8"))


def js_name_lit(units_hex):
    """a JavaScript string literal for the property name given as UTF-16 units (4 hex digits each)"""
    return '"' + ("" if units_hex == "-" else "".join("\\u" + units_hex[i:i + 4] for i in range(0, len(units_hex), 4))) + '"'


def prog_tags(tags, names16):
    """one struct wrapping a *js.Object with one js-tagged field per tag (string / int / func in turn); every field is
    written from Go and read by JavaScript under its documented name, written by JavaScript and read from Go, listed by
    js.Keys, and (func fields) called from both sides. Returns (source, expected lines)."""
    fields, body1, body2, exp1, exp2 = [], [], [], [], []
    for i, (tag, nm) in enumerate(zip(tags, names16)):
        lit = js_name_lit(nm)
        kind = i % 3
        if kind == 0:
            fields.append("\tF%d string %s" % (i, tag_literal(tag)))
            body1.append('\tt.F%d = "g%d"' % (i, i))
            body1.append('\tprintln("w2r %d", ev(%s).Invoke(t).String())' % (i, go_str(("(function(o){return String(o[%s])})" % lit).encode())))
            exp1.append("w2r %d g%d" % (i, i))
            body2.append("\tev(%s).Invoke(t)" % go_str(("(function(o){o[%s]='j%d'})" % (lit, i)).encode()))
            body2.append('\tprintln("r2w %d", t.F%d)' % (i, i))
            exp2.append("r2w %d j%d" % (i, i))
        elif kind == 1:
            fields.append("\tF%d int %s" % (i, tag_literal(tag)))
            body1.append("\tt.F%d = %d" % (i, 100 + i))
            body1.append("\tt.F%d++" % i)
            body1.append('\tprintln("w2r %d", ev(%s).Invoke(t).String())' % (i, go_str(("(function(o){return String(o[%s])})" % lit).encode())))
            exp1.append("w2r %d %d" % (i, 101 + i))
            body2.append("\tev(%s).Invoke(t)" % go_str(("(function(o){o[%s]=%d})" % (lit, 200 + i)).encode()))
            body2.append('\tprintln("r2w %d", t.F%d)' % (i, i))
            exp2.append("r2w %d %d" % (i, 200 + i))
        else:
            fields.append("\tF%d func(int) int %s" % (i, tag_literal(tag)))
            body1.append("\tt.F%d = func(x int) int { return x + %d }" % (i, i))
            body1.append('\tprintln("w2r %d", ev(%s).Invoke(t).String())' % (i, go_str(("(function(o){return typeof o[%s]==='function'?String(o[%s](1000)):'not-a-function:'+typeof o[%s]})" % (lit, lit, lit)).encode())))
            exp1.append("w2r %d %d" % (i, 1000 + i))
            body2.append("\tev(%s).Invoke(t)" % go_str(("(function(o){o[%s]=function(x){return x*2+%d}})" % (lit, i)).encode()))
            body2.append('\tprintln("r2w %d", t.F%d(500))' % (i, i))
            exp2.append("r2w %d %d" % (i, 1000 + i))
    keys = sorted(hexs(list(t.encode("utf-8"))) for t in tags)
    src = (PROG_HEAD + "\ntype T struct {\n\t*js.Object\n" + "\n".join(fields) + "\n}\n\nfunc keys(o *js.Object) string {\n"
           "\tks := js.Keys(o)\n\tfor i := 1; i < len(ks); i++ {\n\t\tfor j := i; j > 0 && hexs(ks[j]) < hexs(ks[j-1]); j-- {\n\t\t\tks[j], ks[j-1] = ks[j-1], ks[j]\n\t\t}\n\t}\n"
           "\tout := []string{}\n\tfor _, k := range ks {\n\t\tout = append(out, hexs(k))\n\t}\n\treturn join(out)\n}\n\n"
           "func main() {\n\t_, _, _, _, _ = zero, negz, nan, pinf, ninf\n\tev := func(s string) *js.Object { return js.Global.Call(\"eval\", s) }\n"
           "\tt := &T{Object: js.Global.Get(\"Object\").New()}\n" + "\n".join(body1) + "\n\tprintln(\"keys\", keys(t.Object))\n" + "\n".join(body2) +
           "\n\tprintln(\"keys\", keys(t.Object))\n}\n")
    exp = exp1 + ["keys " + ",".join(keys)] + exp2 + ["keys " + ",".join(keys)]
    return src, exp


DEFER_PROG = """package main

import "github.com/gopherjs/gopherjs/js"

func show(a *js.Object) string { return js.Global.Get("JSON").Call("stringify", a).String() }

func one(a *js.Object)    { defer a.Call("push", 5) }
func two(a *js.Object)    { defer a.Call("push", 6, "x") }
func none(a *js.Object)   { defer a.Call("reverse") }
func spread(a *js.Object) { defer a.Call("push", []interface{}{8, 9}...) }
func inv(f *js.Object)    { defer f.Invoke(1, 2.5, "s") }
func mk(c *js.Object)     { defer c.New(3) }

func main() {
	a := js.Global.Get("Array").New()
	one(a)
	println("one", show(a))
	two(a)
	println("two", show(a))
	none(a)
	println("none", show(a))
	spread(a)
	println("spread", show(a))
	f := js.Global.Call("eval", "(function(){ globalThis.seen = Array.prototype.slice.call(arguments); })")
	inv(f)
	println("invoke", show(js.Global.Get("seen")))
	mk(js.Global.Call("eval", "(function(n){ globalThis.made = n; })"))
	println("new", js.Global.Get("made").Int())
	done := make(chan bool)
	go a.Call("push", 10, 11)
	go func() { done <- true }()
	<-done
	println("go", show(a))
}
"""
DEFER_EXPECT = ['one [5]', 'two [5,6,"x"]', 'none ["x",6,5]', 'spread ["x",6,5,8,9]', 'invoke [1,2.5,"s"]', "new 3", 'go ["x",6,5,8,9,10,11]']


def tag_jobs(chk, tier):
    rng = chk.rng
    nprog = 6 if tier == "thorough" else 2
    jobs, meta = [], []
    for k in range(nprog):
        tags = gen_tags(rng, 15)
        names16 = C.run_driver("C11", ["jsconv tagname %s" % hexs(list(t.encode("utf-8"))) for t in tags])
        src, exp = prog_tags(tags, names16)
        jobs.append({"id": "tags%d" % k, "files": {"main.go": src}, "variants": ["plain", "minify"], "native": False, "timeout": 300})
        meta.append(("tags", (tags, exp)))
    jobs.append({"id": "defer-variadic", "files": {"main.go": DEFER_PROG}, "variants": ["plain", "minify"], "native": False, "timeout": 300})
    meta.append(("defer", DEFER_EXPECT))
    return jobs, meta


def tag_results(chk, j, v, obs, kind, info):
    tie = "program-%s:%s" % (kind, v)
    if kind == "tags":
        tags, exp = info
        ops = []
        for e in exp:
            p = e.split(" ")
            if p[0] == "keys":
                ops.append("tags keys " + ",".join(hexs(list(t.encode("utf-8"))) for t in tags))
            else:
                ops.append("tags %s field=%s tag=%s" % (p[0], p[1], hexs(list(tags[int(p[1])].encode("utf-8")))))
    else:
        exp = info
        ops = ["defer-variadic %s" % e.split(" ")[0] for e in exp]
    lines = obs[0]
    if obs[1] != "exit0" or len(lines) != len(exp):
        # a program that does not even load (SyntaxError) or stops early: report the tags with what was seen
        chk.add_mismatch(tie, json.dumps({"id": j["id"], "ops": ops[:40], "source": j["files"]["main.go"][:4000]}),
                         impl=json.dumps([lines[-3:], obs[1]]), spec="%d lines, exit0" % len(exp))
        return
    chk.compare(tie, ops, lines, exp, kind=lambda o, a, kind=kind: "program:" + kind + ":" + o.split(" ")[1].split("=")[0])


SLICE3_KINDS = [("uint8", "Tu8"), ("int16", "Ti16"), ("int32", "Ti32"), ("uint", "Tu"), ("float64", "Tf64"), ("float32", "Tf32"), ("string", "Ts"), ("int64", "TI64"), ("bool", "Tb")]


def prog_slice3(rng, ncases):
    """three-index slice expressions of slices and of arrays handed to a JavaScript probe, and read back through Interface()"""
    decl, body, ops = [], [], []
    for k, (gt, t) in enumerate(SLICE3_KINDS):
        L = 5
        vals = [SLICE_ELEMS[t](i) for i in range(L)]
        lits = ", ".join(go_lit((t, []), parse_sx(v)) for v in vals)
        decl.append("\ts%d := []%s{%s}" % (k, gt, lits))
        decl.append("\ta%d := [%d]%s{%s}" % (k, L, gt, lits))
        triples = [(0, 2, 2), (0, 0, 0), (0, 5, 5), (1, 3, 3), (0, 3, 5), (2, 2, 4)]
        while len(triples) < ncases:
            lo = rng.randrange(0, L + 1)
            hi = rng.randrange(lo, L + 1)
            triples.append((lo, hi, rng.randrange(hi, L + 1)))
        for (lo, hi, mx) in triples:
            for src in ("s", "a"):
                body.append("\tprintln(probe.Invoke(%s%d[%d:%d:%d]).String())" % (src, k, lo, hi, mx))
                ops.append(("ext", "jsconv slice %s ar(%s) %d:%d:%d" % (t, ",".join(vals), lo, hi, mx)))
                body.append("\tprintln(show(ident.Invoke(%s%d[%d:%d:%d]).Interface()))" % (src, k, lo, hi, mx))
                ops.append(("back", "jsconv slice %s ar(%s) %d:%d:%d" % (t, ",".join(vals), lo, hi, mx)))
    src = (PROG_HEAD + "\nfunc main() {\n\t_ = zero\n\tprobe := js.Global.Call(\"eval\", %s)\n\tident := js.Global.Call(\"eval\", \"(function(x){return x})\")\n" % go_str(JS_SHOW.encode())
           + "\n".join(decl) + "\n" + "\n".join(body) + "\n}\n")
    return src, ops


HISTORY_PROG = """package main

import "github.com/gopherjs/gopherjs/js"

func main() {
	try := js.Global.Call("eval", "(function(f){ try { f(); return 'returned normally'; } catch (e) { return 'threw: ' + e.message; } })")
	empty := make(chan int)
	full := make(chan int, 1)
	full <- 1
	done := make(chan bool)
	probe := make(chan int, 1)
	js.Global.Call("setTimeout", func() {
		// a goroutine started from a callback dies of an unrecovered panic; the JavaScript caller survives it
		println("panic:", try.Invoke(func() { go func() { panic("boom") }() }).String())
		// afterwards blocking operations in callbacks are still rejected and leave nothing behind
		println("recv:", try.Invoke(func() { println("received", <-empty) }).String())
		println("send:", try.Invoke(func() { full <- 2 }).String())
		println("select:", try.Invoke(func() {
			select {
			case v := <-empty:
				println("selected", v)
			case full <- 3:
				println("sent")
			}
		}).String())
		println("queues:", len(full), cap(full))
		// a second panicking goroutine, woken through a channel this time
		wake := make(chan int)
		go func() { <-wake; panic("bang") }()
		println("panic2:", try.Invoke(func() { wake <- 1 }).String())
		println("recv2:", try.Invoke(func() { <-empty }).String())
		// goroutines started from the callback still run
		go func() { probe <- 42 }()
		select {
		case v := <-probe:
			println("go from callback ran:", v)
		default:
			println("go from callback did NOT run")
		}
		done <- true
	}, 0)
	<-done
	println("main: finished")
}
"""
HISTORY_EXPECT = ["panic: threw: boom", "recv: threw: " + GUARD_MSG[len("callback recovered: "):], "send: threw: " + GUARD_MSG[len("callback recovered: "):],
                  "select: threw: " + GUARD_MSG[len("callback recovered: "):], "queues: 1 1", "panic2: threw: bang", "recv2: threw: " + GUARD_MSG[len("callback recovered: "):],
                  "go from callback ran: 42", "main: finished"]


def program_tie(chk, tier, g):
    """(b) self-checking compiled programs (GopherJS + Node only: there is no native twin of package js); (c) the guard."""
    from . import progs
    rng = chk.rng
    nprog = 6 if tier == "thorough" else 2
    percase = 60 if tier == "thorough" else 40
    jobs, meta = [], []
    for k in range(nprog):
        cases = []
        while len(cases) < percase:
            T = g.ty(rng.choice([0, 1, 2, 3]), domain=True)
            cases.append((T, g.go(parse_sx(T), clean=False)))
        jobs.append({"id": "ext%d" % k, "files": {"main.go": prog_ext(cases)}, "variants": ["plain", "minify"], "native": False, "timeout": 300})
        meta.append(("ext", ["jsconv ext TE if(%s,%s)" % c for c in cases]))
        jcases = []
        while len(jcases) < percase:
            j = g.js_any(3)
            if "wr" in j or "jf" in j or "gf" in j:
                continue
            if any(abs(int(m)) > 9 * 10 ** 18 for m in re.findall(r"n(-?\d+)", j)):
                continue                                   # the Go-side printer goes through int64
            jcases.append(j)
        jobs.append({"id": "iface%d" % k, "files": {"main.go": prog_iface(jcases)}, "variants": ["plain", "minify"], "native": False, "timeout": 300})
        meta.append(("iface", ["jsconv int TE %s" % j for j in jcases]))
    jobs.append({"id": "accessors", "files": {"main.go": ACCESSORS}, "variants": ["plain", "minify"], "native": False, "timeout": 300})
    meta.append(("accessors", None))
    jobs.append({"id": "findings", "files": {"main.go": FINDING_PROBES}, "variants": ["plain"], "native": False, "timeout": 300})
    meta.append(("findings", None))
    jobs.append({"id": "guard-send", "files": {"main.go": GUARD_PROG % GUARD_SEND}, "variants": ["plain"], "native": False, "timeout": 300})
    meta.append(("guard", "send"))
    jobs.append({"id": "guard-recv", "files": {"main.go": GUARD_PROG % GUARD_RECV}, "variants": ["plain"], "native": False, "timeout": 300})
    meta.append(("guard", "recv"))
    jobs.append({"id": "guard-select", "files": {"main.go": GUARD_PROG % GUARD_SELECT}, "variants": ["plain"], "native": False, "timeout": 300})
    meta.append(("guard", "select"))
    s3src, s3ops = prog_slice3(rng, 10 if tier == "thorough" else 8)
    jobs.append({"id": "slice3", "files": {"main.go": s3src}, "variants": ["plain", "minify"], "native": False, "timeout": 300})
    meta.append(("slice3", s3ops))
    jobs.append({"id": "guard-history", "files": {"main.go": HISTORY_PROG}, "variants": ["plain", "minify"], "native": False, "timeout": 300})
    meta.append(("history", HISTORY_EXPECT))
    tj, tm = tag_jobs(chk, tier)
    jobs += tj
    meta += tm
    res = progs.run_jobs(jobs, par=4)
    # a timed-out job is re-run alone before anything is concluded from it (the machine is shared and loaded)
    for i, (j, r) in enumerate(zip(jobs, res)):
        if any(run.get("class") == "timeout" for run in r["runs"].values()):
            res[i] = progs.run_jobs([dict(j, timeout=900)], par=1)[0]
    for j, r, (kind, info) in zip(jobs, res, meta):
        for v in j["variants"]:
            obs = progs.observe_js(r["runs"][v])
            if obs[1].startswith("compile-error"):
                raise RuntimeError("generated program %s does not compile: %s" % (j["id"], obs[1]))
            if obs[1] == "timeout":
                raise RuntimeError("program %s timed out twice (loaded machine?)" % j["id"])
            tie = "program-%s:%s" % (kind, v)
            if kind == "slice3":
                m1 = C.run_driver("C11", [o for _, o in info])
                exts = [a.split(" ")[0][4:] for a in m1]
                m2 = C.run_driver("C11", ["jsconv int TE %s" % e for e in exts])
                exp = [e if w == "ext" else b for (w, _), e, b in zip(info, exts, m2)]
                ops = ["slice3 %s %s" % (w, o.split(" ", 2)[2]) for w, o in info]
                lines = (obs[0] + ["<missing>"] * len(exp))[:len(exp)]
                chk.compare(tie, ops, lines, exp, kind=lambda o, a: "program:slice3:" + o.split(" ")[1])
                if obs[1] != "exit0":
                    chk.add_mismatch(tie, "slice3 ending", impl=obs[1], spec="exit0")
                continue
            if kind == "history":
                exp = info
                ops = ["guard-history line %d %s" % (i, e.split(":")[0]) for i, e in enumerate(exp)]
                lines = (obs[0] + ["<missing>"] * len(exp))[:len(exp)]
                chk.compare(tie, ops, lines, exp, kind=lambda o, a: "program:guard-history")
                if obs[1] != "exit0":
                    chk.add_mismatch(tie, "guard-history ending", impl=obs[1], spec="exit0")
                continue
            if kind in ("tags", "defer"):
                tag_results(chk, j, v, obs, kind, info)
                continue
            if kind in ("ext", "iface"):
                model = C.run_driver("C11", info)
                lines = obs[0]
                if obs[1] != "exit0" or len(lines) != len(info):
                    chk.add_mismatch(tie, json.dumps({"id": j["id"], "source": j["files"]["main.go"][:3000]}), impl=json.dumps([lines[-3:], obs[1]]),
                                     spec="%d lines, exit0" % len(info))
                    continue
                chk.compare(tie, info, lines, model, kind=lambda o, a, kind=kind: "program:" + kind)
            elif kind in ("accessors", "findings"):
                exp = ACCESSORS_EXPECT if kind == "accessors" else FINDING_EXPECT
                modelp = exp
                chk.extra[kind + "_lines"] = len(exp)
                if obs[1] != "exit0" or len(obs[0]) != len(exp):
                    chk.add_mismatch(tie, json.dumps({"id": j["id"]}), impl=json.dumps([obs[0][-4:], obs[1]]), spec="%d lines, exit0" % len(exp))
                    continue
                ops = ["%s line %d %s" % (kind, i, e.split(" ")[0]) for i, e in enumerate(exp)]
                chk.compare(tie, ops, obs[0], modelp, spec=exp, kind=lambda o, a, kind=kind: "program:" + kind)
            else:
                exp = GUARD_EXPECT[info]
                chk.add_case(tie, info, kindkey="program:guard")
                if (obs[0], obs[1]) != exp:
                    chk.add_mismatch(tie, json.dumps({"id": j["id"], "source": j["files"]["main.go"]}), impl=json.dumps([obs[0], obs[1]]),
                                     spec=json.dumps(exp))
    chk.extra["programs"] = len(jobs)



def replay(path):
    rep = json.load(open(path))
    ops = [m["op"] for m in rep.get("failing_inputs", []) if m.get("op", "").startswith("jsconv ")]
    if not ops:
        print("no prelude-level failing input recorded; broken obligations:", rep.get("broken_obligations"))
        for m in rep.get("failing_inputs", [])[:3]:
            print(json.dumps(m)[:2000])
        return 1
    impl = C.run_node(ops)
    model = C.run_driver("C11", ops)
    bad = 0
    for o, a, b in zip(ops, impl, model):
        print("%s\n  impl : %s\n  model: %s" % (o, a, b))
        bad += a != b
    return 1 if bad else 0
