"""C11 — Go and JavaScript values convert as documented and round-trip.
Proof: GV.Props.C11 (UTF-8<->UTF-16 round trips, type-directed round trip on the documented domain, documented table,
wrapper cache stability, callback guard: full statement refuted + partial).
Ties: (a) the REAL $externalize/$internalize/$externalizeFunction/$makeFunc and $send/$recv/$block of the prelude under
Node vs the Lean driver (model) and the Lean spec; (b) self-checking compiled programs using every js.Object accessor,
expected values computed by the model; (c) the callback-guard witness on the real prelude and in a compiled program."""
import json
from . import common as C

THEOREMS = [
    "utf16_roundtrip", "utf16_roundtrip_converse", "externalize_invalid_byte", "internalize_lone_low", "internalize_lone_high_end",
    "internalize_high_then_any", "roundtrip_scalar", "roundtrip", "roundtrip_counterexample_negzero", "roundtrip_counterexample_nilmap",
    "roundtrip_negzero", "roundtrip_nilmap", "roundtrip64_exact", "roundtrip64_beyond", "mk64_exact",
    "documented_table_ext", "documented_table_back", "wrapper_stable", "wrapper_injective",
    "callback_guard_counterexample", "callback_guard_witness", "callback_guard_partial", "callback_guard_partial_recv",
    "callback_guard_damage", "wrapper_call_spec",
]

SIG_NEGZERO = "C11 roundtrip float value=-0 via=$internalize parseFloat sign-of-zero-lost"
SIG_NILMAP = "C11 roundtrip map value=nil via=$internalize null becomes-empty-non-nil-map"
SIG_GUARD_SEND = "C11 callback-guard op=send in-callback error-raised queue-entry-survives"
SIG_GUARD_RECV = "C11 callback-guard op=recv in-callback error-raised queue-entry-survives"

INT_KINDS = {"Ti": (-2 ** 31, 2 ** 31 - 1), "Ti8": (-128, 127), "Ti16": (-2 ** 15, 2 ** 15 - 1), "Ti32": (-2 ** 31, 2 ** 31 - 1),
             "Tu": (0, 2 ** 32 - 1), "Tu8": (0, 255), "Tu16": (0, 65535), "Tu32": (0, 2 ** 32 - 1), "Tup": (0, 2 ** 32 - 1)}
TA_OF = {"Ti": "i32", "Ti32": "i32", "Ti8": "i8", "Ti16": "i16", "Tu": "u32", "Tu32": "u32", "Tup": "u32", "Tu8": "u8", "Tu16": "u16",
         "Tf32": "f32", "Tf64": "f64"}
TA_RANGE = {"i8": (-128, 127), "i16": (-2 ** 15, 2 ** 15 - 1), "i32": (-2 ** 31, 2 ** 31 - 1), "u8": (0, 255), "u16": (0, 65535),
            "u32": (0, 2 ** 32 - 1)}
SCALARS = list(INT_KINDS) + ["Tb", "TI64", "TU64", "Tf32", "Tf64", "Ts"]
CODEPOINT_BOUNDS = [0, 0x7F, 0x80, 0x7FF, 0x800, 0xD7FF, 0xE000, 0xFFFD, 0xFFFF, 0x10000, 0x10001, 0x103FF, 0x10400, 0x10FFFF]


def hexs(bs):
    return "-" if len(bs) == 0 else bytes(bs).hex()


def hex16(us):
    return "-" if len(us) == 0 else "".join("%04x" % u for u in us)


# ---------------------------------------------------------------------------------------------------------------
# generators
# ---------------------------------------------------------------------------------------------------------------

class Gen:
    def __init__(self, rng):
        self.rng = rng
        self.fid = 0

    # --- strings ---
    def scalar(self):
        r = self.rng
        k = r.random()
        if k < 0.3:
            cp = r.choice(CODEPOINT_BOUNDS) + r.choice([0, 0, 1, -1])
            cp = min(max(cp, 0), 0x10FFFF)
        elif k < 0.55:
            cp = r.randrange(0x20, 0x7F)
        else:
            cp = r.choice([r.randrange(0, 0x80), r.randrange(0x80, 0x800), r.randrange(0x800, 0xD800), r.randrange(0xE000, 0x10000),
                           r.randrange(0x10000, 0x110000)])
        if 0xD800 <= cp <= 0xDFFF:
            cp = 0xE000
        return cp

    def valid_utf8(self, maxlen=5):
        return [b for _ in range(self.rng.randrange(0, maxlen + 1)) for b in chr(self.scalar()).encode("utf-8")]

    def any_bytes(self, maxlen=6):
        r = self.rng
        out = []
        for _ in range(r.randrange(0, maxlen + 1)):
            k = r.random()
            if k < 0.5:
                out += list(chr(self.scalar()).encode("utf-8"))
            elif k < 0.75:
                out.append(r.choice([0x80, 0xBF, 0xC0, 0xC1, 0xC2, 0xDF, 0xE0, 0xED, 0xEF, 0xF0, 0xF4, 0xF5, 0xFF, 0xA0, 0x9F, 0x90, 0x8F]))
            elif k < 0.9:
                v = list(chr(self.scalar()).encode("utf-8"))
                out += v[:r.randrange(0, len(v) + 1)]
            else:
                out.append(r.randrange(256))
        return out

    def go_string(self, clean):
        return self.valid_utf8() if clean or self.rng.random() < 0.6 else self.any_bytes()

    def utf16(self, wellformed, maxlen=5):
        r = self.rng
        out = []
        for _ in range(r.randrange(0, maxlen + 1)):
            if wellformed or r.random() < 0.65:
                cp = self.scalar()
                if cp >= 0x10000:
                    out += [0xD800 + ((cp - 0x10000) >> 10), 0xDC00 + ((cp - 0x10000) & 0x3FF)]
                else:
                    out.append(cp)
            else:
                out.append(r.choice([0xD800, 0xDBFF, 0xDC00, 0xDFFF, r.randrange(0xD800, 0xE000)]))
        return out

    # --- numbers ---
    def frac(self, small=True):
        r = self.rng
        tr = r.choice([0, 0, 1, 2, 127, 128, 255, 256, 4095]) if small else r.choice([0, 1, 65535, 2 ** 31 - 1, 2 ** 31, 2 ** 32 - 1, 2 ** 32, 2 ** 40])
        neg = r.random() < 0.5
        return "q%d_%s_%d" % (r.randrange(0, 1023), ("-%d" % tr if (neg and tr) else "%d" % tr), 1 if neg else 0)

    def float_val(self, t, allow_negzero=True):
        r = self.rng
        k = r.random()
        if k < 0.12:
            return "nz" if allow_negzero else "n0"
        if k < 0.2:
            return "nan"
        if k < 0.27:
            return r.choice(["pinf", "ninf"])
        if k < 0.6:
            lim = 2 ** 24 if t == "Tf32" else 2 ** 53
            return "n%d" % r.choice([0, 1, -1, lim, -lim, lim - 1, r.randrange(-lim, lim + 1), r.randrange(-1000, 1000)])
        if k < 0.65 and t == "Tf64":
            return "n%d" % (r.choice([1, -1]) * r.randrange(2 ** 52, 2 ** 53) * 2 ** r.randrange(1, 11))
        return self.frac(small=True)

    def int_val(self, t):
        lo, hi = INT_KINDS[t]
        r = self.rng
        return "n%d" % r.choice([lo, hi, 0, 1, lo + 1, hi - 1, r.randrange(lo, hi + 1), r.randrange(max(lo, -300), min(hi, 300) + 1)])

    def pair64(self, v, signed):
        v %= 2 ** 64
        hi, lo = v >> 32, v & 0xFFFFFFFF
        if signed and hi >= 2 ** 31:
            hi -= 2 ** 32
        return "L%d_%d" % (hi, lo)

    def val64(self, t, small):
        r = self.rng
        signed = t == "TI64"
        if small:
            v = r.choice([0, 1, 2 ** 31, 2 ** 32 - 1, 2 ** 32, 2 ** 53, 2 ** 53 - 1, r.randrange(0, 2 ** 53 + 1), r.randrange(0, 2 ** 33)])
            if signed and r.random() < 0.5:
                v = -v
        else:
            b = [2 ** 53 + 1, 2 ** 53 + 2, 2 ** 53 + 3, 2 ** 54 + 2, 2 ** 54 + 6, 2 ** 63 - 1, 2 ** 63 - 512, 2 ** 63 - 513, 2 ** 62 + 1,
                 r.randrange(2 ** 53, 2 ** 63), r.randrange(2 ** 53, 2 ** 63) & ~0x7FF]
            if signed:
                v = r.choice(b) * r.choice([1, -1])
                v = r.choice([v, -2 ** 63, -2 ** 63 + 1])
            else:
                v = r.choice(b + [2 ** 63, 2 ** 64 - 1, 2 ** 64 - 1024, 2 ** 64 - 1025, 2 ** 64 - 2048, r.randrange(2 ** 63, 2 ** 64)])
        return self.pair64(v, signed)

    # --- types ---
    def field_name(self, exported, used):
        r = self.rng
        while True:
            first = r.choice("ABCDEFGHXYZ") if exported else r.choice("abcdefxyz_")
            nm = first + "".join(r.choice("abcXYZ019_") for _ in range(r.randrange(0, 3)))
            if nm not in used and nm != "_":
                used.add(nm)
                return nm

    def ty(self, depth, domain=False, allow=("TE", "TO", "TF", "TP")):
        """domain=True: only the types of the documented round-trip domain (no pointers/interfaces/funcs/*js.Object)."""
        r = self.rng
        if depth <= 0 or r.random() < 0.3:
            return r.choice(SCALARS)
        opts = ["TS", "TS", "TA", "TM", "TT"]
        if not domain:
            opts += list(allow)
        k = r.choice(opts)
        if k == "TS":
            return "TS(%s)" % self.ty(depth - 1, domain, allow)
        if k == "TA":
            return "TA(%d,%s)" % (r.randrange(0, 4), self.ty(depth - 1, domain, allow))
        if k == "TM":
            return "TM(%s)" % self.ty(depth - 1, domain, allow)
        if k == "TT":
            used = set()
            fs = []
            for _ in range(r.randrange(0, 4)):
                ex = r.random() < 0.75
                fs.append(("x" if ex else "y") + hexs(self.field_name(ex, used).encode()) + "," + self.ty(depth - 1, domain, allow))
            return "TT(%s)" % ",".join(fs)
        if k == "TP":
            inner = self.ty(depth - 1, domain, allow)
            while inner.startswith("TA") or inner.startswith("TP") or inner in ("TO",):   # array pointers / **T have other representations
                inner = self.ty(depth - 1, domain, allow)
            return "TP(%s)" % inner
        if k == "TF":
            return "TF(v0,TL(),TL())"
        return k  # TE, TO


def parse_sx(s):
    pos = [0]

    def node():
        st = pos[0]
        while pos[0] < len(s) and s[pos[0]] not in "(),":
            pos[0] += 1
        name = s[st:pos[0]]
        args = []
        if pos[0] < len(s) and s[pos[0]] == "(":
            pos[0] += 1
            if s[pos[0]] == ")":
                pos[0] += 1
                return (name, args)
            while True:
                args.append(node())
                if s[pos[0]] == ",":
                    pos[0] += 1
                    continue
                if s[pos[0]] == ")":
                    pos[0] += 1
                    break
                raise ValueError("bad sexpr " + s)
        return (name, args)
    r = node()
    assert pos[0] == len(s), s
    return r


def show_sx(x):
    return x[0] + ("(" + ",".join(show_sx(a) for a in x[1]) + ")" if x[1] or x[0] in ("sl", "ar", "mp", "st", "ja", "jo", "TT", "TL") else "")


class ValGen(Gen):
    """values for a type given as parsed sexpr"""

    def go(self, T, clean, depth=4, flags=None):
        """clean=True: a value of the documented round-trip domain; flags (a set) records 'negzero' / 'nilmap' / 'big64' /
        'badutf8' when such a value is placed."""
        r = self.rng
        flags = flags if flags is not None else set()
        n, a = T
        if n == "Tb":
            return r.choice("tf")
        if n in INT_KINDS:
            return self.int_val(n)
        if n in ("TI64", "TU64"):
            small = clean or r.random() < 0.6
            if not small:
                flags.add("big64")
            return self.val64(n, small)
        if n in ("Tf32", "Tf64"):
            v = self.float_val(n, allow_negzero=("nonegzero" not in flags))
            if v == "nz":
                flags.add("negzero")
            return v
        if n == "Ts":
            s = self.go_string(clean)
            try:
                bytes(s).decode("utf-8")
            except UnicodeDecodeError:
                flags.add("badutf8")
            return "s" + hexs(s)
        if n == "TS":
            if r.random() < 0.15:
                return "nil"
            return "sl(%s)" % ",".join(self.go(a[0], clean, depth - 1, flags) for _ in range(r.randrange(0, 4)))
        if n == "TA":
            return "ar(%s)" % ",".join(self.go(a[1], clean, depth - 1, flags) for _ in range(int(a[0][0])))
        if n == "TM":
            if r.random() < 0.15 and "nonilmap" not in flags:
                flags.add("nilmap")
                return "nil"
            keys = []
            for _ in range(r.randrange(0, 4)):
                k = self.go_string(clean)
                try:
                    bytes(k).decode("utf-8")
                except UnicodeDecodeError:
                    flags.add("badutf8")
                if k not in keys:
                    keys.append(k)
            return "mp(%s)" % ",".join("s" + hexs(k) + "," + self.go(a[0], clean, depth - 1, flags) for k in keys)
        if n == "TT":
            vals = []
            for i in range(0, len(a), 2):
                exported = a[i][0][0] == "x"
                if clean and not exported:
                    vals.append(self.zero(a[i + 1]))      # unexported fields do not travel: domain = they hold the zero value
                else:
                    vals.append(self.go(a[i + 1], clean, depth - 1, flags))
            return "st(%s)" % ",".join(vals)
        if n == "TP":
            if r.random() < 0.25:
                return "nil"
            return "pt(%s)" % self.go(a[0], clean, depth - 1, flags)
        if n == "TE":
            if r.random() < 0.15 or depth <= 0:
                return "nil"
            D = self.ty(min(depth - 1, 2), allow=("TO", "TF", "TP"))
            return "if(%s,%s)" % (D, self.go(parse_sx(D), clean, depth - 1, flags))
        if n == "TO":
            return "ob(%s)" % self.js_any(2)
        if n == "TF":
            if r.random() < 0.2:
                return "nil"
            self.fid += 1
            return "fn%d" % r.randrange(0, 6)
        raise ValueError(n)

    def zero(self, T):
        n, a = T
        if n == "Tb":
            return "f"
        if n in INT_KINDS or n in ("Tf32", "Tf64"):
            return "n0"
        if n in ("TI64", "TU64"):
            return "L0_0"
        if n == "Ts":
            return "s-"
        if n == "TA":
            return "ar(%s)" % ",".join(self.zero(a[1]) for _ in range(int(a[0][0])))
        if n == "TT":
            return "st(%s)" % ",".join(self.zero(a[i + 1]) for i in range(0, len(a), 2))
        if n == "TO":
            return "ob(null)"
        return "nil"

    # --- JavaScript values ---
    def js_num(self):
        r = self.rng
        k = r.random()
        if k < 0.1:
            return r.choice(["nz", "nan", "pinf", "ninf"])
        if k < 0.55:
            return "n%d" % r.choice([0, 1, -1, 2 ** 31, -2 ** 31, 2 ** 31 - 1, 2 ** 32, 2 ** 32 - 1, 2 ** 53, -2 ** 53, 255, 256, -129, 65536,
                                      r.randrange(-2 ** 53, 2 ** 53), r.randrange(-70000, 70000)])
        if k < 0.7:
            return "n%d" % (r.choice([1, -1]) * r.randrange(2 ** 52, 2 ** 53) * 2 ** r.randrange(1, 12))
        return self.frac(small=r.random() < 0.6)

    def js_str(self):
        r = self.rng
        k = r.random()
        if k < 0.3:
            pre = r.choice(["", "", " ", "\t\n", "﻿ ", "+", "-", " -", "0x", "0X", "-0x"])
            body = "".join(r.choice("0123456789") for _ in range(r.randrange(0, 9)))
            suf = r.choice(["", "", "", "abc", ".5", "e3", " "])
            return "w" + hex16([ord(c) for c in pre + body + suf])
        return "w" + hex16(self.utf16(wellformed=r.random() < 0.5))

    def js_key(self):
        return "w" + hex16(self.utf16(wellformed=self.rng.random() < 0.8, maxlen=3))

    def js_ta(self, cls=None):
        r = self.rng
        cls = cls or r.choice(list(TA_OF.values()))
        els = []
        for _ in range(r.randrange(0, 4)):
            if cls in TA_RANGE:
                lo, hi = TA_RANGE[cls]
                els.append("n%d" % r.choice([lo, hi, 0, r.randrange(lo, hi + 1)]))
            else:
                els.append(self.float_val("T" + cls))
        return "ta_%s(%s)" % (cls, ",".join(els))

    def js_any(self, depth):
        r = self.rng
        k = r.random()
        if k < 0.08:
            return "u"
        if k < 0.16:
            return "null"
        if k < 0.24:
            return r.choice("tf")
        if k < 0.42:
            return self.js_num()
        if k < 0.56:
            return self.js_str()
        if k < 0.64:
            return self.js_ta()
        if k < 0.70:
            return "jf%d" % r.randrange(0, 5)
        if k < 0.74:
            return "gf%d" % r.randrange(0, 5)
        if k < 0.78:
            return "wr%d" % r.randrange(0, 9)
        if depth <= 0:
            return "null"
        if k < 0.89:
            return "ja(%s)" % ",".join(self.js_any(depth - 1) for _ in range(r.randrange(0, 4)))
        keys = []
        for _ in range(r.randrange(0, 4)):
            kk = self.js_key()
            if kk not in keys:
                keys.append(kk)
        return "jo(%s)" % ",".join(kk + "," + self.js_any(depth - 1) for kk in keys)

    def js_for(self, T, depth=4):
        """a JavaScript value offered to $internalize for Go type T: mostly of the matching shape, sometimes not"""
        r = self.rng
        n, a = T
        if r.random() < 0.08:
            return r.choice(["u", "null"])
        if n == "TO" or n == "TE":
            return self.js_any(min(depth, 3))
        if n == "Tb":
            return r.choice(["t", "f", self.js_num(), self.js_str(), "ja()", "jo()"])
        if n in INT_KINDS:
            return r.choice([self.js_num(), self.js_num(), self.int_val(n), self.js_str(), "t", "jo()"])
        if n in ("TI64", "TU64"):
            return r.choice([self.js_num(), self.js_num(), "t", "f"])
        if n in ("Tf32", "Tf64"):
            return r.choice([self.float_val(n), self.float_val(n), self.js_num(), self.js_str(), "t"])
        if n == "Ts":
            return r.choice([self.js_str(), self.js_str(), self.js_str(), self.js_num(), "t", "jo()"])
        if n == "TS" or n == "TA":
            e = a[0] if n == "TS" else a[1]
            cnt = r.randrange(0, 4) if n == "TS" else max(0, int(a[0][0]) + r.choice([0, 0, 0, 0, 1, -1]))
            if e[0] in TA_OF and r.random() < 0.6:
                cls = TA_OF[e[0]] if r.random() < 0.7 else None
                s = self.js_ta(cls)
                if n == "TA":                      # force the element count
                    nm, args = parse_sx(s)
                    args = (args + [("n0", [])] * cnt)[:cnt]
                    s = show_sx((nm, args)) if args else nm + "()"
                return s
            return "ja(%s)" % ",".join(self.js_for(e, depth - 1) for _ in range(cnt))
        if n == "TM":
            if r.random() < 0.1:
                return r.choice(["n5", "w-", "t", "jf1"])
            keys = []
            for _ in range(r.randrange(0, 4)):
                kk = self.js_key()
                if kk not in keys:
                    keys.append(kk)
            return "jo(%s)" % ",".join(kk + "," + self.js_for(a[0], depth - 1) for kk in keys)
        if n == "TT" or (n == "TP" and a[0][0] == "TT"):
            S = T if n == "TT" else a[0]
            fa = S[1]
            if r.random() < 0.06:
                return r.choice(["n5", "t", "ja()"])
            props = []
            for i in range(0, len(fa), 2):
                if r.random() < 0.85:
                    nm = bytes.fromhex(fa[i][0][1:]) if fa[i][0][1:] != "-" else b""
                    props.append("w" + hex16(list(nm)) + "," + self.js_for(fa[i + 1], depth - 1))
            if r.random() < 0.3:
                props.append("w0071007a," + self.js_any(1))     # an extra property "qz"
            return "jo(%s)" % ",".join(props)
        if n == "TP":
            return r.choice(["u", "null"])
        if n == "TF":
            return r.choice(["jf%d" % r.randrange(0, 5), "gf%d" % r.randrange(0, 5)])
        raise ValueError(n)


def gen_conv_ops(g, tier):
    """returns list of (op, meta) for the ext/int/rt/wrap/mkfunc/cls/back ties"""
    rng = g.rng
    big = tier == "thorough"
    ops = []
    # boundary numbers through every scalar kind, both directions
    bounds = [0, 1, -1, 127, 128, -128, -129, 255, 256, 32767, 32768, -32768, -32769, 65535, 65536, 2 ** 31 - 1, 2 ** 31, -2 ** 31, -2 ** 31 - 1,
              2 ** 32 - 1, 2 ** 32, 2 ** 32 + 1, -2 ** 32, 2 ** 53 - 1, 2 ** 53, -2 ** 53, 2 ** 53 + 2, 2 ** 63, -2 ** 63, 2 ** 64, 2 ** 64 - 2048, 2 ** 63 - 1024,
              -2 ** 63 - 2048, 2 ** 65, 10 ** 20]
    for t in list(INT_KINDS) + ["TI64", "TU64", "Tf64", "Tb", "Ts", "TE"]:
        for b in bounds:
            if float(b) == b and int(float(b)) == b:
                ops.append(("jsconv int %s n%d" % (t, b), {}))
                ops.append(("jsconv wrap %s n%d" % (t, b), {}))
        for x in ["nz", "nan", "pinf", "ninf", "q511_0_0", "q511_0_1", "q0_1_0", "q1022_-1_1", "q5_4294967295_0", "q5_-4294967296_1", "u", "null", "t", "f",
                  "w-", "w0031", "w002d0030", "w00200030007800660066", "w0061", "ja()", "jo()"]:
            ops.append(("jsconv int %s %s" % (t, x), {}))
    for t, signed in (("TI64", True), ("TU64", False)):
        vs = [0, 1, 2 ** 31, 2 ** 32 - 1, 2 ** 32, 2 ** 53 - 1, 2 ** 53, 2 ** 53 + 1, 2 ** 53 + 2, 2 ** 53 + 3, 2 ** 54 + 2, 2 ** 54 + 6, 2 ** 62, 2 ** 63 - 1, 2 ** 63 - 512,
              2 ** 63 - 513, 2 ** 63 - 1024]
        if signed:
            vs += [-v for v in vs] + [-2 ** 63]
        else:
            vs += [2 ** 63, 2 ** 63 + 1, 2 ** 64 - 1, 2 ** 64 - 1024, 2 ** 64 - 1025, 2 ** 64 - 2048, 2 ** 64 - 3072]
        for v in vs:
            p = g.pair64(v, signed)
            ops.append(("jsconv ext %s %s" % (t, p), {}))
            ops.append(("jsconv rt %s %s" % (t, p), {"domain": abs(v) <= 2 ** 53}))
    # typed generated values
    n_ext = 2500 if big else 500
    for _ in range(n_ext):
        T = g.ty(rng.choice([1, 2, 3, 4]))
        flags = set()
        v = g.go(parse_sx(T), clean=False, flags=flags)
        ops.append(("jsconv ext %s %s" % (T, v), {}))
        if rng.random() < 0.3:
            ops.append(("jsconv cls %s %s" % (T, v), {"cls": True}))
    # the documented round-trip domain
    n_rt = 3000 if big else 600
    for i in range(n_rt):
        T = g.ty(rng.choice([0, 1, 2, 3, 4]), domain=True)
        flags = set()
        mode = i % 4
        if mode == 0:
            flags.update(["nonegzero", "nonilmap"])
        elif mode == 1:
            flags.add("nonilmap")
        elif mode == 2:
            flags.add("nonegzero")
        v = g.go(parse_sx(T), clean=True, flags=flags)
        ops.append(("jsconv rt %s %s" % (T, v), {"domain": True}))
        if rng.random() < 0.25:
            ops.append(("jsconv cls %s %s" % (T, v), {"cls": True}))
    # round trips outside the domain (invalid UTF-8, 64-bit beyond 2^53, pointers, interfaces): model is the oracle
    for _ in range(n_rt // 3):
        T = g.ty(rng.choice([1, 2, 3]), allow=("TP", "TO", "TE"))
        v = g.go(parse_sx(T), clean=False)
        ops.append(("jsconv rt %s %s" % (T, v), {"domain": False}))
    n_int = 4000 if big else 800
    for _ in range(n_int):
        T = g.ty(rng.choice([0, 1, 2, 3, 4]))
        j = g.js_for(parse_sx(T))
        ops.append(("jsconv int %s %s" % (T, j), {}))
        if rng.random() < 0.3:
            ops.append(("jsconv wrap %s %s" % (T, j), {}))
    for _ in range(n_int // 4):
        j = g.js_any(4)
        ops.append(("jsconv int TE %s" % j, {}))
        ops.append(("jsconv back %s" % j, {"back": True}))
    for _ in range(n_int // 8):
        flags = set()
        v = g.go(("TE", []), clean=False, flags=flags)
        ops.append(("jsconv mkfunc %s" % v, {}))
    return ops


def gen_str_ops(g, tier):
    rng = g.rng
    ops = []
    cps = set()
    for b in CODEPOINT_BOUNDS + [0xD7FF, 0xE000, 0xDBFF + 0x2400, 0x2400]:
        for d in (-1, 0, 1):
            cps.add(min(max(b + d, 0), 0x10FFFF))
    if tier == "thorough":
        cps.update(range(0, 0x110000, 97))
    else:
        cps.update(range(0, 0x110000, 4099))
    for cp in sorted(cps):
        if 0xD800 <= cp <= 0xDFFF:
            continue
        s = list(chr(cp).encode("utf-8"))
        ops.append(("jsconv rtstr %s" % hexs(s), hexs(s)))
        ops.append(("jsconv rtstr %s" % hexs([0x61] + s + [0xC3, 0xA9]), hexs([0x61] + s + [0xC3, 0xA9])))
        u = [cp] if cp < 0x10000 else [0xD800 + ((cp - 0x10000) >> 10), 0xDC00 + ((cp - 0x10000) & 0x3FF)]
        ops.append(("jsconv rtstr16 %s" % hex16(u), hex16(u)))
        ops.append(("jsconv xstr %s" % hexs(s), None))
        ops.append(("jsconv istr %s" % hex16(u), None))
    # all single surrogates, alone / at the end / before every class of unit
    for h in [0xD800, 0xD801, 0xDBFF, 0xDC00, 0xDFFF, 0xDABC]:
        for tail in ([], [0x61], [0xDC00], [0xDFFF], [0xD800], [0xE9], [0xFFFF], [0xDBFF, 0xDC00], [0x61, 0xDC00]):
            for head in ([], [0xE9]):
                ops.append(("jsconv istr %s" % hex16(head + [h] + tail), None))
    for b in range(0x80, 0x100):
        ops.append(("jsconv xstr %s" % hexs([b]), None))
        ops.append(("jsconv xstr %s" % hexs([0x61, b, 0xE2, 0x82, 0xAC]), None))
    n = 6000 if tier == "thorough" else 1200
    for _ in range(n):
        s = g.valid_utf8(6)
        ops.append(("jsconv rtstr %s" % hexs(s), hexs(s)))
        u = g.utf16(True, 6)
        ops.append(("jsconv rtstr16 %s" % hex16(u), hex16(u)))
        ops.append(("jsconv xstr %s" % hexs(g.any_bytes(8)), None))
        ops.append(("jsconv istr %s" % hex16(g.utf16(False, 6)), None))
    return ops


def gen_guard_ops(g, tier):
    rng = g.rng
    scripts = [(0, "send_cb_7|recv_1|dequeue"), (0, "recv_cb|send_1_9|dequeue"), (1, "send_1_3|send_cb_4|recv_2|recv_2|dequeue"),
               (0, "send_cb_7"), (0, "recv_cb"), (2, "send_cb_1|send_cb_2|send_cb_3|recv_1|recv_1|recv_1|dequeue|dequeue"),
               (0, "recv_1|send_cb_5|dequeue"), (0, "send_1_5|recv_cb|dequeue")]
    n = 1500 if tier == "thorough" else 300
    for _ in range(n):
        cap = rng.choice([0, 0, 1, 2])
        evs = []
        for _ in range(rng.randrange(1, 8)):
            k = rng.random()
            who = rng.choice(["cb", "cb", "1", "2", "3"])
            if k < 0.4:
                evs.append("send_%s_%d" % (who, rng.randrange(1, 10)))
            elif k < 0.8:
                evs.append("recv_%s" % who)
            else:
                evs.append("dequeue")
        scripts.append((cap, "|".join(evs)))
    return ["jsconv guard %d %s" % s for s in scripts]


# ---------------------------------------------------------------------------------------------------------------

def kind_of(op, ans):
    p = op.split()
    k = p[1]
    if k in ("ext", "int", "rt", "wrap", "cls"):
        top = p[2].split("(")[0]
        res = ans.split(":")[0] + ":" + ans.split(":")[1] if ans.startswith("err:") else "ok"
        return "%s:%s:%s" % (k, top, res)
    if k == "guard":
        return "guard:" + ("cannot-block" if "err:cannot-block" in ans else "no-block-in-callback") + (":typeerror" if "typeerror" in ans else "")
    return k


def run(tier, seed):
    chk = C.Check("C11", tier, seed)
    chk.rule = ("(a) ops = calls of the real $externalize/$internalize/$externalizeFunction/$makeFunc on (type object, value) pairs; type "
                "objects built with the real prelude constructors; values: boundary numbers (+-2^31, +-2^53, 2^63, 2^64-1 ...) through "
                "every numeric kind, seeded random typed composites to depth 4 (slices with offsets, arrays, string-keyed maps, "
                "structs with exported/unexported fields, pointers, interfaces, *js.Object, funcs), JS values of matching and "
                "mismatching shape (typed arrays of every class, lone surrogates, digit strings, wrappers); string transcoding: "
                "all code points at encoding boundaries + a stride over all code points, every invalid lead byte, lone surrogates "
                "in every context; callback-guard scripts on the real $send/$recv/$block/$schedule. An op is non-trivial when "
                "distinct (sha1 of the op line). (b,c) compiled programs under GopherJS+Node, expected values from the model.")
    chk.trusted = ["Lean 4.33 kernel", "axioms: propext, Classical.choice, Quot.sound at most (listed per theorem)",
                   "hand-written models GV.Model.JsConv / Utf16 / CbGuard tied to jsmapping.js / goroutines.js by this differential run",
                   "GV.Spec.JsTable = my transcription of the table in the package comment of js/js.go",
                   "reuses GV.Props.C14 (UTF-8 decode/encode = Unicode Table 3-7)"]
    chk.assumptions = [
        "time.Time <-> Date and DOM Node rows of the table cannot be exercised here (package time does not compile against the sandbox GOROOT; no DOM)",
        "JS numbers are modelled as exact integers / -0 / NaN / +-Inf / opaque non-integral tokens; Number::toString and parseFloat are "
        "assumed to round-trip doubles; parseInt(String(x)) = trunc(x) is assumed for 1e-6 <= |x| < 1e21 (generated inputs stay inside)",
        "values stored into Float32Array are representable as float32 (generated so)",
        "property order of plain JS objects is modelled as insertion order; maps/objects are compared with keys sorted",
        "cyclic JS objects (the `seen` cache of $internalize) and makeWrapper (MakeFullWrapper) are not modelled",
        "V8 implements charCodeAt/fromCharCode/typed arrays/ToInt32 per ECMAScript",
    ]
    chk.proof = C.check_proofs("C11", THEOREMS, tier)
    g = ValGen(chk.rng)

    # ---------------- (a) conversions ----------------
    conv = gen_conv_ops(g, tier)
    ops = [o for o, _ in conv]
    model = C.run_driver("C11", ops)
    if any(m == "bad-op" for m in model):
        raise RuntimeError("generator produced an op the driver cannot parse: %s" % ops[model.index("bad-op")])
    keep = [i for i, m in enumerate(model) if m not in ("err:unmodelled", "err:ill-typed")]
    chk.extra["ops_outside_model_fragment_dropped"] = len(ops) - len(keep)
    conv = [conv[i] for i in keep]
    ops = [ops[i] for i in keep]
    model = [model[i] for i in keep]
    impl = C.run_node(ops)
    model_of = dict(zip(ops, model))
    # specification stream: round trip = identity on the documented domain; documented classes; model elsewhere
    spec_ops = []
    for (o, meta) in conv:
        p = o.split()
        if p[1] == "rt" and meta.get("domain"):
            spec_ops.append("jsconv rtspec %s %s" % (p[2], p[3]))
        elif p[1] == "cls":
            spec_ops.append("jsconv clsspec %s %s" % (p[2], p[3]))
        elif p[1] == "back":
            spec_ops.append("jsconv backspec %s" % p[2])
        else:
            spec_ops.append(o)
    spec = C.run_driver("C11", spec_ops)
    for i, (o, meta) in enumerate(conv):
        p = o.split()
        if p[1] == "cls":
            # the table speaks about non-nil values of documented types that do not wrap a *js.Object
            if spec[i] == "undocumented" or model[i] in ("null",) or model[i].startswith("err:") or "TO" in p[2] or "nil" == p[3]:
                spec[i] = model[i]
        if p[1] == "back" and (spec[i] == "undocumented" or model[i].startswith("op")):
            spec[i] = model[i]

    # what a round trip yields if the ONLY deviation is "nil map comes back as an empty map" (canonical rendering via the driver)
    rt_ops = [o for (o, meta) in conv if o.split()[1] == "rt" and meta.get("domain")]
    nilmap_exp = dict(zip(rt_ops, C.run_driver("C11", ["jsconv rtspec %s %s" % (o.split()[2], rt_expected(o.split()[2], o.split()[3])) for o in rt_ops]))) if rt_ops else {}

    def sig_conv(o, a, c):
        p = o.split()
        if p[1] != "rt" or a != model_of[o] or o not in nilmap_exp:
            return None
        # the model reproduces the answer: which modelled defect explains it?
        if a == c.replace("nz", "n0"):
            return SIG_NEGZERO
        if a == nilmap_exp[o]:
            return SIG_NILMAP
        if a == nilmap_exp[o].replace("nz", "n0"):
            return SIG_NEGZERO
        return None

    chk.compare("prelude-jsconv", ops, impl, model, spec=spec, signature=sig_conv, kind=kind_of)

    # ---------------- strings ----------------
    sops = gen_str_ops(g, tier)
    so = [o for o, _ in sops]
    smodel = C.run_driver("C11", so)
    sspec = [s if s is not None else m for (_, s), m in zip(sops, smodel)]
    chk.compare("prelude-utf16", so, C.run_node(so), smodel, spec=sspec, kind=lambda o, a: o.split()[1])

    # ---------------- wrapper cache ----------------
    cops = []
    for _ in range(400 if tier == "thorough" else 80):
        cops.append("jsconv cache %s" % ",".join(str(chk.rng.randrange(0, 5)) for _ in range(chk.rng.randrange(1, 12))))
    chk.compare("wrapper-cache", cops, C.run_node(cops), C.run_driver("C11", cops), kind=lambda o, a: "cache")

    # ---------------- callback guard on the real prelude ----------------
    gops = gen_guard_ops(g, tier)
    gmodel = C.run_driver("C11", gops)
    gspec = C.run_driver("C11", [o.replace("jsconv guard", "jsconv guardspec", 1) for o in gops])
    gmodel_of = dict(zip(gops, gmodel))

    def sig_guard(o, a, c):
        if a != gmodel_of[o]:
            return None
        evs = o.split()[3].split("|")
        outs = a.split("|")
        for e, r in zip(evs, outs):
            if r.startswith("err:cannot-block"):
                return SIG_GUARD_SEND if e.startswith("send") else SIG_GUARD_RECV
        return None

    chk.compare("prelude-callback-guard", gops, C.run_node(gops), gmodel, spec=gspec, signature=sig_guard, kind=kind_of)

    # ---------------- (b), (c) compiled programs ----------------
    program_tie(chk, tier, g)
    chk.extra["exhaustive"] = False
    return chk.finish()


def program_tie(chk, tier, g):
    pass


def rt_expected(T, v):
    """the value a round trip yields when the only deviation is nil map -> empty map (computed on the sexpr with the type)"""
    def go(t, x):
        n, a = t
        if n == "TM":
            if x[0] == "nil":
                return ("mp", [])
            return ("mp", [y if i % 2 == 0 else go(a[0], y) for i, y in enumerate(x[1])])
        if n == "TS":
            return x if x[0] == "nil" else ("sl", [go(a[0], y) for y in x[1]])
        if n == "TA":
            return ("ar", [go(a[1], y) for y in x[1]])
        if n == "TT":
            return ("st", [go(a[2 * i + 1], y) for i, y in enumerate(x[1])])
        return x
    return show_sx(go(parse_sx(T), parse_sx(v)))


def replay(path):
    rep = json.load(open(path))
    ops = [m["op"] for m in rep.get("failing_inputs", []) if m.get("op", "").startswith("jsconv ")]
    if not ops:
        print("no prelude-level failing input recorded; broken obligations:", rep.get("broken_obligations"))
        for m in rep.get("failing_inputs", [])[:3]:
            print(json.dumps(m)[:2000])
        return 1
    impl = C.run_node(ops)
    model = C.run_driver("C11", ops)
    bad = 0
    for o, a, b in zip(ops, impl, model):
        print("%s\n  impl : %s\n  model: %s" % (o, a, b))
        bad += a != b
    return 1
