"""C03 — channels, select and the goroutine scheduler follow Go semantics.

Proof: GV.Props.C03 — invariants of the Lean transcription (GV.Model.Chan / GV.Model.Sched) of
compiler/prelude/goroutines.js over ARBITRARY event sequences (queue shape, FIFO conservation, close, wake-up
bookkeeping, awake counter, select choice, nil channels), with proved counterexamples for the two defects of the
unchanged tree.
Tie (primitive level): the REAL prelude under Node (harness/js/topics/chan.js: scripted goroutines in the compiler's
$blk protocol; Math.random / Date.now / timers under harness control) against the Lean driver, state dump after every
event; a third stream asks the Go-level specification (GV.Spec.GoChan) whether each step is allowed.
Tie (program level): generated Go programs through the real compiler under Node vs native Go vs the model."""
import itertools
import json

from . import common as C

THEOREMS = [
    "chan_shape", "chan_shape_design_counterexample", "fifo_conservation", "scan_ready_sound", "pick_in_range",
    "select_choice_ready", "scan_default", "select_default", "close_semantics", "closed_later_ops",
    "recv_delivers_queued_value", "send_value_snapshot", "nil_never_proceeds", "no_lost_wakeup", "wake_removes_all_entries", "blocked_not_possible", "awake_count",
    "deadlock_report_iff",
]

SIG_SELECT_SEND = "C03 close chan=open blocked=select-send-case closer-panics-send-on-closed selector-not-woken"
SIG_CLOSE_NIL = "C03 close chan=nil no-panic marks-$chanNil-closed"

WITNESS_SELECT_SEND = "go|mk_0|go|sel_0_s1:5,r0|next|close_1|exit"
WITNESS_CLOSE_NIL = "go|close_0|recv_0|exit"


# ------------------------------------------------------------------------------------------------
# running scripts
# ------------------------------------------------------------------------------------------------

def ev_line(e, topic="ev"):
    return "chan %s %s" % (topic, e.replace("_", " "))


def run_model(scripts, topic="ev"):
    """-> list (per script) of answer lines (per event)"""
    lines = []
    for s in scripts:
        lines.append("chan reset")
        lines += [ev_line(e, topic) for e in s]
    out = C.run_driver("C03", lines)
    res, k = [], 0
    for s in scripts:
        assert out[k] == "reset", out[k]
        res.append(out[k + 1:k + 1 + len(s)])
        k += 1 + len(s)
    return res


def run_impl(scripts):
    ops = ["chan script " + "|".join(s) for s in scripts]
    out = C.run_node(ops)
    res = []
    for s, o in zip(scripts, out):
        if o.startswith("runner-error") or o.startswith("bad-"):
            raise RuntimeError("node chan harness failed on %s: %s" % ("|".join(s), o))
        parts = o.split("|")
        if len(parts) != len(s):
            raise RuntimeError("node chan harness: %d answers for %d events" % (len(parts), len(s)))
        res.append(parts)
    return res


def parse_dump(line):
    """'obs k=v k=v ...' -> dict"""
    f = line.split(" ")
    d = {"obs": f[0]}
    for kv in f[1:]:
        k, v = kv.split("=", 1)
        d[k] = v
    d["chs"] = [] if d["ch"] == "-" else [c.split("/") for c in d["ch"].split(";")]
    d["gs"] = [] if d["g"] == "-" else d["g"].split(",")
    d["tm"] = [] if d["timers"] == "-" else [t.split(":") for t in d["timers"].split(",")]
    return d


# ------------------------------------------------------------------------------------------------
# generation (model guided: the next event is drawn from the events that make sense in the control state the
# model is in after the prefix; a small fraction is drawn blindly so that ignored events are exercised too)
# ------------------------------------------------------------------------------------------------

def rand_case(rng, nch, val):
    c = rng.randrange(0, nch) if rng.random() < 0.12 else rng.randrange(1, nch) if nch > 1 else 0
    return "r%d" % c if rng.random() < 0.5 else "s%d:%d" % (c, val)


def choose(rng, d, nsend, maxg, maxch, blind=0.04):
    """next event given the parsed dump d of the state"""
    nch, ng = len(d["chs"]), len(d["gs"])
    val = nsend + 1

    def anychan():
        if nch > 1 and rng.random() > 0.08:
            return rng.randrange(1, nch)
        return rng.randrange(0, nch)
    gor_ops = []
    if True:
        k = rng.random()
        if nch < 2 or (nch <= maxch and k < 0.10):
            gor_ops = ["mk_%d" % rng.choice([0, 0, 1, 1, 2, 3])]
        elif ng < maxg and k < 0.22:
            gor_ops = ["go"]
        elif k < 0.42:
            gor_ops = ["send_%d_%d" % (anychan(), val)]
        elif k < 0.62:
            gor_ops = ["recv_%d" % anychan()]
        elif k < 0.70:
            gor_ops = ["close_%d" % anychan()]
        elif k < 0.88:
            n = rng.choice([1, 2, 2, 3, 3, 4])
            cs = [rand_case(rng, nch, val + i) for i in range(n)]
            if rng.random() < 0.3:
                cs.insert(rng.randrange(0, len(cs) + 1), "d")
            if rng.random() < 0.04:
                cs = [] if rng.random() < 0.5 else ["d"]
            gor_ops = ["sel_%d_%s" % (rng.randrange(0, 12), ",".join(cs) if cs else "-")]
        elif k < 0.92:
            gor_ops = ["after_%d" % anychan()]
        elif k < 0.97:
            gor_ops = ["exit"]
        else:
            gor_ops = ["main"]
    if rng.random() < blind:
        return rng.choice(gor_ops + ["next", "tick", "fire_%d" % rng.randrange(0, 6), "go", "send_%d_%d" % (nch + 1, val)])
    if d["cur"] != "-":
        return gor_ops[0]
    if d["loop"] == "1":
        return "next" if rng.random() < 0.85 else "tick"
    # top level
    if d["tm"] and rng.random() < 0.9:
        return "fire_%s" % rng.choice(d["tm"])[0]
    if ng < maxg:
        return "go"
    if d["tm"]:
        return "fire_%s" % rng.choice(d["tm"])[0]
    return None


def count_sends(script):
    n = 0
    for e in script:
        if e.startswith("send_"):
            n += 1
        elif e.startswith("sel_"):
            n += e.count("s")
    return n


def gen_random(rng, n, length, maxg, maxch):
    scripts = [["go"] for _ in range(n)]
    live = list(range(n))
    for _ in range(length):
        if not live:
            break
        outs = run_model([scripts[i] for i in live])
        nxt = []
        for i, o in zip(live, outs):
            d = parse_dump(o[-1])
            e = choose(rng, d, count_sends(scripts[i]), maxg, maxch)
            if e is None:
                continue
            scripts[i].append(e)
            nxt.append(i)
        live = nxt
    return scripts


def gen_exhaustive(ngor, caps, depth, limit):
    """Breadth-first enumeration of every event sequence (up to `depth` choice points) of `ngor` goroutines over
    channels with the capacities `caps` (+ the nil channel), with every select resolution; scheduler steps without
    a choice (`next`) are taken automatically and `tick` is offered as the alternative. States are not merged."""
    prefix = ["go"] + ["mk_%d" % c for c in caps] + ["go"] * (ngor - 1)
    nch = 1 + len(caps)
    chans = list(range(1, nch))
    menu_sel = []
    for c1 in chans:
        menu_sel += [["r%d" % c1, "d"], ["s%d:V" % c1, "d"]]
        for c2 in chans:
            menu_sel += [["r%d" % c1, "s%d:V" % c2], ["s%d:V" % c1, "r%d" % c2]]
            if c1 < c2:
                menu_sel += [["r%d" % c1, "r%d" % c2], ["s%d:V" % c1, "s%d:W" % c2]]
    menu_sel.append(["r0", "s0:V"])
    frontier = [prefix]
    done = []
    full_depth = [None]
    for level in range(depth):
        if not frontier:
            break
        outs = run_model(frontier)
        nxt = []
        for sc, o in zip(frontier, outs):
            d = parse_dump(o[-1])
            v = count_sends(sc) + 1
            if d["cur"] != "-":
                opts = []
                for c in chans:
                    opts += ["send_%d_%d" % (c, v), "recv_%d" % c, "close_%d" % c]
                opts += ["recv_0", "exit"]
                for cs in menu_sel:
                    body = ",".join(cs).replace("V", str(v)).replace("W", str(v + 1))
                    # every resolution of Math.random that can matter for <= 2 ready cases
                    for pick in ((0,) if "d" in cs else (0, 11)):
                        opts.append("sel_%d_%s" % (pick, body))
            elif d["loop"] == "1":
                opts = ["next"]
            else:
                opts = ["fire_%s" % t[0] for t in d["tm"]]
            if not opts:
                done.append(sc)
                continue
            for e in opts:
                nxt.append(sc + [e])
        # scheduler-only steps do not count as choice points: they are extended again without using depth
        if len(nxt) > limit:
            # beyond the limit the level is sampled with a fixed stride (the prefix levels stay exhaustive)
            if full_depth[0] is None:
                full_depth[0] = level
            step = len(nxt) / float(limit)
            nxt = [nxt[int(i * step)] for i in range(limit)]
        frontier = nxt
    return done + frontier, (full_depth[0] if full_depth[0] is not None else depth)


# ------------------------------------------------------------------------------------------------
# classification
# ------------------------------------------------------------------------------------------------

def kind(op, ans):
    sc, i = op.rsplit("@", 1)
    e = sc.split("|")[int(i)]
    return "%s:%s" % (e.split("_")[0], ans.split(" ")[0].split(":")[0] if not ans.startswith("SPEC") else "spec-disallows")


def signature(op, impl, spec):
    sc, i = op.rsplit("@", 1)
    evs = sc.split("|")
    e = evs[int(i)].split("_")
    obs = impl.split(" ")[0]
    if spec.startswith("SPEC:"):
        reason = spec[5:]
        if e[0] in ("close", "fire") and reason == "close-nil-must-panic" and obs != "panic:close-closed":
            return SIG_CLOSE_NIL
        if e[0] in ("close", "fire") and reason == "close-open-must-not-panic" and obs == "panic:send-closed":
            return SIG_SELECT_SEND
        return "C03 %s %s impl=%s" % (e[0], reason, obs)
    return "C03 %s impl=%s spec=%s" % (e[0], obs, spec.split(" ")[0])


def tie_scripts(chk, tie, scripts):
    if not scripts:
        return
    impl = run_impl(scripts)
    model = run_model(scripts, "ev")
    spec = run_model(scripts, "spec")
    ops, a, b, c = [], [], [], []
    for s, x, y, z in zip(scripts, impl, model, spec):
        j = "|".join(s)
        for i in range(len(s)):
            ops.append("%s@%d" % (j, i))
        a += x
        b += y
        c += z
    chk.compare(tie, ops, a, b, spec=c, signature=signature, kind=kind,
                nontrivial=lambda o, ans: not ans.startswith("invalid"))


# ------------------------------------------------------------------------------------------------

def run(tier, seed):
    chk = C.Check("C03", tier, seed)
    thorough = tier == "thorough"
    chk.rule = ("primitive level: event scripts (goroutine op / scheduler step / timer firing per event, select picks explicit) "
                "executed by the REAL goroutines.js+types.js under Node through scripted goroutines that follow the compiler's "
                "$blk protocol, and by the Lean model; after EVERY event the full observable state (per channel capacity, buffer "
                "contents, queue lengths, closed; $scheduled as goroutine ids; $awakeGoroutines/$totalGoroutines/$mainFinished, "
                "deadlock reports, pending timers, per-goroutine asleep/exit flags, the acting goroutine's observation) is diffed; "
                "a third stream is the verdict of the Go-level LTS GV.Spec.GoChan on the same step. Scripts are generated "
                "model-guided (next event drawn from those meaningful in the current control state, 4% blind). An event is "
                "non-trivial when it is not ignored (`invalid`).")
    chk.trusted = ["Lean 4.33 kernel", "axioms: propext, Classical.choice, Quot.sound at most (listed per theorem)",
                   "hand-written model GV.Model.Chan/Sched tied to goroutines.js by this differential run",
                   "GV.Spec.GoChan = my reading of the Go specification (channels, select, close)",
                   "harness/js/topics/chan.js scripted goroutine = the frame shape emitted by the compiler (checked against compiled programs by the program-level tie)"]
    chk.notes.append("round 2: the model mirrors goroutines.js WITH fixes/C03-select-send-close.patch and fixes/C03-close-nil.patch applied")
    chk.assumptions = ["channel values are defined JS values (a `undefined` *js.Object element would be taken for an empty buffer by $recv)",
                       "$checkForDeadlock stays true and $exportedFunctions stays 0 (no Go function handed to JavaScript)",
                       "a timer callback closing a channel with >= 2 blocked goroutines (nested $runScheduled inside $close) is not modelled; the event is ignored on both sides",
                       "panics are observed and the goroutine continues (as if recovered by a deferred function)"]
    import time
    t0 = time.time()
    timing = chk.extra.setdefault("phase_seconds", {})

    import resource
    cpu = chk.extra.setdefault("phase_cpu_seconds_cumulative", {})

    def phase(name):
        timing[name] = round(time.time() - t0, 1)
        r1, r2 = resource.getrusage(resource.RUSAGE_CHILDREN), resource.getrusage(resource.RUSAGE_SELF)
        cpu[name] = round(r1.ru_utime + r1.ru_stime + r2.ru_utime + r2.ru_stime, 1)
        C.log("[C03] %s done at %.1fs wall, %.1fs cpu" % (name, time.time() - t0, cpu[name]))
    chk.proof = C.check_proofs("C03", THEOREMS, tier)
    phase("proofs")
    if not chk.proof.build_ok:
        return chk.finish()

    rng = chk.rng
    # 1. witnesses of the recorded defects, replayed against the real code
    tie_scripts(chk, "prelude-chan-witness", [WITNESS_SELECT_SEND.split("|"), WITNESS_CLOSE_NIL.split("|")])
    # 2. random scripts
    n = 2500 if thorough else 400
    scripts = gen_random(rng, n, 60 if thorough else 40, maxg=rng.choice([3, 4, 6, 8]), maxch=4)
    scripts += gen_random(rng, n // 4, 40, maxg=3, maxch=2)
    phase("random-generation")
    tie_scripts(chk, "prelude-chan-random", scripts)
    phase("random-tie")
    chk.extra["random_scripts"] = len(scripts)
    chk.extra["random_events"] = sum(len(s) for s in scripts)
    # 3. exhaustive small scripts
    ex = []
    exinfo = []
    if thorough:
        plan = [(2, [0], 12, 30000), (2, [1], 12, 30000), (2, [2], 11, 30000), (3, [0], 11, 30000),
                (2, [0, 1], 10, 25000), (3, [0, 2], 9, 20000), (3, [1, 0], 9, 20000)]
    else:
        plan = [(2, [0], 9, 2500), (2, [1], 9, 2500), (3, [0, 1], 8, 2000)]
    for ngor, caps, depth, limit in plan:
        e, fd = gen_exhaustive(ngor, caps, depth, limit)
        ex += e
        exinfo.append({"goroutines": ngor, "caps": caps, "depth": depth, "exhaustive_to_depth": fd, "scripts": len(e)})
    chk.extra["exhaustive_plan"] = exinfo
    phase("exhaustive-generation")
    tie_scripts(chk, "prelude-chan-exhaustive", ex)
    phase("exhaustive-tie")
    chk.extra["exhaustive_scripts"] = len(ex)
    chk.extra["exhaustive"] = False
    chk.extra["exhaustive_subspace"] = ("every event sequence (breadth-first, no state merging, up to the listed depth/limit) of 2-3 goroutines over "
                                        "1-2 channels with capacities in {0,1,2} plus the nil channel: send/recv/close/select(2 cases incl. default, both "
                                        "random resolutions)/exit, scheduler steps forced")
    # 4. program level
    run_programs(chk, tier, rng)
    phase("programs")
    return chk.finish()


# ------------------------------------------------------------------------------------------------
# program level
# ------------------------------------------------------------------------------------------------

GO_HEAD = "package main\n\n"


def render_op(g, op, chname):
    f = op.split("_")
    if f[0] == "send":
        return "\t%s <- %s\n" % (chname(int(f[1])), f[2])
    if f[0] == "recv":
        return "\t{\n\t\tv, ok := <-%s\n\t\tprintln(\"r\", %d, v, ok)\n\t}\n" % (chname(int(f[1])), g)
    if f[0] == "close":
        return "\tclose(%s)\n" % chname(int(f[1]))
    if f[0] == "sel":
        out = "\tselect {\n"
        for i, k in enumerate(f[2].split(",")):
            if k == "d":
                out += "\tdefault:\n\t\tprintln(\"s\", %d, %d)\n" % (g, i)
            elif k[0] == "r":
                out += "\tcase v, ok := <-%s:\n\t\tprintln(\"s\", %d, %d, v, ok)\n" % (chname(int(k[1:])), g, i)
            else:
                c, v = k[1:].split(":")
                out += "\tcase %s <- %s:\n\t\tprintln(\"s\", %d, %d)\n" % (chname(int(c)), v, g, i)
        return out + "\t}\n"
    raise ValueError(op)


def gen_scripted_program(rng, pid):
    """A random program whose goroutines are straight-line lists of channel operations. GopherJS's schedule is
    deterministic (FIFO run queue, no time-slice break in a few microseconds), so the model predicts the exact output."""
    ngor = rng.choice([2, 2, 3, 3, 4])
    caps = [rng.choice([0, 0, 1, 2]) for _ in range(rng.choice([1, 2, 2, 3]))]
    nch = 1 + len(caps)
    done = nch            # index of the done channel
    val = [0]

    def anyc():
        return rng.randrange(1, nch) if rng.random() > 0.06 else 0

    def rop():
        k = rng.random()
        val[0] += 1
        if k < 0.38:
            return "send_%d_%d" % (anyc(), val[0])
        if k < 0.76:
            return "recv_%d" % anyc()
        if k < 0.82:
            return "close_%d" % rng.randrange(1, nch)
        c = rng.randrange(1, nch)
        one = "r%d" % c if rng.random() < 0.5 else "s%d:%d" % (c, val[0])
        other = rng.choice(["d", "r0", "s0:%d" % (val[0] + 100)])
        cs = [one, other] if rng.random() < 0.5 else [other, one]
        return "sel_0_%s" % ",".join(cs)
    progs = {}
    for g in range(ngor):
        progs[g] = [rop() for _ in range(rng.randrange(1, 6))]
    return {"id": pid, "ngor": ngor, "caps": caps, "progs": progs, "done": done}


def scripted_source(P):
    nch = 1 + len(P["caps"])

    def chname(c):
        return "cn" if c == 0 else ("done" if c == P["done"] else "c%d" % c)
    src = GO_HEAD
    params = ", ".join(["cn chan int"] + ["c%d chan int" % i for i in range(1, nch)] + ["done chan int"])
    args = ", ".join(["cn"] + ["c%d" % i for i in range(1, nch)] + ["done"])
    for g in range(1, P["ngor"]):
        src += "func g%d(%s) {\n" % (g, params)
        for op in P["progs"][g]:
            src += render_op(g, op, chname)
        src += "\tdone <- %d\n}\n\n" % g
    src += "func main() {\n\tvar cn chan int\n"
    for i, cap in enumerate(P["caps"]):
        src += "\tc%d := make(chan int, %d)\n" % (i + 1, cap)
    src += "\tdone := make(chan int, %d)\n" % P["ngor"]
    for g in range(1, P["ngor"]):
        src += "\tgo g%d(%s)\n" % (g, args)
    for op in P["progs"][0]:
        src += render_op(0, op, chname)
    for g in range(1, P["ngor"]):
        src += "\t<-done\n"
    src += "\t_ = cn\n}\n"
    return src


def model_predict(Ps):
    """Drive the Lean model through each scripted program under the runtime's own (deterministic) schedule.
    Returns per program (trace, ending, script, uses_known_defect)."""
    st = []
    for P in Ps:
        full = {}
        for g in range(P["ngor"]):
            ops = [(o, True) for o in P["progs"][g]]
            if g == 0:
                pre = [("mk_%d" % c, False) for c in P["caps"]] + [("mk_%d" % P["ngor"], False)] + [("go", False)] * (P["ngor"] - 1)
                ops = pre + ops + [("recv_%d" % P["done"], False)] * (P["ngor"] - 1) + [("main", False), ("exit", False)]
            else:
                ops = ops + [("send_%d_%d" % (P["done"], g), False), ("exit", False)]
            full[g] = ops
        st.append({"P": P, "ops": full, "pc": {g: 0 for g in full}, "script": ["go"], "actors": [None], "vis": [False],
                   "live": True, "ending": None, "blockedvis": {}})
    for _ in range(400):
        live = [x for x in st if x["live"]]
        if not live:
            break
        outs = run_model([x["script"] for x in live], "spec")
        for x, o in zip(live, outs):
            last = o[-1]
            if last.startswith("SPEC:"):
                x["live"] = False
                x["ending"] = "known-defect"
                continue
            d = parse_dump(last)
            if d["obs"].startswith("run:") and d["obs"].endswith(":panic:send-closed"):
                # a goroutine resumed into the panic of its blocked send: uncaught, the program ends here
                x["live"] = False
                x["ending"] = "panic:send on closed channel"
                x["answers"] = o
                continue
            if d["obs"].startswith("panic:"):
                x["live"] = False
                x["ending"] = {"panic:send-closed": "panic:send on closed channel", "panic:close-closed": "panic:close of closed channel"}.get(d["obs"], d["obs"])
                x["answers"] = o
                continue
            if int(d["dead"]) > 0:
                x["live"] = False
                x["ending"] = "deadlock"
                x["answers"] = o
                continue
            if d["cur"] != "-":
                g = int(d["cur"])
                if x["pc"][g] >= len(x["ops"][g]):
                    raise RuntimeError("scripted program ran past its end")
                op, vis = x["ops"][g][x["pc"][g]]
                x["pc"][g] += 1
                x["script"].append(op)
                x["actors"].append(g)
                x["vis"].append(vis)
            elif d["loop"] == "1":
                x["script"].append("next")
                x["actors"].append(None)
                x["vis"].append(False)
            else:
                x["live"] = False
                x["ending"] = "exit0"
                x["answers"] = o
    res = []
    for x in st:
        if x["live"]:
            raise RuntimeError("scripted program did not terminate in the model")
        if x["ending"] == "known-defect":
            res.append((None, "known-defect", x["script"]))
            continue
        trace = []
        pend = {}     # goroutine -> visible? for its blocked op
        for e, a, vis, ans in zip(x["script"], x["actors"], x["vis"], x["answers"]):
            obs = ans.split(" ")[0]
            f = obs.split(":")
            if a is not None:
                if obs == "blocked":
                    pend[a] = vis
                elif vis and f[0] == "recv":
                    trace.append("r %d %s %s" % (a, f[1], "true" if f[2] == "1" else "false"))
                elif vis and f[0] == "sel":
                    trace.append("s %d %s" % (a, f[1]) + (" %s %s" % (f[2], "true" if f[3] == "1" else "false") if len(f) > 2 else ""))
            elif f[0] == "run":
                g = int(f[1])
                if pend.pop(g, False):
                    if f[2] == "recv":
                        trace.append("r %d %s %s" % (g, f[3], "true" if f[4] == "1" else "false"))
                    elif f[2] == "sel":
                        trace.append("s %d %s" % (g, f[3]) + (" %s %s" % (f[4], "true" if f[5] == "1" else "false") if len(f) > 4 else ""))
                if f[2] == "panic":
                    pass
        res.append((trace, x["ending"], x["script"]))
    return res


def norm_end(e):
    return e.replace("panic:runtime error: ", "panic:")


DET_TEMPLATES = []


def tmpl_pipeline(rng):
    k = rng.randrange(1, 4)
    n = rng.randrange(1, 7)
    caps = [rng.choice([0, 1, 2, 3]) for _ in range(k + 1)]
    adds = [rng.randrange(1, 9) for _ in range(k)]
    src = GO_HEAD + "func stage(in, out chan int, add int) {\n\tfor v := range in {\n\t\tout <- v + add\n\t}\n\tclose(out)\n}\n\nfunc main() {\n"
    for i, c in enumerate(caps):
        src += "\tc%d := make(chan int, %d)\n" % (i, c)
    for i in range(k):
        src += "\tgo stage(c%d, c%d, %d)\n" % (i, i + 1, adds[i])
    src += "\tgo func() {\n\t\tfor i := 1; i <= %d; i++ {\n\t\t\tc0 <- i\n\t\t}\n\t\tclose(c0)\n\t}()\n" % n
    src += "\tfor v := range c%d {\n\t\tprintln(\"out\", v)\n\t}\n\tv, ok := <-c%d\n\tprintln(\"after\", v, ok)\n}\n" % (k, k)
    return "pipeline", src


def tmpl_fanin(rng):
    w = rng.randrange(1, 5)
    per = rng.randrange(1, 5)
    cap = rng.choice([0, 1, 2, 8])
    src = GO_HEAD + "func main() {\n\tc := make(chan int, %d)\n\tvar never chan int\n" % cap
    src += "\tfor w := 0; w < %d; w++ {\n\t\tgo func(w int) {\n\t\t\tfor i := 0; i < %d; i++ {\n\t\t\t\tselect {\n\t\t\t\tcase c <- w*100 + i:\n\t\t\t\tcase <-never:\n\t\t\t\t\tprintln(\"nil fired\")\n\t\t\t\t}\n\t\t\t}\n\t\t}(w)\n\t}\n" % (w, per)
    src += "\tsum, n := 0, 0\n\tfor n < %d {\n\t\tsum += <-c\n\t\tn++\n\t}\n\tprintln(\"sum\", sum, n)\n" % (w * per)
    src += "\tselect {\n\tcase v := <-c:\n\t\tprintln(\"extra\", v)\n\tdefault:\n\t\tprintln(\"empty\")\n\t}\n}\n"
    return "fanin", src


def tmpl_deadlock(rng):
    cap = rng.choice([0, 1, 2])
    n = rng.randrange(0, 3)
    kind = rng.choice(["recv", "send", "nilrecv", "nilsend", "select"])
    src = GO_HEAD + "func main() {\n\tc := make(chan int, %d)\n\tvar nc chan int\n\tdone := make(chan bool)\n" % cap
    src += "\tgo func() {\n\t\tfor i := 0; i < %d; i++ {\n\t\t\tprintln(\"got\", <-c)\n\t\t}\n\t\tdone <- true\n\t}()\n" % n
    src += "\tfor i := 0; i < %d; i++ {\n\t\tc <- i\n\t}\n\t<-done\n\tprintln(\"before\")\n" % n
    src += {"recv": "\t<-c\n", "send": "\tfor {\n\t\tc <- 1\n\t}\n", "nilrecv": "\t<-nc\n", "nilsend": "\tnc <- 1\n",
            "select": "\tselect {\n\tcase <-nc:\n\tcase nc <- 1:\n\tcase <-c:\n\t}\n"}[kind]
    src += "\tprintln(\"unreachable\")\n\t_ = nc\n}\n"
    return "deadlock:" + kind, src


def tmpl_close(rng):
    cap = rng.choice([0, 1, 3])
    nrecv = rng.randrange(1, 4)
    kind = rng.choice(["wake-receivers", "send-after-close", "close-twice", "blocked-sender", "drain"])
    src = GO_HEAD + "func main() {\n\tc := make(chan int, %d)\n\tdone := make(chan int, 8)\n" % cap
    if kind == "wake-receivers":
        src += "\tfor i := 0; i < %d; i++ {\n\t\tgo func(i int) {\n\t\t\tv, ok := <-c\n\t\t\tif v != 0 || ok {\n\t\t\t\tprintln(\"bad\")\n\t\t\t}\n\t\t\tdone <- 1\n\t\t}(i)\n\t}\n" % nrecv
        src += "\tgo func() { done <- 0 }()\n\t<-done\n\tclose(c)\n\tn := 0\n\tfor i := 0; i < %d; i++ {\n\t\tn += <-done\n\t}\n\tprintln(\"woken\", n)\n}\n" % nrecv
    elif kind == "send-after-close":
        src += "\tclose(c)\n\tdefer func() { println(\"deferred\") }()\n\tc <- 1\n\tprintln(\"unreachable\")\n\t_ = done\n}\n"
    elif kind == "close-twice":
        src += "\tclose(c)\n\tclose(c)\n\tprintln(\"unreachable\")\n\t_ = done\n}\n"
    elif kind == "blocked-sender":
        src += "\tfor i := 0; i < %d; i++ {\n\t\tc <- i\n\t}\n" % cap
        src += "\tgo func() {\n\t\tdefer func() {\n\t\t\tprintln(\"sender recovered\", recover() != nil)\n\t\t\tdone <- 1\n\t\t}()\n\t\tc <- 99\n\t\tprintln(\"unreachable\")\n\t}()\n"
        src += "\tgo func() { done <- 0 }()\n\t<-done\n\tclose(c)\n\tprintln(\"closer ok\")\n\t<-done\n\tfor v := range c {\n\t\tprintln(\"drain\", v)\n\t}\n}\n"
    else:
        src += "\tfor i := 0; i < %d; i++ {\n\t\tc <- i + 1\n\t}\n\tclose(c)\n\tfor i := 0; i < %d; i++ {\n\t\tv, ok := <-c\n\t\tprintln(v, ok)\n\t}\n\t_ = done\n}\n" % (cap, cap + 2)
    return "close:" + kind, src


# ------------------------------------------------------------------------------------------------
# value snapshot: a sent struct / array value is a copy — later writes of the sender must not show at the receiver
# ------------------------------------------------------------------------------------------------

# element types GopherJS represents by reference: (name, Go declaration, leaf paths)
SNAP_TYPES = [
    ("S", "struct {\n\ta, b int\n}", [".a", ".b"]),
    ("A", "[3]int", ["[0]", "[1]", "[2]"]),
    ("N", "struct {\n\tid int\n\tin struct{ x, y int }\n}", [".id", ".in.x", ".in.y"]),
    ("SA", "struct {\n\tseq  int\n\tbody [2]int\n}", [".seq", ".body[0]", ".body[1]"]),
    ("AS", "[2]struct{ p, q int }", ["[0].p", "[0].q", "[1].p", "[1].q"]),
    ("NN", "struct {\n\thd SA0\n\ttl [2]S0\n}", [".hd.seq", ".hd.body[1]", ".tl[0].a", ".tl[1].b"]),
]
# send statement forms (ch = target channel, nc = nil channel of the same type, never = chan int nobody sends on)
SNAP_SENDS = {
    "plain": "\t%(i)sch <- m\n",
    "select1": "\t%(i)sselect {\n\t%(i)scase ch <- m:\n\t%(i)s}\n",
    "select-default": "\t%(i)sselect {\n\t%(i)scase ch <- m:\n\t%(i)sdefault:\n\t%(i)s\tprintln(\"default\")\n\t%(i)s}\n",
    "select-nil-send-first": "\t%(i)sselect {\n\t%(i)scase nc <- m:\n\t%(i)s\tprintln(\"nil fired\")\n\t%(i)scase ch <- m:\n\t%(i)s}\n",
    "select-recv-alt": "\t%(i)sselect {\n\t%(i)scase ch <- m:\n\t%(i)scase <-never:\n\t%(i)s\tprintln(\"never fired\")\n\t%(i)s}\n",
    "select-two-sends-one-full": "\t%(i)sselect {\n\t%(i)scase full <- m:\n\t%(i)s\tprintln(\"full fired\")\n\t%(i)scase ch <- m:\n\t%(i)s}\n",
}


def snap_set(var, leaves, base, ind="\t"):
    return "".join("%s%s%s = %d\n" % (ind, var, l, base + j) for j, l in enumerate(leaves))


def snap_print(tag, var, leaves, ind="\t"):
    return "%sprintln(%s)\n" % (ind, ", ".join(['"%s"' % tag] + [var + l for l in leaves]))


def gen_snapshot_scenario(rng, idx, force=None):
    """One deterministic scenario `func snapN()`. Returns (descr, source)."""
    tname, _, leaves = rng.choice(SNAP_TYPES)
    T = tname + "0"
    form = rng.choice(list(SNAP_SENDS)) if force is None else force
    kind = rng.choice(["reuse-buffered", "rendezvous-receiver-first", "rendezvous-sender-first", "full-buffer-blocked"])
    if form == "plain" and rng.random() < 0.7:
        form = rng.choice([f for f in SNAP_SENDS if f != "plain"])
    # deterministic by construction in Go too: a select with default may only be used where the send is surely ready
    if form == "select-default" and kind == "full-buffer-blocked":
        kind = "reuse-buffered"
    decl = "\tvar nc chan %s\n\tnever := make(chan int)\n\tfull := make(chan %s, 1)\n\tfull <- %s{}\n\t_, _, _ = nc, never, full\n" % (T, T, T)
    src = "func snap%d() {\n" % idx
    if kind == "reuse-buffered":
        n = rng.randrange(2, 6)
        src += "\tch := make(chan %s, %d)\n%s\tvar m %s\n\tfor i := 0; i < %d; i++ {\n" % (T, n, decl, T, n)
        src += "".join("\t\tm%s = 10*i + %d\n" % (l, j) for j, l in enumerate(leaves))
        src += SNAP_SENDS[form] % {"i": "\t"}
        src += "\t}\n" + snap_set("m", leaves, 900) + "\tclose(ch)\n\tfor v := range ch {\n" + snap_print("got", "v", leaves, "\t\t") + "\t}\n"
    elif kind in ("rendezvous-receiver-first", "rendezvous-sender-first"):
        cap = 1 if form == "select-default" else rng.choice([0, 0, 1])
        src += "\tch := make(chan %s, %d)\n%s\tack := make(chan bool)\n\tafter := make(chan int)\n\tstarted := make(chan bool, 1)\n" % (T, cap, decl)
        src += "\tgo func() {\n\t\tvar m %s\n" % T + snap_set("m", leaves, 1, "\t\t") + "\t\tstarted <- true\n"
        src += SNAP_SENDS[form] % {"i": "\t"}
        src += snap_set("m", leaves, 900, "\t\t") + "\t\t<-ack\n\t\tafter <- m%s\n\t}()\n" % leaves[0]
        if kind == "rendezvous-sender-first":
            src += "\t<-started\n\tfor i := 0; i < 3; i++ {\n\t\tyield()\n\t}\n"
        src += "\tgot := <-ch\n\tack <- true\n\tsender := <-after\n" + snap_print("got", "got", leaves) + "\tprintln(\"sender\", sender)\n"
    else:  # the buffer is full: the select-send blocks, the receiver takes the old value first
        src += "\tch := make(chan %s, 1)\n%s\tdone := make(chan bool)\n\tvar old %s\n" % (T, decl, T)
        src += snap_set("old", leaves, 500) + "\tch <- old\n" + snap_set("old", leaves, 700)
        src += "\tgo func() {\n\t\tvar m %s\n" % T + snap_set("m", leaves, 1, "\t\t")
        src += SNAP_SENDS[form] % {"i": "\t"}
        src += snap_set("m", leaves, 900, "\t\t") + "\t\tdone <- true\n\t}()\n"
        src += "\tfor i := 0; i < 3; i++ {\n\t\tyield()\n\t}\n\tfirst := <-ch\n\t<-done\n\tsecond := <-ch\n"
        src += snap_print("first", "first", leaves) + snap_print("second", "second", leaves)
    src += "}\n"
    return "%s type=%s send=%s" % (kind, tname, form), src


def snapshot_program(scens):
    src = GO_HEAD
    for tname, decl, _ in SNAP_TYPES:
        src += "type %s0 %s\n\n" % (tname, decl)
    # yield: let other goroutines run without the time package (a buffered round trip through a helper goroutine)
    src += "func yield() {\n\tc := make(chan bool)\n\tgo func() { c <- true }()\n\t<-c\n}\n\n"
    for _, body in scens:
        src += body + "\n"
    src += "func main() {\n" + "".join("\tprintln(\"==\", %d)\n\tsnap%d()\n" % (i, i) for i in range(len(scens))) + "}\n"
    return src


def split_sections(trace):
    secs, cur = {}, None
    for l in trace:
        if l.startswith("== "):
            cur = int(l[3:])
            secs[cur] = []
        elif cur is not None:
            secs[cur].append(l)
    return secs


SEND_CALL = None


def send_sites(js, fn_prefix="snap"):
    """Structure tie over the emitted JavaScript of a snapshot program (all its channels carry struct/array elements):
    the value operand of every `$send(ch, v)` call and of every send case `[ch, v]` in a `$select([...])` literal.
    Returns list of (kind, value text)."""
    import re
    sites = []
    for m in re.finditer(r"\$send\((\w+), ", js):
        if m.group(1) in ("chan", "c"):      # the prelude's own definitions / yield()'s chan bool
            continue
        sites.append(("send", js[m.end():m.end() + 40]))
    for m in re.finditer(r"\$select\(\[", js):
        depth, i = 1, m.end()
        start = i
        while depth > 0 and i < len(js):
            ch = js[i]
            if ch == "[":
                if depth == 1:
                    start = i
                depth += 1
            elif ch == "]":
                depth -= 1
                if depth == 1:
                    inner = js[start + 1:i]
                    if "," in inner:                       # [chan, value] = a send case
                        sites.append(("select", inner.split(",", 1)[1].strip()[:40]))
            i += 1
    return sites



DEFECT_SELECT_SEND = GO_HEAD + """func main() {
	c := make(chan int)
	d := make(chan int)
	step := make(chan int)
	go func() {
		defer func() { println("selector recovered", recover() != nil); step <- 2 }()
		step <- 1
		select {
		case c <- 1:
			println("sent")
		case <-d:
			println("d")
		}
	}()
	<-step
	go func() { step <- 0 }()
	<-step
	func() {
		defer func() { println("closer recovered", recover() != nil) }()
		close(c)
		println("closed ok")
	}()
	<-step
}
"""

DEFECT_CLOSE_NIL = GO_HEAD + """func main() {
	var n chan int
	defer func() { println("recovered", recover() != nil) }()
	close(n)
	println("after close nil")
}
"""

GO_EXPECTED = {
    "defect1": (["closed ok", "closer recovered false", "selector recovered true"], "exit0"),
    "defect2": (["recovered true"], "exit0"),
}

NONDET_SELECT = GO_HEAD + """func main() {
	a := make(chan int, 1)
	b := make(chan int, 1)
	a <- 1
	b <- 2
	for i := 0; i < 2; i++ {
		select {
		case v := <-a:
			println("a", v)
		case v := <-b:
			println("b", v)
		}
	}
}
"""


def run_programs(chk, tier, rng):
    from . import progs
    thorough = tier == "thorough"
    jobs = []
    # (a) scripted programs: GopherJS under Node vs the model's prediction
    Ps = [gen_scripted_program(rng, "s%d" % i) for i in range(250 if thorough else 24)]
    pred = model_predict(Ps)
    keep = []
    for P, (trace, ending, script) in zip(Ps, pred):
        if ending == "known-defect":
            chk.count("prog:scripted:skipped-known-defect")
            continue
        keep.append((P, trace, ending, script))
        jobs.append({"id": P["id"], "files": {"main.go": scripted_source(P)}, "variants": ["plain"], "native": False, "timeout": 20})
    # (b) deterministic-by-construction programs: GopherJS vs native Go. Scenarios that end normally are batched
    #     ten to a program (one native build per batch); scenarios ending in deadlock / panic are programs of their own.
    det = []
    n_ok, n_abn = (60, 20) if thorough else (10, 2)
    oks, abns = [], []
    while len(oks) < n_ok or len(abns) < n_abn:
        name, src = rng.choice([tmpl_pipeline, tmpl_fanin, tmpl_deadlock, tmpl_close])(rng)
        normal = name in ("pipeline", "fanin", "close:wake-receivers", "close:blocked-sender", "close:drain")
        if normal and len(oks) < n_ok:
            oks.append((name, src))
        elif not normal and len(abns) < n_abn:
            abns.append((name, src))
    for b0 in range(0, len(oks), 10):
        group = oks[b0:b0 + 10]
        body = GO_HEAD
        for i, (name, src) in enumerate(group):
            body += src.replace(GO_HEAD, "").replace("func main()", "func scenario%d()" % i).replace("stage(", "stage%d(" % i) + "\n"
        body += "func main() {\n" + "".join("\tprintln(\"==\", %d)\n\tscenario%d()\n" % (i, i) for i in range(len(group))) + "}\n"
        det.append(("batch[" + ",".join(n for n, _ in group) + "]", body))
    det += abns
    for i, (name, src) in enumerate(det):
        jobs.append({"id": "d%d" % i, "files": {"main.go": src}, "variants": ["plain"], "native": True, "timeout": 20})
    # (b2) value-snapshot scenarios: struct / array elements sent through select cases, the sender writes afterwards
    snaps = []
    n_snap_prog, per = (8, 12) if thorough else (1, 14)
    forms = list(SNAP_SENDS)
    for pi in range(n_snap_prog):
        scens = [gen_snapshot_scenario(rng, i, force=forms[i % len(forms)] if i < len(forms) else None) for i in range(per)]
        snaps.append(scens)
        jobs.append({"id": "snap%d" % pi, "files": {"main.go": snapshot_program(scens)}, "variants": ["plain"], "native": True,
                     "timeout": 20, "keep_js": True})
    # (c) the recorded defects as programs, (d) a nondeterministic select
    # (fixed programs: their native Go output is a constant, re-validated against the Go toolchain in the thorough tier)
    jobs.append({"id": "defect1", "files": {"main.go": DEFECT_SELECT_SEND}, "variants": ["plain"], "native": thorough})
    jobs.append({"id": "defect2", "files": {"main.go": DEFECT_CLOSE_NIL}, "variants": ["plain"], "native": thorough})
    jobs.append({"id": "nondet", "files": {"main.go": NONDET_SELECT}, "variants": ["plain"], "native": thorough})
    res = {r["id"]: r for r in progs.run_jobs(jobs)}
    # a run that hit the wall-clock limit on a loaded machine is repeated alone with a generous limit
    for attempt in range(2):
        slow = [j for j in jobs if any(x.get("class") == "timeout" for x in res[j["id"]]["runs"].values())]
        if not slow:
            break
        chk.count("prog:rerun-after-timeout", len(slow))
        for j in slow:
            j["timeout"] = 120
        for r in progs.run_jobs(slow, par=2):
            res[r["id"]] = r
    for P, trace, ending, script in keep:
        r = res[P["id"]]["runs"]["plain"]
        t, e = progs.observe_js(r)
        e = norm_end(e)
        if e.startswith("compile-error"):
            raise RuntimeError("scripted program does not compile: %s\n%s" % (e, scripted_source(P)))
        op = "prog:scripted:" + "|".join(script)
        chk.add_case("prog-scripted", op, kindkey="prog:scripted:" + ending.split(" ")[0],
                     sample={"tie": "prog-scripted", "op": op[:300], "impl": "%s / %s" % (t[:6], e), "model": "%s / %s" % (trace[:6], ending)})
        if (t, e) != (trace, ending):
            src = scripted_source(P)
            chk.add_tie_break("prog-scripted", op + "\n" + src, "%s / %s" % (t, e), "%s / %s" % (trace, ending))
    for i, (name, src) in enumerate(det):
        runs = res["d%d" % i]["runs"]
        nat = progs.observe_native(runs["native"])
        nat = (nat[0], norm_end(nat[1]))
        if nat[1].startswith("compile-error"):
            raise RuntimeError("template program does not compile natively: %s\n%s" % (nat[1], src))
        for v in runs:
            if v == "native":
                continue
            js = progs.observe_js(runs[v])
            js = (js[0], norm_end(js[1]))
            op = "prog:%s:%s\n%s" % (name, v, src)
            for part in (name[6:-1].split(",") if name.startswith("batch[") else [name]):
                chk.add_case("prog-det", op + part, kindkey="prog:" + part + ":" + nat[1].split(" ")[0][:40])
            if js != nat:
                chk.add_mismatch("prog-det", op, "%s / %s" % js, "%s / %s" % nat, signature="C03 program %s impl=%s go=%s" % (name, js[1], nat[1]))
    # value snapshot: per scenario GopherJS vs Go; structure tie over the emitted JS
    nsites = 0
    for pi, scens in enumerate(snaps):
        runs = res["snap%d" % pi]["runs"]
        src = snapshot_program(scens)
        nat = progs.observe_native(runs["native"])
        js = progs.observe_js(runs["plain"])
        if nat[1] != "exit0":
            raise RuntimeError("snapshot program fails natively: %s\n%s" % (nat, src))
        sn, sj = split_sections(nat[0]), split_sections(js[0])
        for i, (descr, body) in enumerate(scens):
            op = "prog:snapshot:%s\n%s" % (descr, body)
            chk.add_case("prog-snapshot", op, kindkey="prog:snapshot:" + descr.split(" ")[0] + ":" + descr.split("send=")[1])
            if sj.get(i) != sn.get(i):
                chk.add_mismatch("prog-snapshot", op + "\n(full program: scenario %d of snap%d)" % (i, pi),
                                 "%s / %s" % (sj.get(i), js[1]), "%s / exit0" % (sn.get(i),),
                                 signature="C03 program value-snapshot %s receiver-sees-later-sender-writes-or-differs" % descr)
        if norm_end(js[1]) != "exit0" and all(sj.get(i) == sn.get(i) for i in range(len(scens))):
            chk.add_mismatch("prog-snapshot", "prog:snapshot:ending\n" + src, "%s" % (js[1],), "exit0",
                             signature="C03 program value-snapshot ending impl=%s" % js[1])
        # I-tie: every struct/array value handed to $send / to a $select send case is a fresh copy
        for kind_, val in send_sites(runs["plain"].get("js", "")):
            nsites += 1
            chk.add_case("compiled-send-clone", "snap%d:%s:%s" % (pi, kind_, val), kindkey="compiled:send-site:" + kind_)
            if not val.startswith("$clone("):
                chk.add_tie_break("compiled-send-clone", "snap%d %s operand `%s`\n%s" % (pi, kind_, val, src),
                                  "not cloned", "$clone(value, type)")
    chk.extra["compiled_send_sites_checked"] = nsites
    if snaps and nsites == 0:
        raise RuntimeError("structure tie found no $send/$select send site in the emitted JavaScript")
    # the two defects repaired in round 2, as regression programs: GopherJS must now equal Go
    for pid, sig, src in (("defect1", SIG_SELECT_SEND, DEFECT_SELECT_SEND), ("defect2", SIG_CLOSE_NIL, DEFECT_CLOSE_NIL)):
        js = progs.observe_js(res[pid]["runs"]["plain"])
        nat = GO_EXPECTED[pid]
        if thorough:
            n2 = progs.observe_native(res[pid]["runs"]["native"])
            if (n2[0], norm_end(n2[1])) != nat:
                raise RuntimeError("recorded Go output of %s is stale: %s" % (pid, n2))
        chk.add_case("prog-defect", pid, kindkey="prog:defect")
        if (js[0], norm_end(js[1])) != (nat[0], norm_end(nat[1])):
            chk.add_mismatch("prog-defect", "prog:%s\n%s" % (pid, src), "%s / %s" % js, "%s / %s" % nat, signature=sig)
    # nondeterministic select: the outcome must be one the model enumerates over all Math.random resolutions
    allowed = set()
    names = {"0": "a", "1": "b"}
    scs = [["go", "mk_1", "mk_1", "send_1_1", "send_2_2", "sel_%d_r1,r2" % p1, "sel_%d_r1,r2" % p2]
           for p1 in range(12) for p2 in range(12)]
    for o in run_model(scs):
        allowed.add(tuple("%s %s" % (names[x.split(" ")[0].split(":")[1]], x.split(" ")[0].split(":")[2]) for x in o[-2:]))
    js = progs.observe_js(res["nondet"]["runs"]["plain"])
    nat = progs.observe_native(res["nondet"]["runs"]["native"]) if thorough else (list(sorted(allowed)[0]), "exit0")
    chk.add_case("prog-nondet", "nondet-select", kindkey="prog:nondet")
    chk.extra["nondet_select_allowed"] = sorted(" | ".join(a) for a in allowed)
    if tuple(js[0]) not in allowed or js[1] != "exit0":
        chk.add_mismatch("prog-nondet", "prog:nondet\n" + NONDET_SELECT, "%s / %s" % js, "one of %s" % sorted(allowed),
                         signature="C03 program nondet-select outcome-not-allowed")
    if tuple(nat[0]) not in allowed:
        raise RuntimeError("model's allowed set for the nondeterministic select excludes native Go's outcome %s" % (nat,))
    chk.extra["programs"] = len(jobs)




def replay(path):
    rep = json.load(open(path))
    ops = [m["op"] for m in rep.get("failing_inputs", [])]
    for lst in rep.get("correspondence_breaks", {}).values():
        ops += [m["op"] for m in lst]
    ops = [o for o in ops if "@" in o and not o.startswith("prog:")]
    if not ops:
        print("no primitive-level failing input recorded; broken obligations:", rep.get("broken_obligations"))
        return 1
    bad = 0
    for o in ops[:20]:
        sc, i = o.rsplit("@", 1)
        s = sc.split("|")
        i = int(i)
        impl = run_impl([s])[0]
        model = run_model([s])[0]
        spec = run_model([s], "spec")[0]
        print("%s\n  event %d = %s\n  impl : %s\n  model: %s\n  spec : %s" % (sc, i, s[i], impl[i], model[i], spec[i]))
        bad += impl[i] != spec[i] or impl[i] != model[i]
    return 1 if bad else 0
