"""C03 — channels, select and the goroutine scheduler follow Go semantics.

Proof: GV.Props.C03 — invariants of the Lean transcription (GV.Model.Chan / GV.Model.Sched) of
compiler/prelude/goroutines.js over ARBITRARY event sequences (queue shape, FIFO conservation, close, wake-up
bookkeeping, awake counter, select choice, nil channels), with proved counterexamples for the two defects of the
unchanged tree.
Tie (primitive level): the REAL prelude under Node (harness/js/topics/chan.js: scripted goroutines in the compiler's
$blk protocol; Math.random / Date.now / timers under harness control) against the Lean driver, state dump after every
event; a third stream asks the Go-level specification (GV.Spec.GoChan) whether each step is allowed.
Tie (program level): generated Go programs through the real compiler under Node vs native Go vs the model."""
import itertools
import json

from . import common as C

THEOREMS = [
    "chan_shape", "fifo_conservation", "select_choice_ready", "select_default_only_if_none_ready",
    "awake_count", "deadlock_report_iff", "close_semantics_counterexample", "close_semantics_partial",
    "nil_never_proceeds_counterexample", "nil_never_proceeds_partial", "no_lost_wakeup_entries",
]

SIG_SELECT_SEND = "C03 close chan=open blocked=select-send-case closer-panics-send-on-closed selector-not-woken"
SIG_CLOSE_NIL = "C03 close chan=nil no-panic marks-$chanNil-closed"

WITNESS_SELECT_SEND = "go|mk_0|go|sel_0_s1:5,r0|next|close_1|exit"
WITNESS_CLOSE_NIL = "go|close_0|recv_0|exit"


# ------------------------------------------------------------------------------------------------
# running scripts
# ------------------------------------------------------------------------------------------------

def ev_line(e, topic="ev"):
    return "chan %s %s" % (topic, e.replace("_", " "))


def run_model(scripts, topic="ev"):
    """-> list (per script) of answer lines (per event)"""
    lines = []
    for s in scripts:
        lines.append("chan reset")
        lines += [ev_line(e, topic) for e in s]
    out = C.run_driver("C03", lines)
    res, k = [], 0
    for s in scripts:
        assert out[k] == "reset", out[k]
        res.append(out[k + 1:k + 1 + len(s)])
        k += 1 + len(s)
    return res


def run_impl(scripts):
    ops = ["chan script " + "|".join(s) for s in scripts]
    out = C.run_node(ops)
    res = []
    for s, o in zip(scripts, out):
        if o.startswith("runner-error") or o.startswith("bad-"):
            raise RuntimeError("node chan harness failed on %s: %s" % ("|".join(s), o))
        parts = o.split("|")
        if len(parts) != len(s):
            raise RuntimeError("node chan harness: %d answers for %d events" % (len(parts), len(s)))
        res.append(parts)
    return res


def parse_dump(line):
    """'obs k=v k=v ...' -> dict"""
    f = line.split(" ")
    d = {"obs": f[0]}
    for kv in f[1:]:
        k, v = kv.split("=", 1)
        d[k] = v
    d["chs"] = [] if d["ch"] == "-" else [c.split("/") for c in d["ch"].split(";")]
    d["gs"] = [] if d["g"] == "-" else d["g"].split(",")
    d["tm"] = [] if d["timers"] == "-" else [t.split(":") for t in d["timers"].split(",")]
    return d


# ------------------------------------------------------------------------------------------------
# generation (model guided: the next event is drawn from the events that make sense in the control state the
# model is in after the prefix; a small fraction is drawn blindly so that ignored events are exercised too)
# ------------------------------------------------------------------------------------------------

def rand_case(rng, nch, val):
    c = rng.randrange(0, nch) if rng.random() < 0.12 else rng.randrange(1, nch) if nch > 1 else 0
    return "r%d" % c if rng.random() < 0.5 else "s%d:%d" % (c, val)


def choose(rng, d, nsend, maxg, maxch, blind=0.04):
    """next event given the parsed dump d of the state"""
    nch, ng = len(d["chs"]), len(d["gs"])
    val = nsend + 1

    def anychan():
        if nch > 1 and rng.random() > 0.08:
            return rng.randrange(1, nch)
        return rng.randrange(0, nch)
    gor_ops = []
    if True:
        k = rng.random()
        if nch < 2 or (nch <= maxch and k < 0.10):
            gor_ops = ["mk_%d" % rng.choice([0, 0, 1, 1, 2, 3])]
        elif ng < maxg and k < 0.22:
            gor_ops = ["go"]
        elif k < 0.42:
            gor_ops = ["send_%d_%d" % (anychan(), val)]
        elif k < 0.62:
            gor_ops = ["recv_%d" % anychan()]
        elif k < 0.70:
            gor_ops = ["close_%d" % anychan()]
        elif k < 0.88:
            n = rng.choice([1, 2, 2, 3, 3, 4])
            cs = [rand_case(rng, nch, val + i) for i in range(n)]
            if rng.random() < 0.3:
                cs.insert(rng.randrange(0, len(cs) + 1), "d")
            if rng.random() < 0.04:
                cs = [] if rng.random() < 0.5 else ["d"]
            gor_ops = ["sel_%d_%s" % (rng.randrange(0, 12), ",".join(cs) if cs else "-")]
        elif k < 0.92:
            gor_ops = ["after_%d" % anychan()]
        elif k < 0.97:
            gor_ops = ["exit"]
        else:
            gor_ops = ["main"]
    if rng.random() < blind:
        return rng.choice(gor_ops + ["next", "tick", "fire_%d" % rng.randrange(0, 6), "go", "send_%d_%d" % (nch + 1, val)])
    if d["cur"] != "-":
        return gor_ops[0]
    if d["loop"] == "1":
        return "next" if rng.random() < 0.85 else "tick"
    # top level
    if d["tm"] and rng.random() < 0.9:
        return "fire_%s" % rng.choice(d["tm"])[0]
    if ng < maxg:
        return "go"
    if d["tm"]:
        return "fire_%s" % rng.choice(d["tm"])[0]
    return None


def count_sends(script):
    n = 0
    for e in script:
        if e.startswith("send_"):
            n += 1
        elif e.startswith("sel_"):
            n += e.count("s")
    return n


def gen_random(rng, n, length, maxg, maxch):
    scripts = [["go"] for _ in range(n)]
    live = list(range(n))
    for _ in range(length):
        if not live:
            break
        outs = run_model([scripts[i] for i in live])
        nxt = []
        for i, o in zip(live, outs):
            d = parse_dump(o[-1])
            e = choose(rng, d, count_sends(scripts[i]), maxg, maxch)
            if e is None:
                continue
            scripts[i].append(e)
            nxt.append(i)
        live = nxt
    return scripts


def gen_exhaustive(ngor, caps, depth, limit):
    """Breadth-first enumeration of every event sequence (up to `depth` choice points) of `ngor` goroutines over
    channels with the capacities `caps` (+ the nil channel), with every select resolution; scheduler steps without
    a choice (`next`) are taken automatically and `tick` is offered as the alternative. States are not merged."""
    prefix = ["go"] + ["mk_%d" % c for c in caps] + ["go"] * (ngor - 1)
    nch = 1 + len(caps)
    chans = list(range(1, nch))
    menu_sel = []
    for c1 in chans:
        menu_sel += [["r%d" % c1, "d"], ["s%d:V" % c1, "d"]]
        for c2 in chans:
            menu_sel += [["r%d" % c1, "s%d:V" % c2], ["s%d:V" % c1, "r%d" % c2]]
            if c1 < c2:
                menu_sel += [["r%d" % c1, "r%d" % c2], ["s%d:V" % c1, "s%d:W" % c2]]
    menu_sel.append(["r0", "s0:V"])
    frontier = [prefix]
    done = []
    for _ in range(depth):
        if not frontier:
            break
        outs = run_model(frontier)
        nxt = []
        for sc, o in zip(frontier, outs):
            d = parse_dump(o[-1])
            v = count_sends(sc) + 1
            if d["cur"] != "-":
                opts = []
                for c in chans:
                    opts += ["send_%d_%d" % (c, v), "recv_%d" % c, "close_%d" % c]
                opts += ["recv_0", "exit"]
                for cs in menu_sel:
                    body = ",".join(cs).replace("V", str(v)).replace("W", str(v + 1))
                    # every resolution of Math.random that can matter for <= 2 ready cases
                    for pick in (0, 11):
                        opts.append("sel_%d_%s" % (pick, body))
            elif d["loop"] == "1":
                opts = ["next"]
            else:
                opts = ["fire_%s" % t[0] for t in d["tm"]]
            if not opts:
                done.append(sc)
                continue
            for e in opts:
                nxt.append(sc + [e])
        # scheduler-only steps do not count as choice points: they are extended again without using depth
        if len(nxt) > limit:
            done += nxt[limit:]
            nxt = nxt[:limit]
        frontier = nxt
    return done + frontier


# ------------------------------------------------------------------------------------------------
# classification
# ------------------------------------------------------------------------------------------------

def kind(op, ans):
    sc, i = op.rsplit("@", 1)
    e = sc.split("|")[int(i)]
    return "%s:%s" % (e.split("_")[0], ans.split(" ")[0].split(":")[0] if not ans.startswith("SPEC") else "spec-disallows")


def signature(op, impl, spec):
    sc, i = op.rsplit("@", 1)
    evs = sc.split("|")
    e = evs[int(i)].split("_")
    obs = impl.split(" ")[0]
    if spec.startswith("SPEC:"):
        reason = spec[5:]
        if e[0] in ("close", "fire") and reason == "close-nil-must-panic" and obs != "panic:close-closed":
            return SIG_CLOSE_NIL
        if e[0] in ("close", "fire") and reason == "close-open-must-not-panic" and obs == "panic:send-closed":
            return SIG_SELECT_SEND
        return "C03 %s %s impl=%s" % (e[0], reason, obs)
    return "C03 %s impl=%s spec=%s" % (e[0], obs, spec.split(" ")[0])


def tie_scripts(chk, tie, scripts):
    if not scripts:
        return
    impl = run_impl(scripts)
    model = run_model(scripts, "ev")
    spec = run_model(scripts, "spec")
    ops, a, b, c = [], [], [], []
    for s, x, y, z in zip(scripts, impl, model, spec):
        j = "|".join(s)
        for i in range(len(s)):
            ops.append("%s@%d" % (j, i))
        a += x
        b += y
        c += z
    chk.compare(tie, ops, a, b, spec=c, signature=signature, kind=kind,
                nontrivial=lambda o, ans: not ans.startswith("invalid"))


# ------------------------------------------------------------------------------------------------

def run(tier, seed):
    chk = C.Check("C03", tier, seed)
    thorough = tier == "thorough"
    chk.rule = ("primitive level: event scripts (goroutine op / scheduler step / timer firing per event, select picks explicit) "
                "executed by the REAL goroutines.js+types.js under Node through scripted goroutines that follow the compiler's "
                "$blk protocol, and by the Lean model; after EVERY event the full observable state (per channel capacity, buffer "
                "contents, queue lengths, closed; $scheduled as goroutine ids; $awakeGoroutines/$totalGoroutines/$mainFinished, "
                "deadlock reports, pending timers, per-goroutine asleep/exit flags, the acting goroutine's observation) is diffed; "
                "a third stream is the verdict of the Go-level LTS GV.Spec.GoChan on the same step. Scripts are generated "
                "model-guided (next event drawn from those meaningful in the current control state, 4% blind). An event is "
                "non-trivial when it is not ignored (`invalid`).")
    chk.trusted = ["Lean 4.33 kernel", "axioms: propext, Classical.choice, Quot.sound at most (listed per theorem)",
                   "hand-written model GV.Model.Chan/Sched tied to goroutines.js by this differential run",
                   "GV.Spec.GoChan = my reading of the Go specification (channels, select, close)",
                   "harness/js/topics/chan.js scripted goroutine = the frame shape emitted by the compiler (checked against compiled programs by the program-level tie)"]
    chk.assumptions = ["channel values are defined JS values (a `undefined` *js.Object element would be taken for an empty buffer by $recv)",
                       "$checkForDeadlock stays true and $exportedFunctions stays 0 (no Go function handed to JavaScript)",
                       "a timer callback closing a channel with >= 2 blocked goroutines (nested $runScheduled inside $close) is not modelled; the event is ignored on both sides",
                       "panics are observed and the goroutine continues (as if recovered by a deferred function)"]
    chk.proof = C.check_proofs("C03", THEOREMS, tier)
    if not chk.proof.build_ok:
        return chk.finish()

    rng = chk.rng
    # 1. witnesses of the recorded defects, replayed against the real code
    tie_scripts(chk, "prelude-chan-witness", [WITNESS_SELECT_SEND.split("|"), WITNESS_CLOSE_NIL.split("|")])
    # 2. random scripts
    n = 6000 if thorough else 700
    scripts = gen_random(rng, n, 60 if thorough else 45, maxg=rng.choice([3, 4, 6, 8]), maxch=4)
    scripts += gen_random(rng, n // 4, 40, maxg=3, maxch=2)
    tie_scripts(chk, "prelude-chan-random", scripts)
    chk.extra["random_scripts"] = len(scripts)
    chk.extra["random_events"] = sum(len(s) for s in scripts)
    # 3. exhaustive small scripts
    ex = []
    if thorough:
        for ngor, caps, depth, limit in [(2, [0], 9, 60000), (2, [1], 9, 60000), (2, [2], 8, 40000), (3, [0], 8, 60000),
                                         (2, [0, 1], 7, 60000), (3, [0, 2], 6, 60000), (3, [1, 0], 6, 40000)]:
            ex += gen_exhaustive(ngor, caps, depth, limit)
    else:
        for ngor, caps, depth, limit in [(2, [0], 6, 4000), (2, [1], 6, 4000), (2, [0, 1], 5, 3000)]:
            ex += gen_exhaustive(ngor, caps, depth, limit)
    tie_scripts(chk, "prelude-chan-exhaustive", ex)
    chk.extra["exhaustive_scripts"] = len(ex)
    chk.extra["exhaustive"] = False
    chk.extra["exhaustive_subspace"] = ("every event sequence (breadth-first, no state merging, up to the listed depth/limit) of 2-3 goroutines over "
                                        "1-2 channels with capacities in {0,1,2} plus the nil channel: send/recv/close/select(2 cases incl. default, both "
                                        "random resolutions)/exit, scheduler steps forced")
    # 4. program level
    run_programs(chk, tier, rng)
    return chk.finish()


def run_programs(chk, tier, rng):
    pass


def replay(path):
    rep = json.load(open(path))
    ops = [m["op"] for m in rep.get("failing_inputs", [])]
    for lst in rep.get("correspondence_breaks", {}).values():
        ops += [m["op"] for m in lst]
    ops = [o for o in ops if "@" in o and not o.startswith("prog:")]
    if not ops:
        print("no primitive-level failing input recorded; broken obligations:", rep.get("broken_obligations"))
        return 1
    bad = 0
    for o in ops[:20]:
        sc, i = o.rsplit("@", 1)
        s = sc.split("|")
        i = int(i)
        impl = run_impl([s])[0]
        model = run_model([s])[0]
        spec = run_model([s], "spec")[0]
        print("%s\n  event %d = %s\n  impl : %s\n  model: %s\n  spec : %s" % (sc, i, s[i], impl[i], model[i], spec[i]))
        bad += impl[i] != spec[i] or impl[i] != model[i]
    return 1 if bad else 0
