"""C09 — dynamic types: identity, assertions, method sets and dispatch.

Proof: GV.Props.C09 over GV.Model.Types (transcription of compiler/prelude/types.js + $interfaceIsEqual) and
GV.Spec.GoTypes (Go type identity, go/types method-set algorithm, interface satisfaction, Go ==).
Tie (a): the REAL prelude type machinery under Node (harness/js/topics/types.js) builds random type families with
  $newType / .methods = / .init / $structType / $ptrType / ... exactly as the compiler emits them and probes
  $methodSet, $assertType (several orders: memo!), canonical identity, $interfaceIsEqual — vs the Lean model and the Lean spec.
Tie (b): generated Go programs (named types, embedding graphs, interfaces, local types with equal names) under
  GopherJS/Node vs native Go.
Known findings are recognised by signature (class of the decidable hypothesis of the `_partial` theorem that fails).

Round 2: the model mirrors the REPAIRED prelude (fixes/C09-*.patch: memo and `seen` keyed by type id, complete struct key,
prototype-less `base` / method-value cache, own-property test in the forwarder synthesis, comparable computed on demand,
defined pointer types). The former defect-class generators stay as regression tests and must now agree with the spec.
`cfam` evaluates the hypotheses of the general theorem `methodset_correct` (CleanOn over the embedding closure + WalkClean)
on the model heap for every probe: the histogram entry `theorem-covers:*` says how many probes the theorem covers, and a
covered probe on which model and spec disagree aborts the run (it would contradict a proved theorem).
"""
import json
import re

from . import common as C

THEOREMS = [
    "newType_fresh", "size_mono_runOps", "named_distinct",
    "WF_canon", "canon_same_iff_key", "structKey_iff_identical", "ifaceKey_inj", "key_iff_identical", "canon_identity",
    "canon_identity_counterexample_ifacename",
    "old_structKey_collision_embedded", "old_structKey_collision_tag", "old_structKey_collision_pkgpath",
    "methodset_counterexample_ambiguous", "methodset_counterexample_ptrshadow", "methodset_counterexample_fieldhide",
    "methodset_counterexample_pkgname",
    "ms_fold", "s_fold", "level_step", "loops_agree", "methodset_correct_clean", "methodset_correct",
    "repaired_seen_by_id", "repaired_proto_names", "repaired_defined_pointer",
    "assert_counterexample_methodset", "assertType_step", "assert_correct", "assert_concrete", "repaired_memo_by_id",
    "comparableM_eq", "iface_eq", "iface_eq_counterexample_uninitialised", "repaired_comparable_on_demand",
    "methodvalue_full", "methodvalue_binds_copy", "clone_iff", "clone_from_operand_type_is_wrong",
    "repaired_methodvalue_through_pointer", "forwarder_receiver_has_method", "repaired_forwarder_counterexample",
    "valEqual_refl_iff", "ifaceEq_refl_iff", "ifaceEq_refl_boxed", "ifaceEq_identity_irrelevant", "identity_fast_path_is_wrong",
]


def hx(s):
    return "-" if s == "" else s.encode("latin-1").hex()


def unhx(h):
    return "" if h == "-" else bytes.fromhex(h).decode("latin-1")


# ----------------------------------------------------------------------------------------------
# family scripts (tie a)
# ----------------------------------------------------------------------------------------------

class Fam:
    def __init__(self, mode):
        self.mode = mode
        self.ops = []
        self.probe_from = None     # index of the first probe op
        self.meta = {}

    def op(self, s):
        self.ops.append(s)
        return "h%d" % (len(self.ops) - 1)

    def newtype(self, kind, string, named, pkg):
        return self.op("N:%d:%s:%d:%s" % (kind, hx(string), 1 if named else 0, hx(pkg)))

    def func(self, ps, rs, variadic=False):
        return self.op("F:%s:%s:%d" % (",".join(ps) or "-", ",".join(rs) or "-", 1 if variadic else 0))

    @staticmethod
    def methods_str(ms):
        return ",".join("%s/%s/%s" % (hx(p), hx(n), t) for (n, p, t) in ms) or "-"

    @staticmethod
    def fields_str(fs):
        return ",".join("%s/%d/%d/%s/%s" % (hx(n), 1 if e else 0, 1 if x else 0, t, hx(tag)) for (n, e, x, t, tag) in fs) or "-"

    def iface(self, ms):
        return self.op("I:" + self.methods_str(ms))

    def struct(self, pkgpath, fs):
        return self.op("T:%s:%s" % (hx(pkgpath), self.fields_str(fs)))

    def line(self):
        return "types fam " + ";".join(self.ops)


BASIC = {"bool": "b0", "int": "b1", "int8": "b2", "int32": "b4", "int64": "b5", "uint8": "b7", "float64": "b13",
         "complex128": "b15", "string": "b16", "empty": "b18", "error": "b19"}
PROTO = ["toString", "valueOf", "constructor", "hasOwnProperty"]

# what a probe may be flagged with in each mode (anything else is dropped from the script before it is run)
# The classes protoname / namedptr / seenstr / dupstring (memo) were repaired in round 2: their generators stay (regression
# tests), but their probes must now agree with the specification like clean ones.
ALLOWED = {
    "clean": set(), "amb": {"amb"}, "ptrshadow": {"ptrshadow"}, "fieldhide": {"fieldhide"}, "protoname": set(),
    "pkgname": {"pkgname"}, "namedptr": set(), "seenstr": set(), "dupstring": set(),
}
METHODSET_SIG = {
    "amb": "C09 methodset ambiguous-selector-same-depth",
    "ptrshadow": "C09 methodset pointer-receiver-method-does-not-shadow",
    "fieldhide": "C09 methodset field-does-not-hide-method",
    "pkgname": "C09 methodset unexported-names-of-two-packages-collide",
}


def gen_universe(rng, mode):
    """A type family with probes of every (dynamic type, interface) pair."""
    F = Fam(mode)
    two_pkgs = mode in ("pkgname",) or (mode == "clean" and rng.random() < 0.3)
    if mode in ("dupstring", "seenstr"):
        pkgs = [("a/x", "x"), ("b/x", "x")] if rng.random() < 0.5 else [("main", "main")]
    elif two_pkgs:
        pkgs = [("p", "p"), ("q/r", "r")]
    else:
        pkgs = [("main", "main")]
    mnames = ["M", "N", "m"] + (["P", "n"] if rng.random() < 0.5 else [])
    if mode == "protoname":
        mnames = mnames[:2] + rng.sample(PROTO, 2)
    fnames = ["f", "g", "X"]
    if mode == "fieldhide":
        fnames = ["f"] + mnames[:2]
    # signatures
    sigs = [F.func([], [BASIC["int"]]), F.func([BASIC["int"]], [BASIC["string"]]), F.func([], [])]
    if rng.random() < 0.3:
        sl = F.op("S:" + BASIC["string"])
        sigs.append(F.func([BASIC["int"], sl], [BASIC["int"], BASIC["bool"]], True))
    nsig = 1 if rng.random() < 0.5 else 2      # mostly one signature per name so that sets intersect
    n = rng.randrange(3, 8)
    decls = []
    used = set()
    for i in range(n):
        pk = rng.choice(pkgs)
        r = rng.random()
        kind = "struct" if r < 0.7 else ("iface" if r < 0.8 else rng.choice(["int", "slice", "nptr" if mode == "namedptr" else "int"]))
        if mode == "namedptr" and i == n - 1:
            kind = "nptr"
        name = rng.choice(["A", "B", "C", "D", "E", "L", "t", "u"])
        if mode in ("dupstring", "seenstr"):
            if i >= 2 and rng.random() < 0.5:
                name = decls[rng.randrange(i)]["name"]            # deliberately equal strings
        else:
            while (pk[1], name) in used:
                name = name + rng.choice("abc")
        used.add((pk[1], name))
        decls.append({"kind": kind, "pkg": pk, "name": name, "str": pk[1] + "." + name})
    kindno = {"struct": 25, "iface": 20, "int": 2, "slice": 23, "nptr": 22}
    for d in decls:
        d["h"] = F.newtype(kindno[d["kind"]], d["str"], True, d["pkg"][0])
    for d in decls:
        d["ptr"] = F.op("P:" + d["h"]) if d["kind"] != "iface" else None
    # methods
    allm = []
    for d in decls:
        d["vm"], d["pm"] = [], []
        if d["kind"] in ("nptr",):
            continue
        names = rng.sample(mnames, rng.choice([0, 1, 1, 2, 2, 3]) if len(mnames) >= 3 else 1)
        for nm in sorted(names):
            sg = sigs[(mnames.index(nm) + (rng.randrange(nsig))) % len(sigs)]
            pkgq = "" if nm[0].isupper() else d["pkg"][0]
            ent = (nm, pkgq, sg)
            allm.append(ent)
            if d["kind"] == "iface":
                d["vm"].append(ent)
            elif rng.random() < 0.4:
                d["pm"].append(ent)
            else:
                d["vm"].append(ent)
    # struct layouts
    unnamed = []
    for i, d in enumerate(decls):
        if d["kind"] != "struct":
            continue
        fs = []
        seen_names = set()
        for _ in range(rng.choice([0, 1, 1, 2, 2, 3])):
            j = rng.randrange(n)
            e = decls[j]
            if e["name"] in seen_names or e["kind"] == "nptr":
                continue
            by_ptr = e["kind"] != "iface" and (j >= i or rng.random() < 0.35)
            if j >= i and e["kind"] == "iface":
                pass
            seen_names.add(e["name"])
            fs.append((e["name"], True, e["name"][0].isupper(), e["ptr"] if by_ptr else e["h"], ""))
        for _ in range(rng.choice([0, 0, 1, 2])):
            fn = rng.choice(fnames)
            if fn in seen_names:
                continue
            seen_names.add(fn)
            fs.append((fn, False, fn[0].isupper(), rng.choice([BASIC["int"], BASIC["string"], BASIC["empty"]]), rng.choice(["", "", 'k:"v"'])))
        rng.shuffle(fs)
        d["fields"] = fs
    # unnamed structs over the named types (anonymous types are created before methods/init, decls.go:620-640)
    for _ in range(rng.choice([0, 1, 2])):
        fs = []
        seen_names = set()
        for _ in range(rng.choice([1, 2, 2, 3])):
            e = rng.choice(decls)
            if e["name"] in seen_names or e["kind"] == "nptr":
                continue
            seen_names.add(e["name"])
            by_ptr = e["kind"] != "iface" and rng.random() < 0.4
            fs.append((e["name"], True, e["name"][0].isupper(), e["ptr"] if by_ptr else e["h"], ""))
        if fs:
            pp = ""
            for f in fs:
                if not f[2]:
                    pp = pkgs[0][0]
            h = F.struct(pp, fs)
            unnamed.append(h)
            unnamed.append(F.op("P:" + h))
    # interfaces to probe with
    ifaces = []
    pool = sorted(set(allm))
    for _ in range(rng.choice([3, 4, 6])):
        k = rng.choice([1, 1, 2, 2, 3])
        ms = rng.sample(pool, min(k, len(pool))) if pool else []
        if rng.random() < 0.2:
            nm = rng.choice(mnames)
            ms.append((nm, "" if nm[0].isupper() else rng.choice(pkgs)[0], rng.choice(sigs)))
        # one entry per selector key, canonical order
        uniq = {}
        for m in ms:
            uniq[(m[0], m[1])] = m
        ms = sorted(uniq.values(), key=lambda m: (m[1] + "." + m[0]) if m[1] else m[0])
        ifaces.append(F.iface(ms))
    # method lists, then init (decls.go order)
    for d in decls:
        if d["kind"] == "iface":
            continue
        if d["vm"]:
            F.op("m:%s:%s" % (d["h"], F.methods_str(d["vm"])))
        if d["pm"]:
            F.op("m:%s:%s" % (d["ptr"], F.methods_str(d["pm"])))
    for d in decls:
        if d["kind"] == "struct":
            pp = ""
            for f in d["fields"]:
                if not f[2]:
                    pp = d["pkg"][0]
            F.op("i:%s:T:%s:%s" % (d["h"], hx(pp), F.fields_str(d["fields"])))
        elif d["kind"] == "iface":
            ms = sorted(d["vm"], key=lambda m: (m[1] + "." + m[0]) if m[1] else m[0])
            F.op("i:%s:I:%s" % (d["h"], F.methods_str(ms)))
            ifaces.append(d["h"])
        elif d["kind"] == "slice":
            F.op("i:%s:S:%s" % (d["h"], BASIC["int"]))
        elif d["kind"] == "nptr":
            tgt = [e for e in decls if e["kind"] == "struct"] or [decls[0]]
            F.op("i:%s:P:%s" % (d["h"], rng.choice(tgt)["h"]))
    F.probe_from = len(F.ops)
    dyn = []
    for d in decls:
        dyn.append(d["h"])
        if d["ptr"]:
            dyn.append(d["ptr"])
    dyn += unnamed
    for t in dyn:
        F.op("s:" + t)
    for t in dyn:
        F.op("q:" + t)
    if True:
        pairs = [(t, i) for t in dyn for i in ifaces] + [("n", ifaces[0])] + [(t, rng.choice(dyn)) for t in dyn[:3]]
        for rep in range(2):
            rng.shuffle(pairs)
            for (t, i) in pairs:
                F.op("%s:%s:%s" % ("a" if rng.random() < 0.85 else "x", t, i))
    return F


def rand_ctor(rng, F, pool):
    """one random constructor description over the handles in `pool` -> op text"""
    k = rng.choice("ACFIMPST")
    t = lambda: rng.choice(pool)
    if k == "A":
        return "A:%s:%d" % (t(), rng.choice([0, 1, 2, 3, 10, 11]))
    if k == "C":
        d = rng.choice(["0:0", "1:0", "0:1"])
        return "C:%s:%s" % (t(), d)
    if k == "F":
        ps = [t() for _ in range(rng.randrange(0, 3))]
        rs = [t() for _ in range(rng.randrange(0, 3))]
        return "F:%s:%s:0" % (",".join(ps) or "-", ",".join(rs) or "-")
    if k == "I":
        ms = []
        for nm in sorted(rng.sample(["M", "N", "m", "n"], rng.randrange(0, 3))):
            ms.append((nm, "" if nm[0].isupper() else rng.choice(["p", "q"]), rng.choice(F.meta["sigs"])))
        return "I:" + Fam.methods_str(ms)
    if k == "M":
        return "M:%s:%s" % (t(), t())
    if k == "P":
        return "P:" + t()
    if k == "S":
        return "S:" + t()
    fs = []
    names = rng.sample(["a", "b", "X", "Y"], rng.randrange(0, 3))
    for nm in names:
        fs.append((nm, False, nm[0].isupper(), t(), rng.choice(["", "", "x", "y:1", "a b", "1:x", "2:ab0e", "0:", "x$b,1,", "1:a1eX0:"])))
    pp = "p" if any(not f[2] for f in fs) else ""
    return "T:%s:%s" % (hx(pp), Fam.fields_str(fs))


def mutate_ctor(rng, op, pool):
    """a near-duplicate: change exactly one component"""
    a = op.split(":")
    k = a[0]
    other = lambda cur: rng.choice([p for p in pool if p != cur] or pool)
    if k == "A":
        if rng.random() < 0.5:
            a[1] = other(a[1])
        else:
            a[2] = str(int(a[2]) + rng.choice([1, 10]))
    elif k == "C":
        if rng.random() < 0.5:
            a[1] = other(a[1])
        else:
            a[2], a[3] = rng.choice([x for x in [("0", "0"), ("1", "0"), ("0", "1")] if x != (a[2], a[3])])
    elif k == "F":
        i = rng.choice([1, 2])
        lst = [] if a[i] == "-" else a[i].split(",")
        r = rng.random()
        if lst and r < 0.4:
            j = rng.randrange(len(lst))
            lst[j] = other(lst[j])
        elif lst and r < 0.6:
            lst.pop()
        elif lst and len(lst) >= 1 and r < 0.75 and i == 1:
            # move a type from params to results
            res = [] if a[2] == "-" else a[2].split(",")
            res.insert(0, lst.pop())
            a[2] = ",".join(res) or "-"
        else:
            lst.append(rng.choice(pool))
        a[i] = ",".join(lst) or "-"
    elif k in "MPS":
        i = rng.randrange(1, len(a))
        a[i] = other(a[i])
    elif k == "I":
        ms = [] if a[1] == "-" else a[1].split(",")
        if ms and rng.random() < 0.7:
            j = rng.randrange(len(ms))
            p = ms[j].split("/")
            r = rng.random()
            if r < 0.4 and p[0] != "-":
                p[0] = hx("q" if unhx(p[0]) == "p" else "p")
            elif r < 0.7:
                p[2] = other(p[2])
            else:
                p[1] = hx(unhx(p[1]) + "x")
            ms[j] = "/".join(p)
        else:
            ms.append("%s/%s/%s" % ("-", hx("Z"), rng.choice(pool)))
        a[1] = ",".join(ms)
    elif k == "T":
        fs = [] if a[2] == "-" else a[2].split(",")
        if fs:
            j = rng.randrange(len(fs))
            p = fs[j].split("/")
            r = rng.random()
            if r < 0.3:
                p[3] = other(p[3])
            elif r < 0.6:
                p[4] = hx(unhx(p[4]) + "z")
            elif r < 0.8:
                nm = unhx(p[0]) + "q"
                p[0] = hx(nm)
            else:
                fs.append("%s/0/1/%s/-" % (hx("W"), rng.choice(pool)))
            fs[j] = "/".join(p)
        else:
            fs.append("%s/0/1/%s/-" % (hx("W"), rng.choice(pool)))
        a[2] = ",".join(fs)
    return ":".join(a)


def gen_ident(rng):
    """canonicalisation: random constructor calls, each repeated and accompanied by near-duplicates"""
    F = Fam("ident")
    pool = list(BASIC.values())
    # two equally named declarations and one other
    for (s, p) in [("main.L", "main"), ("main.L", "main"), ("x.T", "a/x"), ("x.T", "b/x")]:
        pool.append(F.newtype(rng.choice([2, 24, 23]), s, True, p))
    F.meta["sigs"] = [F.func([], [BASIC["int"]]), F.func([], [])]
    F.probe_from = len(F.ops)
    made = []
    for _ in range(rng.randrange(6, 14)):
        r = rng.random()
        if made and r < 0.25:
            op = rng.choice(made)                      # exact repetition -> must be the same object
        elif made and r < 0.6:
            op = mutate_ctor(rng, rng.choice(made), pool)   # near-duplicate -> must be a new object
        else:
            op = rand_ctor(rng, F, pool)
        made.append(op)
        h = F.op(op)
        if rng.random() < 0.5:
            pool.append(h)
    for i in range(F.probe_from, len(F.ops)):
        if rng.random() < 0.4:
            F.op("s:h%d" % i)
    return F


def gen_canon_witness(rng, which):
    F = Fam("canon-" + which)
    t1, t2 = rng.sample(range(0, 18), 2)
    if which == "embedded":
        T = F.newtype(25, "main.T", True, "main")
        F.op("i:%s:T:-:-" % T)
        F.probe_from = len(F.ops)
        a = ("T", True, True, T, "")
        b = ("T", False, True, T, "")
        fs = [a, b]
        rng.shuffle(fs)
        F.struct("", [fs[0]])
        F.struct("", [fs[1]])
    elif which == "tag":
        F.probe_from = 0
        x, y = rng.choice(["x", "", "k:1"]), rng.choice(["y", "", "json"])
        one = [("a", False, False, "b%d" % t1, "%s$b,%d,%s" % (x, t2, y))]
        two = [("a", False, False, "b%d" % t1, x), ("b", False, False, "b%d" % t2, y)]
        fs = [one, two]
        rng.shuffle(fs)
        F.struct("p", fs[0])
        F.struct("p", fs[1])
    else:
        F.probe_from = 0
        f = [("x", False, False, "b%d" % t1, "")]
        F.struct("p", f)
        F.struct("q/r", f)
    return F


def gen_eq(rng, stale):
    """$interfaceIsEqual: named/unnamed struct and array types over comparable and uncomparable components"""
    F = Fam("eqstale" if stale else "eq")
    sl = F.op("S:" + BASIC["int"])
    mp = F.op("M:%s:%s" % (BASIC["string"], BASIC["int"]))
    pi = F.op("P:" + BASIC["int"])
    comps = [(BASIC["int"], "num"), (BASIC["string"], "str"), (BASIC["int64"], "pair"), (pi, "ref"), (BASIC["empty"], "iface"),
             (BASIC["float64"], "flt"), (BASIC["complex128"], "cplx")]
    uncomp = [(sl, "ref"), (mp, "ref")]
    n = rng.randrange(2, 5)
    decls = []
    for i in range(n):
        decls.append({"h": F.newtype(25, "main.S%d" % i, True, "main"), "i": i})
    # layouts: S_i may contain S_j by value for j < i only
    for d in decls:
        fs = []
        shape = []
        for k in range(rng.randrange(1, 4)):
            r = rng.random()
            if d["i"] > 0 and r < 0.4:
                j = rng.randrange(d["i"])
                fs.append(("f%d" % k, False, False, decls[j]["h"], ""))
                shape.append(("struct", j))
            elif r < 0.55:
                t, sh = rng.choice(uncomp)
                fs.append(("f%d" % k, False, False, t, ""))
                shape.append((sh, t))
            else:
                t, sh = rng.choice(comps)
                fs.append(("f%d" % k, False, False, t, ""))
                shape.append((sh, t))
        d["fs"], d["shape"] = fs, shape
    arr = None
    want_arr = rng.random() < 0.5
    if want_arr and stale:      # the compiler creates anonymous types before the named types are initialised
        e = rng.choice(decls)
        arr = (F.op("A:%s:2" % e["h"]), e)
    # a second declaration printed exactly like S0 with the same layout: a distinct dynamic type all the same
    twin = {"h": F.newtype(25, "main.S0", True, "main"), "i": 0, "fs": decls[0]["fs"], "shape": decls[0]["shape"], "twin": True}
    order = list(decls) + [twin]
    if stale:
        order.reverse() if rng.random() < 0.7 else rng.shuffle(order)
    anon = None
    for d in order:
        F.op("i:%s:T:%s:%s" % (d["h"], hx("main"), F.fields_str(d["fs"])))
    if want_arr and not stale:
        e = rng.choice(decls)
        arr = (F.op("A:%s:2" % e["h"]), e)
    if rng.random() < 0.6:
        e = rng.choice(decls)
        anon = (F.struct("main", [("a", False, False, e["h"], ""), ("b", False, False, BASIC["int"], "")]), e)
    F.probe_from = len(F.ops)

    def val_of(shape_entry, variant):
        sh, t = shape_entry
        if sh == "num":
            return "i%d" % rng.choice([0, 1, variant])
        if sh == "str":
            return "s" + hx(rng.choice(["", "a", "ab"][: 2 + (variant % 2)])).replace("-", "")
        if sh == "pair":
            return "p%d_%d" % (rng.choice([0, 1]), rng.choice([0, 5, variant]))
        if sh == "ref":
            return "r%d" % rng.choice([0, 1])
        if sh == "flt":
            return rng.choice(["fN", "f0", "f1", "f%d" % variant])
        if sh == "cplx":
            return "c%s_%s" % (rng.choice(["N", "0", "1"]), rng.choice(["N", "0", "2"]))
        if sh == "iface":
            r = rng.random()
            if r < 0.2:
                return "v[n]"
            if r < 0.3:      # ONE boxed value shared by both operands when the same text occurs twice
                return "w%d[%s~%s]" % (rng.randrange(2), BASIC["float64"], rng.choice(["fN", "f1"]))
            if r < 0.35:
                return "w%d[%s~r0]" % (rng.randrange(2), sl)
            if r < 0.6:
                return "v[%s~i%d]" % (BASIC["int"], rng.choice([0, 1]))
            if r < 0.75:
                return "v[%s~r0]" % sl
            return "v[%s~s%s]" % (BASIC["string"], "61")
        if sh == "struct":
            return struct_val(decls[t], variant)
        raise ValueError(sh)

    def struct_val(d, variant):
        return "t[" + ".".join(val_of(s, variant) for s in d["shape"]) + "]"

    for d in decls:
        F.op("k:" + d["h"])
    if arr:
        F.op("k:" + arr[0])
    if anon:
        F.op("k:" + anon[0])
    for _ in range(2):
        sv = struct_val(decls[0], 0)
        F.op("E:%s~%s:%s~%s" % (decls[0]["h"], sv, twin["h"], sv))
    # the SAME boxed object on both sides (`x == x`) for every dynamic kind, next to two separate boxings of the same value
    same = [(BASIC["float64"], "fN"), (BASIC["float64"], "f1"), (BASIC["complex128"], "cN_0"), (BASIC["complex128"], "c1_N"),
            (BASIC["complex128"], "c1_2"), (BASIC["int"], "i7"), (BASIC["string"], "s61"), (BASIC["int64"], "p0_5"), (pi, "r0"),
            (sl, "r0"), (mp, "r1")]
    for d in decls:
        same.append((d["h"], struct_val(d, rng.randrange(3))))
    rng.shuffle(same)
    for t, pv in same[:rng.randrange(8, len(same) + 1)]:
        F.op("E:%s~%s:=" % (t, pv))
        F.op("E:%s~%s:%s~%s" % (t, pv, t, pv))
    F.op("E:n:=")
    for _ in range(rng.randrange(6, 14)):
        d = rng.choice(decls)
        v1 = "%s~%s" % (d["h"], struct_val(d, rng.randrange(3)))
        r = rng.random()
        if r < 0.5:
            v2 = v1 if rng.random() < 0.6 else "%s~%s" % (d["h"], struct_val(d, rng.randrange(3)))
        elif r < 0.6:
            v2 = "n"
        elif r < 0.8 and arr:
            e = arr[1]
            v1 = "%s~t[%s.%s]" % (arr[0], struct_val(e, 0), struct_val(e, 1))
            v2 = v1 if rng.random() < 0.5 else "%s~t[%s.%s]" % (arr[0], struct_val(e, 0), struct_val(e, 2))
        elif anon:
            e = anon[1]
            v1 = "%s~t[%s.i1]" % (anon[0], struct_val(e, 0))
            v2 = "%s~t[%s.i%d]" % (anon[0], struct_val(e, rng.randrange(2)), rng.randrange(1, 3))
        else:
            e = rng.choice(decls)
            v2 = "%s~%s" % (e["h"], struct_val(e, 1))
        if rng.random() < 0.5:
            v1, v2 = v2, v1
        F.op("E:%s:%s" % (v1, v2))
    return F


# ----------------------------------------------------------------------------------------------

def run_families(chk, fams, tie):
    """runs the families through impl / model / spec / diag, drops probes outside the mode's class, compares"""
    if not fams:
        return
    lines = [f.line() for f in fams]
    diag = C.run_driver("C09", [l.replace("types fam ", "types dfam ", 1) for l in lines])
    kept = []
    for f, dg in zip(fams, diag):
        d = dg.split(";")
        assert len(d) == len(f.ops), (len(d), len(f.ops))
        if f.mode in ALLOWED:
            allowed = ALLOWED[f.mode]
            ops = []
            for i, o in enumerate(f.ops):
                if i >= f.probe_from and o[0] in "qax":
                    flags = set(d[i].split("+")) - {"clean", "thm"}
                    if not flags <= allowed:
                        chk.count("dropped-probe:" + f.mode)
                        continue
                    # in a defect-class family keep clean probes too (they must agree)
                ops.append(o)
            f.ops = ops
        kept.append(f)
    fams = kept
    lines = [f.line() for f in fams]
    impl = C.run_node(lines)
    model = C.run_driver("C09", lines)
    spec = C.run_driver("C09", [l.replace("types fam ", "types sfam ", 1) for l in lines])
    diag = C.run_driver("C09", [l.replace("types fam ", "types dfam ", 1) for l in lines])
    cover = C.run_driver("C09", [l.replace("types fam ", "types cfam ", 1) for l in lines])
    P_ops, P_impl, P_model, P_spec = [], [], [], []
    info = {}
    for n, f in enumerate(fams):
        a, b, c, d = impl[n].split(";"), model[n].split(";"), spec[n].split(";"), diag[n].split(";")
        cv = cover[n].split(";")
        if not (len(a) == len(b) == len(c) == len(f.ops)):
            raise RuntimeError("family %d: answer counts differ impl=%d model=%d spec=%d ops=%d: %s" % (
                n, len(a), len(b), len(c), len(f.ops), impl[n][:300]))
        if any(x == "bad-op" for x in b) or any(x == "bad-op" for x in c):
            raise RuntimeError("driver rejected an op of family %d: %s" % (n, lines[n][:400]))
        stale = any(o.startswith("k:") and a[i] != c[i] for i, o in enumerate(f.ops))
        for i, o in enumerate(f.ops):
            if i < f.probe_from and o[0] in "im":
                continue
            key = "%s @%s.%d.%d" % (o, f.mode, n, i)
            P_ops.append(key)
            P_impl.append(a[i])
            P_model.append(b[i])
            # type strings are not part of the specification: the model is the oracle there
            P_spec.append(b[i] if o[0] == "s" else c[i])
            covered = cv[i] == "thm"
            info[key] = (f, n, i, d[i], b[i], stale)
            if o[0] in "qa":
                chk.count("theorem-covers:" + ("yes" if covered else "no"))
                if covered and b[i] != c[i]:
                    # methodset_correct is PROVED for these probes: a disagreement means the driver is broken
                    raise RuntimeError("model and spec disagree on a probe covered by methodset_correct: %s of %s" % (o, lines[n][:300]))

    def signature(op, im, sp):
        f, n, i, dg, mo, stale = info[op]
        if im != mo:
            return None                      # not explained by the transcription of the unchanged code
        o = f.ops[i]
        flags = set() if dg in ("clean", "ok", "bad-op") else set(dg.split("+"))
        if o[0] in "qax":
            for cl in ("amb", "ptrshadow", "fieldhide", "pkgname"):
                if f.mode == cl and cl in flags:
                    return METHODSET_SIG[cl]
        return None

    def kind(op, ans):
        f, n, i, dg, mo, stale = info[op]
        o = f.ops[i]
        k = {"q": "methodset", "a": "assert", "x": "assert-panic", "s": "string", "k": "comparable", "E": "ifaceeq",
             "N": "newType"}.get(o[0], "canon-" + o[0])
        if o[0] in "qax":
            return "%s:%s:%s" % (k, f.mode, dg if dg != "clean" else ("clean=" + (ans if o[0] == "a" else ("empty" if ans == "-" else "nonempty"))))
        if o[0] == "E":
            return "%s:%s:%s" % (k, f.mode, ans)
        if k.startswith("canon-"):
            return "%s:%s" % (k, "same" if ans != "=h%d" % i else "new")
        return k

    before = len(chk.mismatches)
    chk.compare(tie, P_ops, P_impl, P_model, spec=P_spec, signature=signature, kind=kind)
    bad_fams = sorted(set(info[m["op"]][1] for m in chk.mismatches[before:] if chk.known_match(m.get("signature")) is None))
    for n in bad_fams[:3]:
        chk.notes.append({"tie": tie, "family_line": lines[n]})
    for t, lst in chk.tie_breaks.items():
        for e in lst[:2]:
            if e["op"] in info:
                chk.notes.append({"tie": t, "tie_break_family_line": lines[info[e["op"]][1]]})


# ----------------------------------------------------------------------------------------------
# generated Go programs (tie b)
# ----------------------------------------------------------------------------------------------

PROG_SIG = {k: v for k, v in METHODSET_SIG.items() if k != "pkgname"}
SIG_CTOR = "C09 dispatch method-named-constructor-clobbers-dynamic-type"
SIG_RECV = "C09 dispatch struct-value-receiver-shared-through-interface-or-method-value"
# round 3: the receiver-copy defect was repaired in /repo (C07's commits); `recvcopy` programs must now agree with Go
PROG_SIG.update({"ctorname": SIG_CTOR})


def gen_program(rng, mode):
    """Returns (source, tainted_labels). Clean discipline: the selector sets (fields and methods at any depth) of the
    embedded fields of one struct are pairwise disjoint; own pointer-receiver methods never reuse a promoted name; field
    names and method names come from disjoint pools; so Go's method sets contain no ambiguity, and shadowing happens only
    by depth with value receivers. A non-clean mode injects exactly one construct of its defect class; every line about
    a type that contains it is 'tainted'."""
    n = rng.randrange(3, 7)
    mpool = ["M", "N", "P", "m", "q"]
    if mode == "protoname":       # repaired: such methods are ordinary methods now (`constructor` is a separate finding)
        mpool = ["M", "N"] + rng.sample([x for x in PROTO if x != "constructor"], 2)
    if mode == "ctorname":
        mpool = ["M", "N", "constructor"]
    types = []      # dict: name, kind(struct/int), emb [(j, byptr)], vm [names], pm [names], sel set, taint
    for i in range(n):
        t = {"name": "T%d" % i, "i": i, "emb": [], "vm": [], "pm": [], "taint": False}
        t["kind"] = "struct" if (i > 0 and rng.random() < 0.85) or rng.random() < 0.6 else "int"
        sel = set()
        if t["kind"] == "struct":
            sel.add("c%d" % i)
            for j in rng.sample(range(i), min(i, rng.choice([0, 1, 1, 2, 2]))):
                e = types[j]
                if e["sel"] & sel or e["name"] in sel:
                    continue
                t["emb"].append((j, rng.random() < 0.4))
                sel |= e["sel"] | {e["name"]}
        promoted = set(sel)
        for nm in rng.sample(mpool, rng.choice([0, 1, 1, 2, 3])):
            if t["kind"] == "struct" and rng.random() < 0.4 and nm not in promoted:
                t["pm"].append(nm)
            else:
                t["vm"].append(nm)
            sel.add(nm)
        t["sel"] = sel
        types.append(t)
    extra_decl, extra_main, tainted = [], [], set()
    src = ["package main", ""]

    def mcode(i, nm):
        return 1000 * (i + 1) + 10 * (sum(map(ord, nm)) % 97)

    def emit_type(t):
        i = t["i"]
        if t["kind"] == "struct":
            fs = ["c%d int" % i] + [("*" if bp else "") + types[j]["name"] for (j, bp) in t["emb"]] + t.get("extra_fields", [])
            src.append("type %s struct { %s }" % (t["name"], "; ".join(fs)))
            for nm in t["vm"]:
                if mode == "recvcopy":   # the receiver is a copy in Go: the increment must stay invisible to the caller
                    src.append("func (r %s) %s() int { r.c%d++; return %d + r.c%d }" % (t["name"], nm, i, mcode(i, nm), i))
                else:
                    src.append("func (r %s) %s() int { return %d + r.c%d }" % (t["name"], nm, mcode(i, nm), i))
            for nm in t["pm"]:
                src.append("func (r *%s) %s() int { r.c%d++; return %d + r.c%d }" % (t["name"], nm, i, mcode(i, nm), i))
        else:
            src.append("type %s int" % t["name"])
            for nm in t["vm"]:
                src.append("func (r %s) %s() int { return %d + int(r) }" % (t["name"], nm, mcode(i, nm)))

    # defect injections (one per program)
    if mode == "amb":
        nm = rng.choice(["M", "N", "m"])
        if rng.random() < 0.5:
            # two fresh embedded types with the same method at the same depth
            a = {"name": "T%d" % n, "i": n, "kind": "struct", "emb": [], "vm": [nm], "pm": [], "sel": {nm, "c%d" % n}, "taint": False}
            b = {"name": "T%d" % (n + 1), "i": n + 1, "kind": rng.choice(["struct", "int"]), "emb": [], "vm": [nm], "pm": [],
                 "sel": {nm, "c%d" % (n + 1)}, "taint": False}
            types += [a, b]
            types.append({"name": "T%d" % (n + 2), "i": n + 2, "kind": "struct", "emb": [(n, False), (n + 1, rng.random() < 0.3 and b["kind"] == "struct")],
                          "vm": [], "pm": [], "sel": a["sel"] | b["sel"], "taint": True})
        else:
            # diamond: the same type reached twice at the same depth
            c = {"name": "T%d" % n, "i": n, "kind": "struct", "emb": [], "vm": [nm], "pm": [], "sel": {nm, "c%d" % n}, "taint": False}
            a = {"name": "T%d" % (n + 1), "i": n + 1, "kind": "struct", "emb": [(n, True)], "vm": [], "pm": [], "sel": set(c["sel"]) | {c["name"]}, "taint": False}
            b = {"name": "T%d" % (n + 2), "i": n + 2, "kind": "struct", "emb": [(n, True)], "vm": [], "pm": [], "sel": set(c["sel"]) | {c["name"]}, "taint": False}
            types += [c, a, b]
            types.append({"name": "T%d" % (n + 3), "i": n + 3, "kind": "struct", "emb": [(n + 1, False), (n + 2, False)],
                          "vm": [], "pm": [], "sel": a["sel"] | b["sel"], "taint": True})
        n = len(types)
    elif mode == "ptrshadow":
        cands = [t for t in types if t["vm"]]
        if not cands:
            types.append({"name": "T%d" % n, "i": n, "kind": "struct", "emb": [], "vm": ["M"], "pm": [], "sel": {"M", "c%d" % n}, "taint": False})
            cands = [types[-1]]
            n += 1
        e = rng.choice(cands)
        t = {"name": "T%d" % n, "i": n, "kind": "struct", "emb": [(e["i"], False)], "vm": [], "pm": [rng.choice(e["vm"])],
             "sel": set(e["sel"]), "taint": True}
        types.append(t)
    elif mode == "fieldhide":
        cands = [t for t in types if [m for m in t["vm"] if m[0].isupper()]]
        if not cands:
            types.append({"name": "T%d" % n, "i": n, "kind": "struct", "emb": [], "vm": ["M"], "pm": [], "sel": {"M", "c%d" % n}, "taint": False})
            cands = [types[-1]]
            n += 1
        e = rng.choice(cands)
        ups = [m for m in e["vm"] if m[0].isupper()]
        t = {"name": "T%d" % n, "i": n, "kind": "struct", "emb": [(e["i"], False)], "vm": [], "pm": [],
             "extra_fields": ["%s int" % rng.choice(ups)], "sel": set(e["sel"]), "taint": True}
        types.append(t)
    elif mode == "ctorname":
        for t in types:
            if "constructor" in t["vm"] + t["pm"]:
                t["taint"] = True
        if not any(t["taint"] for t in types):
            types.append({"name": "T%d" % n, "i": n, "kind": "struct", "emb": [], "vm": ["constructor"], "pm": [],
                          "sel": {"constructor", "c%d" % n}, "taint": True})
    # taint propagates to every type that embeds a tainted one
    for t in types:
        if any(types[j]["taint"] for (j, _) in t["emb"]):
            t["taint"] = True
    for t in types:
        emit_type(t)
    # interfaces
    names = sorted(set(m for t in types for m in t["vm"] + t["pm"])) or ["M"]
    ifaces = []
    for k in range(rng.choice([2, 3, 4])):
        ms = sorted(rng.sample(names, min(len(names), rng.choice([1, 1, 2, 3]))))
        if rng.random() < 0.15:
            ms = sorted(set(ms + ["Zz"]))
        ifaces.append(ms)
        src.append("type I%d interface { %s }" % (k, "; ".join("%s() int" % m for m in ms)))
    if len(ifaces) >= 2:
        k = len(ifaces)
        extra = sorted(set(ifaces[0]) | {rng.choice(names)})
        src.append("type I%d interface { I0; %s() int }" % (k, [m for m in extra if m not in ifaces[0]][0] if [m for m in extra if m not in ifaces[0]] else ifaces[0][0]))
        ifaces.append(extra)

    def mk(t):
        if t["kind"] == "int":
            return "%s(%d)" % (t["name"], t["i"] + 1)
        parts = []
        for (j, bp) in t["emb"]:
            e = types[j]
            v = mk(e)
            if bp:
                v = "&" + v if e["kind"] == "struct" else "func() *%s { x := %s; return &x }()" % (e["name"], v)
            parts.append("%s: %s" % (e["name"], v))
        return "%s{%s}" % (t["name"], ", ".join(parts))

    src.append("")
    src.append("func probe(label string, v interface{}) {")
    for k, ms in enumerate(ifaces):
        calls = "".join(", x.%s()" % m for m in ms)
        negs = "".join(", -1" for m in ms)
        src.append("\tif x, ok := v.(I%d); ok { println(label, \"I%d\", true%s) } else { println(label, \"I%d\", false%s) }" % (k, k, calls, k, negs))
    # inline interface with one method, and a type switch over interfaces then concrete types
    m0 = names[0]
    src.append("\tif x, ok := v.(interface{ %s() int }); ok { println(label, \"inline\", true, x.%s()) } else { println(label, \"inline\", false, -1) }" % (m0, m0))
    src.append("\tswitch v.(type) {")
    order = list(range(len(ifaces)))
    rng.shuffle(order)
    for k in order[:2]:
        src.append("\tcase I%d: println(label, \"switch\", \"I%d\")" % (k, k))
    for t in types:
        src.append("\tcase %s: println(label, \"switch\", \"%s\")" % (t["name"], t["name"]))
        if t["kind"] == "struct":
            src.append("\tcase *%s: println(label, \"switch\", \"*%s\")" % (t["name"], t["name"]))
    src.append("\tdefault: println(label, \"switch\", \"default\")")
    src.append("\t}")
    src.append("}")
    src.append("")
    main = ["func main() {"]
    for t in types:
        lab = t["name"]
        if t["taint"]:
            tainted.add(lab)
            tainted.add("*" + lab)
        main.append("\tv%d := %s" % (t["i"], mk(t)))
        main.append("\tprobe(\"%s\", v%d)" % (lab, t["i"]))
        if t["kind"] == "struct":
            main.append("\tprobe(\"*%s\", &v%d)" % (lab, t["i"]))
            main.append("\tprintln(\"%s\", \"count\", v%d.c%d)" % (lab, t["i"], t["i"]))
    # dispatch: promoted calls, method values, method expressions, receiver copied or shared
    for t in types:
        if t["kind"] != "struct":
            continue
        i = t["i"]
        if t["taint"]:
            continue      # selectors may be ambiguous / hidden there: would not compile
        # all methods reachable without ambiguity under the discipline: own + promoted (own shadow promoted)
        reach = {}
        def collect(u, path, depth):
            for nm in u["vm"]:
                reach.setdefault(nm, (depth, path, u, False)) if nm not in reach or reach[nm][0] > depth else None
            for nm in u["pm"]:
                reach.setdefault(nm, (depth, path, u, True)) if nm not in reach or reach[nm][0] > depth else None
            for (j, bp) in u["emb"]:
                collect(types[j], path + [types[j]["name"]], depth + 1)
        collect(t, [], 0)
        for nm, (depth, path, u, isptr) in sorted(reach.items()):
            if rng.random() < 0.6:
                main.append("\tprintln(\"%s\", \"call\", \"%s\", v%d.%s(), v%d.%s())" % (t["name"], nm, i, nm, i, nm))
            if rng.random() < 0.4:
                main.append("\t{ f := v%d.%s; println(\"%s\", \"mval\", \"%s\", f(), f()) }" % (i, nm, t["name"], nm))
            if rng.random() < 0.4:
                if isptr or any(bp for (j, bp) in t["emb"]) and depth > 0:
                    main.append("\t{ g := (*%s).%s; println(\"%s\", \"mexpr\", \"%s\", g(&v%d)) }" % (t["name"], nm, t["name"], nm, i))
                else:
                    main.append("\t{ g := %s.%s; println(\"%s\", \"mexpr\", \"%s\", g(v%d)) }" % (t["name"], nm, t["name"], nm, i))
            if u["kind"] == "struct":
                sel = ".".join(["v%d" % i] + path + ["c%d" % u["i"]])
                main.append("\tprintln(\"%s\", \"after\", \"%s\", %s)" % (t["name"], nm, sel))
        # interface holding a pointer shares the receiver, holding a value copies it
        main.append("\t{ var e interface{} = &v%d; _ = e; w := v%d; var f interface{} = w; probe(\"%s#copy\", f); println(\"%s\", \"copy\", w.c%d) }" % (i, i, t["name"], t["name"], i))
        if t["taint"]:
            tainted.add(t["name"] + "#copy")
    # interface equality
    for _ in range(3):
        a, b = rng.choice(types), rng.choice(types)
        main.append("\tprintln(\"eq\", \"%s\", \"%s\", interface{}(%s) == interface{}(%s))" % (a["name"], b["name"], mk(a), mk(b)))
    # mode specific tails
    if mode == "namedptr":
        t = rng.choice([t for t in types if t["kind"] == "struct"] or [None])
        if t is not None:
            src.insert(2, "type Q *%s" % t["name"])
            main.append("\tprobe(\"Q\", Q(&v%d))" % t["i"])
            tainted.add("Q")
    if mode in ("memo", "seenstr"):
        def has_ptr(t):
            return any(bp or has_ptr(types[j]) for (j, bp) in t["emb"])
        e = rng.choice([t for t in types if t["vm"] and not has_ptr(t)] or [t for t in types if not has_ptr(t)])
        if mode == "memo":
            src.append("func mkA() interface{} { type L struct{ %s }; return L{%s} }" % (e["name"], mk(e)))
            src.append("func mkB() interface{} { type L struct{ x int }; return L{} }")
            pair = ["mkA()", "mkB()"]
            if rng.random() < 0.5:
                pair.reverse()
            main.append("\tla, lb := %s, %s" % (pair[0], pair[1]))
            main.append("\tprobe(\"L1\", la); probe(\"L2\", lb); probe(\"L1\", la)")
            main.append("\tprintln(\"eq\", \"L\", la == lb)")
        else:
            src.append("func mkC() interface{} { type L struct{ %s }; type W struct{ L }; { type L struct{ W; k int }; return L{} } }" % e["name"])
            main.append("\tprobe(\"L1\", mkC())")
        tainted |= {"L1", "L2"}
    else:
        # equally named local types stay distinct dynamic types (identity only; no interface assertion involved)
        src.append("func lA() interface{} { type L struct{ a int }; return L{1} }")
        src.append("func lB() interface{} { type L struct{ a int }; return L{1} }")
        main.append("\tprintln(\"local\", lA() == lA(), lA() == lB())")
        main.append("\tswitch lA().(type) { case interface{ Zq() }: println(\"local\", \"iface\"); default: println(\"local\", \"default\") }")
    if mode == "canon-embedded":
        t = types[0]
        main.append("\t{ var a interface{} = struct{ %s }{}; _, ok := a.(struct{ %s %s }); println(\"canonE\", ok) }" % (t["name"], t["name"], t["name"]))
        tainted.add("canonE")
    elif mode == "canon-tag":
        main.append("\t{ var a interface{} = struct{ a int \"x$b,1,\" }{}; _, ok := a.(struct{ a int \"x\"; b int }); println(\"canonT\", ok) }")
        tainted.add("canonT")
    elif mode == "cmp":
        src.append("type CA struct{ b CB }")
        src.append("type CB struct{ s []int }")
        src.append("func ceq(x, y interface{}) (r string) { defer func() { if recover() != nil { r = \"panic\" } }(); if x == y { return \"true\" }; return \"false\" }")
        main.append("\tprintln(\"cmp\", ceq(CA{}, CA{}), ceq(CB{}, CB{}), ceq([1]CB{}, [1]CB{}))")
        tainted.add("cmp")
    else:
        # identity of unnamed composite types built in different places
        main.append("\t{ var a interface{} = struct{ a int; b string }{1, \"x\"}; _, ok := a.(struct{ a int; b string }); _, ok2 := a.(struct{ a int; b string \"t\" }); _, ok3 := a.(struct{ b string; a int }); println(\"canon\", ok, ok2, ok3) }")
        main.append("\t{ var a interface{} = map[string][]int{}; _, ok := a.(map[string][]int); _, ok2 := a.(map[string][]int32); var f interface{} = func(int) string { return \"\" }; _, ok3 := f.(func(int) string); _, ok4 := f.(func(int32) string); println(\"canon2\", ok, ok2, ok3, ok4) }")
    main.append("}")
    return "\n".join(src + main) + "\n", tainted


SAMPLE = """package main
type A struct{ x int }
func (a A) M() int { return 1 }
func (a *A) P() int { return 2 }
func (a A) u() int { return 3 }
type B struct { A; *C; n int `k:"v"` }
type C struct{ s []int }
func (c *C) Q(a int, b ...string) (int, bool) { return 4, true }
type I interface{ M() int; u() int }
type N int
func (n N) M() int { return int(n) }
func main() {
  var v interface{} = B{}
  _, ok := v.(I)
  println(ok)
  var w interface{} = N(3)
  _, ok = w.(interface{ M() int })
  println(ok)
  var z interface{} = struct{ A; q map[string][2]N }{}
  _, ok = z.(I)
  println(ok)
  f := func() { type L struct{ B }; var y interface{} = &L{}; _, ok := y.(interface{ P() int }); println(ok) }
  f()
}
"""


def check_emission(chk):
    """I-tie: the shape of the type declarations the compiler emits (decls.go:484-563, package.go:292-349) is what the
    family scripts of tie (a) assume: `X = $newType(size, kind, string, named, pkg, exported, ctor)`, value-receiver methods
    in `X.methods`, pointer-receiver methods in the pointer type's `.methods`, unexported names qualified by the package
    path, `X.init(pkgPath, [{prop,name,embedded,exported,typ,tag}])`, all `.methods =` before all `.init(`."""
    from . import progs
    r = progs.run_jobs([{"id": "c09sample", "files": {"main.go": SAMPLE}, "variants": ["plain"], "native": True, "keep_js": True,
                         "timeout": 120}])[0]
    js = r["runs"]["plain"].get("js", "")
    out = progs.observe_js(r["runs"]["plain"])
    nat = progs.observe_native(r["runs"]["native"])
    chk.add_case("emission-format", "sample", kindkey="emission-sample")
    if out != nat:
        chk.add_mismatch("programs", json.dumps({"id": "c09sample", "source": SAMPLE}), impl=str(out), spec=str(nat))
    m = re.search(r'\bA = \$newType\(0, \$kindStruct, "main\.A", true, "([^"]+)", true, function\(x_\)', js)
    if not m:
        chk.add_tie_break("emission-format", "A = $newType(...)", "pattern not found", "A = $newType(0, $kindStruct, \"main.A\", true, <pkg>, true, function(x_)")
        return
    pk = re.escape(m.group(1))
    F = r'\$funcType\(\[\], \[\$Int\], false\)'
    pats = {
        "N decl": r'\bN = \$newType\(4, \$kindInt, "main\.N", true, "%s", true, null\);' % pk,
        "I decl": r'\bI = \$newType\(8, \$kindInterface, "main\.I", true, "%s", true, null\);' % pk,
        "local L decl": r'\bL = \$newType\(0, \$kindStruct, "main\.L", true, "%s", true, function\(B_\)' % pk,
        "A.methods (value receivers, unexported qualified)":
            r'\bA\.methods = \[\{prop: "M", name: "M", pkg: "", typ: %s\}, \{prop: "u", name: "u", pkg: "%s", typ: %s\}\];' % (F, pk, F),
        "ptr(A).methods (pointer receivers)": r'\b(ptrType(\$\d+)?)\.methods = \[\{prop: "P", name: "P", pkg: "", typ: %s\}\];' % F,
        "ptr(C).methods variadic": r'\bptrType(\$\d+)?\.methods = \[\{prop: "Q", name: "Q", pkg: "", typ: \$funcType\(\[\$Int, sliceType(\$\d+)?\], \[\$Int, \$Bool\], true\)\}\];',
        "N.methods": r'\bN\.methods = \[\{prop: "M", name: "M", pkg: "", typ: %s\}\];' % F,
        "A.init": r'\bA\.init\("%s", \[\{prop: "x", name: "x", embedded: false, exported: false, typ: \$Int, tag: ""\}\]\);' % pk,
        "B.init": r'\bB\.init\("%s", \[\{prop: "A", name: "A", embedded: true, exported: true, typ: A, tag: ""\}, '
                  r'\{prop: "C", name: "C", embedded: true, exported: true, typ: ptrType(\$\d+)?, tag: ""\}, '
                  r'\{prop: "n", name: "n", embedded: false, exported: false, typ: \$Int, tag: "k:\\"v\\""\}\]\);' % pk,
        "I.init": r'\bI\.init\(\[\{prop: "M", name: "M", pkg: "", typ: %s\}, \{prop: "u", name: "u", pkg: "%s", typ: %s\}\]\);' % (F, pk, F),
        "L.init (all exported: empty pkgPath)": r'\bL\.init\("", \[\{prop: "B", name: "B", embedded: true, exported: true, typ: B, tag: ""\}\]\);',
        "anonymous interface": r'\binterfaceType(\$\d+)? = \$interfaceType\(\[\{prop: "M", name: "M", pkg: "", typ: %s\}\]\);' % F,
        "anonymous struct": r'\bstructType(\$\d+)? = \$structType\("%s", \[\{prop: "A", name: "A", embedded: true, exported: true, typ: A, tag: ""\}, '
                            r'\{prop: "q", name: "q", embedded: false, exported: false, typ: mapType(\$\d+)?, tag: ""\}\]\);' % pk,
        "ptrType = $ptrType(A)": r'\bptrType(\$\d+)? = \$ptrType\(A\);',
        "assert call": r'\$assertType\(v, I, true\)',
    }
    for name, rx in pats.items():
        chk.add_case("emission-format", name, kindkey="emission-pattern")
        if not re.search(rx, js):
            chk.add_tie_break("emission-format", name, "pattern not found in the emitted JS", rx)
    # ordering: $newType < .methods < .init
    js = js[m.start():]      # the main package's section
    pos_new = [mm.start() for mm in re.finditer(r'= \$newType\(\d+, \$kind\w+, "main\.', js)]
    pos_m = [mm.start() for mm in re.finditer(r'\b(?:A|N|ptrType(?:\$\d+)?)\.methods = ', js)]
    pos_i = [mm.start() for mm in re.finditer(r'\b(?:A|B|C|I|L)\.init\(', js)]
    if not (pos_new and pos_m and pos_i and max(pos_new) < min(pos_m) and max(pos_m) < min(pos_i)):
        chk.add_tie_break("emission-format", "order", "declaration / methods / init order changed", "$newType* < .methods* < .init*")
    # the pointer type that carries P must be $ptrType(A)
    mp = re.search(pats["ptr(A).methods (pointer receivers)"], js)
    if mp and not re.search(r'\b%s = \$ptrType\(A\);' % re.escape(mp.group(1)), js):
        chk.add_tie_break("emission-format", "ptr(A).methods target", "pointer-receiver methods not attached to $ptrType(A)", mp.group(1))


def run_programs(chk, tier):
    from . import progs
    q = tier != "thorough"
    counts = {"clean": 24 if q else 300, "amb": 4 if q else 50, "ptrshadow": 3 if q else 30, "fieldhide": 3 if q else 30,
              "protoname": 2 if q else 25, "namedptr": 2 if q else 25, "memo": 4 if q else 50, "seenstr": 2 if q else 25,
              "canon-embedded": 1 if q else 8, "canon-tag": 1 if q else 8, "cmp": 2 if q else 15, "recvcopy": 2 if q else 25,
              "ctorname": 2 if q else 15}
    jobs, meta = [], []
    for mode, k in counts.items():
        for _ in range(k):
            srcs, tainted = gen_program(chk.rng, mode)
            variants = ["plain"] if (q or chk.rng.random() < 0.8) else ["plain", "minify"]
            jobs.append({"id": "p%d_%s" % (len(jobs), mode.replace("-", "_")), "files": {"main.go": srcs}, "variants": variants, "native": True, "timeout": 120})
            meta.append((mode, srcs, tainted))
    res = progs.run_jobs(jobs, par=8)
    nprog = 0
    for job, r, (mode, srcs, tainted) in zip(jobs, res, meta):
        nat = progs.observe_native(r["runs"]["native"])
        if nat[1].startswith("compile-error"):
            raise RuntimeError("generated program does not compile natively (%s): %s\n%s" % (mode, nat[1], srcs[:3000]))
        if nat[1] != "exit0":
            raise RuntimeError("generated program does not run natively (%s): %s" % (mode, nat[1]))
        for v in job["variants"]:
            js = progs.observe_js(r["runs"][v])
            nprog += 1
            differing = []
            if js[1] != nat[1] or len(js[0]) != len(nat[0]):
                differing = None
            else:
                differing = [(a, b) for a, b in zip(js[0], nat[0]) if a != b]
            ntr = len(nat[0])
            chk.add_case("programs", job["id"] + v + srcs, nontrivial=True,
                         kindkey="program:%s:%s" % (mode, "same" if differing == [] else "differs"),
                         sample={"tie": "programs", "op": job["id"], "impl": "\n".join(js[0][:6]), "model": "(native Go) " + "\n".join(nat[0][:6])})
            chk.evaluations += ntr
            if differing == []:
                continue
            sig = None
            ctor_method = mode == "ctorname" and ") constructor() int {" in srcs
            if differing is None and mode in PROG_SIG and js[1].startswith("jserror:TypeError") and (
                    "is not a function" in js[1] or ctor_method):
                # an assertion that wrongly succeeded: the call of the missing method crashes. The line being printed must
                # belong to a type that contains the injected construct.
                m = min(len(js[0]), len(nat[0]))
                labels = [a.split(" ")[0] for a, b in zip(js[0][:m], nat[0][:m]) if a != b]
                if len(js[0]) < len(nat[0]):
                    labels.append(nat[0][len(js[0])].split(" ")[0])
                if labels and all(l in tainted for l in labels):
                    sig = SIG_CTOR if (ctor_method and "is not a function" not in js[1]) else PROG_SIG[mode]
            elif differing is not None and mode in PROG_SIG and all(a.split(" ")[0] in tainted for a, b in differing):
                sig = PROG_SIG[mode]
            desc = "ending js=%s native=%s" % (js[1], nat[1]) if differing is None else "; ".join("js[%s] go[%s]" % d for d in differing[:4])
            chk.add_mismatch("programs", json.dumps({"id": job["id"], "variant": v, "mode": mode, "source": srcs}),
                             impl=desc, spec="native Go output", signature=sig)
    chk.extra["programs_run"] = nprog


# ----------------------------------------------------------------------------------------------
# multi-package programs (tie b2): unexported methods of another package, interfaces embedding foreign interfaces
# ----------------------------------------------------------------------------------------------

def gen_mp_program(rng, idx):
    """2-3 packages (GOPATH mode): package q declares interfaces with UNEXPORTED methods and types implementing them; main
    (and optionally r) declare look-alike types (same unexported name, other package), named and literal interfaces that EMBED
    q's interfaces, structs embedding q's structs (promoted unexported methods). Probes: assertions and type switches in both
    packages, calls through q, identity of unnamed composites over `interface{ q.Inner }` across packages.
    By construction no selector is ambiguous and no type has two methods of the same bare name, so every line must agree
    with native Go."""
    mod = "gvmp%d" % idx
    u1 = rng.choice(["m", "n", "mm", "do"])
    u2 = rng.choice([x for x in ["k", "nn", "get"] if x != u1])
    with_r = rng.random() < 0.5
    two = rng.random() < 0.5            # Inner has two unexported methods
    inner_ms = [u1] + ([u2] if two else [])
    q = ["package q", ""]
    q.append("type Inner interface { %s }" % "; ".join("%s() int" % m for m in inner_ms))
    q.append("type Inner2 interface { Inner; X() int }")
    def meths(recv, tname, base, names, extra=()):
        out = []
        for k, m in enumerate(names):
            out.append("func (t %s%s) %s() int { return %d + t.c }" % (recv, tname, m, base + 10 * k))
        for k, m in enumerate(extra):
            out.append("func (t %s%s) %s() int { return %d + t.c }" % (recv, tname, m, base + 100 + 10 * k))
        return out
    q.append("type T struct{ c int }")
    q += meths("", "T", 1000, inner_ms, ["X"] if rng.random() < 0.5 else [])
    t_has_x = q[-1].find(") X()") >= 0
    q.append("type P struct{ c int }")
    q += meths("*", "P", 2000, inner_ms, ["X"])
    q.append("type W struct{ T }")
    q.append("type Half struct{ c int }")            # implements only part of Inner when Inner has two methods
    q += meths("", "Half", 3000, inner_ms[:1])
    q.append("func NewT(c int) interface{} { return T{c} }")
    q.append("func NewP(c int) interface{} { return &P{c} }")
    q.append("func NewW(c int) interface{} { return W{T{c}} }")
    q.append("func NewHalf(c int) interface{} { return Half{c} }")
    q.append("func IsInner(v interface{}) bool { _, ok := v.(Inner); return ok }")
    q.append("func IsInner2(v interface{}) bool { _, ok := v.(Inner2); return ok }")
    q.append("func IsLit(v interface{}) bool { _, ok := v.(interface{ Inner }); return ok }")
    q.append("func Call(v interface{}) int { if x, ok := v.(Inner); ok { return x.%s() }; return -1 }" % u1)
    q.append("func Which(v interface{}) string { switch v.(type) { case Inner2: return \"Inner2\"; case Inner: return \"Inner\" }; return \"none\" }")
    q.append("func Slice() interface{} { return []interface{ Inner }{} }")
    q.append("func IsSlice(v interface{}) bool { _, ok := v.([]interface{ Inner }); return ok }")
    q.append("func MapV() interface{} { return map[string]interface{ Inner }{} }")
    q.append("func IsMap(v interface{}) bool { _, ok := v.(map[string]interface{ Inner }); return ok }")
    q.append("func FuncV() interface{} { return func(interface{ Inner }) int { return 1 } }")
    q.append("func IsFunc(v interface{}) bool { _, ok := v.(func(interface{ Inner }) int); return ok }")
    q.append("func Slice2() interface{} { return []interface{ Inner; X() int }{} }")
    files = {"q/q.go": "\n".join(q) + "\n"}
    imp = ['"%s/q"' % mod]
    if with_r:
        r = ["package r", "", 'import "%s/q"' % mod, ""]
        r.append("type Mid interface { q.Inner }")
        r.append("type RL struct{ c int }")
        r += meths("", "RL", 5000, inner_ms)          # r's own methods of the same names
        r.append("type RE struct{ q.T }")
        r.append("func NewRL(c int) interface{} { return RL{c} }")
        r.append("func NewRE(c int) interface{} { return RE{q.T{}} }")
        r.append("func IsMid(v interface{}) bool { _, ok := v.(Mid); return ok }")
        r.append("func IsLit(v interface{}) bool { _, ok := v.(interface{ q.Inner }); return ok }")
        r.append("func Slice() interface{} { return []interface{ q.Inner }{} }")
        r.append("func IsOwn(v interface{}) bool { _, ok := v.(interface{ %s }); return ok }" % "; ".join("%s() int" % m for m in inner_ms))
        files["r/r.go"] = "\n".join(r) + "\n"
        imp.append('"%s/r"' % mod)
    m = ["package main", "", "import (", "\t" + "\n\t".join(imp), ")", ""]
    m.append("type Outer interface { q.Inner }")
    m.append("type Outer2 interface { q.Inner; Foo() int }")
    m.append("type Outer3 interface { q.Inner2 }")
    m.append("type MI interface { %s }" % "; ".join("%s() int" % x for x in inner_ms))     # main's own unexported methods
    m.append("type L struct{ c int }")
    m += meths("", "L", 7000, inner_ms)
    m.append("type LF struct{ c int }")
    m += meths("", "LF", 7500, inner_ms, ["Foo", "X"])
    m.append("type E struct{ q.T }")
    m.append("type EF struct{ q.T }")
    m.append("func (e EF) Foo() int { return 8000 }")
    m.append("type EP struct{ *q.P }")
    m.append("type EW struct{ q.W; c int }")
    m.append("func (e EW) Foo() int { return 8100 }")
    vals = [("q.T", "q.NewT(1)"), ("*q.P", "q.NewP(2)"), ("q.W", "q.NewW(3)"), ("q.Half", "q.NewHalf(4)"),
            ("L", "L{5}"), ("LF", "LF{6}"), ("*L", "&L{7}"), ("E", "E{}"), ("*E", "&E{}"), ("EF", "EF{}"),
            ("EP", "EP{&q.P{}}"), ("EW", "EW{}"), ("int", "42"), ("nil", "nil")]
    if with_r:
        vals += [("r.RL", "r.NewRL(8)"), ("r.RE", "r.NewRE(9)")]
    rng.shuffle(vals)
    m.append("")
    m.append("func b(x bool) int { if x { return 1 }; return 0 }")
    m.append("func probe(label string, v interface{}) {")
    probes = [("Outer", "v.(Outer)"), ("Outer2", "v.(Outer2)"), ("Outer3", "v.(Outer3)"), ("lit", "v.(interface{ q.Inner })"),
              ("litF", "v.(interface{ q.Inner; Foo() int })"), ("lit2", "v.(interface{ q.Inner2 })"),
              ("q.Inner", "v.(q.Inner)"), ("q.Inner2", "v.(q.Inner2)"), ("MI", "v.(MI)"),
              ("ownlit", "v.(interface{ %s })" % "; ".join("%s() int" % x for x in inner_ms))]
    if with_r:
        probes += [("r.Mid", "v.(r.Mid)")]
    rng.shuffle(probes)
    for name, expr in probes:
        m.append("\t{ _, ok := %s; println(label, \"%s\", ok) }" % (expr, name))
    m.append("\tprintln(label, \"q.IsInner\", q.IsInner(v), q.IsInner2(v), q.IsLit(v), q.Which(v), q.Call(v))")
    if with_r:
        m.append("\tprintln(label, \"r\", r.IsMid(v), r.IsLit(v), r.IsOwn(v))")
    cases = [("Outer2", "Outer2"), ("Outer", "Outer"), ("MI", "MI"), ("q.Inner", "q.Inner")]
    rng.shuffle(cases)
    m.append("\tswitch v.(type) {")
    for c, t in cases:
        m.append("\tcase %s: println(label, \"switch\", \"%s\")" % (t, c))
    m.append("\tdefault: println(label, \"switch\", \"default\")")
    m.append("\t}")
    m.append("\tif o, ok := v.(Outer2); ok { println(label, \"call\", o.Foo(), q.Call(o)) }")
    m.append("\tif o, ok := v.(Outer3); ok { println(label, \"callX\", o.X(), q.Call(o)) }")
    m.append("}")
    m.append("")
    m.append("func main() {")
    for lab, ex in vals:
        m.append("\tprobe(\"%s\", %s)" % (lab, ex))
    ident = [
        ("slice-q-in-main", "q.IsSlice([]interface{ q.Inner }{})"),
        ("slice-main-of-q", "func() bool { _, ok := q.Slice().([]interface{ q.Inner }); return ok }()"),
        ("slice-own-vs-q", "q.IsSlice([]interface{ %s }{})" % "; ".join("%s() int" % x for x in inner_ms)),
        ("slice-named-vs-lit", "q.IsSlice([]Outer{})"),
        ("slice-qInner-named", "q.IsSlice([]q.Inner{})"),
        ("map", "q.IsMap(map[string]interface{ q.Inner }{})"),
        ("map-main-of-q", "func() bool { _, ok := q.MapV().(map[string]interface{ q.Inner }); return ok }()"),
        ("func", "q.IsFunc(func(interface{ q.Inner }) int { return 0 })"),
        ("func-main-of-q", "func() bool { _, ok := q.FuncV().(func(interface{ q.Inner }) int); return ok }()"),
        ("slice2", "func() bool { _, ok := q.Slice2().([]interface{ q.Inner; X() int }); return ok }()"),
        ("slice2-vs-Inner2lit", "func() bool { _, ok := q.Slice2().([]interface{ q.Inner2 }); return ok }()"),
        ("eq-iface", "interface{}(q.NewT(1)) == interface{}(q.NewT(1))"),
    ]
    if with_r:
        ident += [("slice-r-vs-q", "q.IsSlice(r.Slice())"),
                  ("slice-r-in-main", "func() bool { _, ok := r.Slice().([]interface{ q.Inner }); return ok }()")]
    rng.shuffle(ident)
    for lab, ex in ident:
        m.append("\tprintln(\"ident\", \"%s\", %s)" % (lab, ex))
    m.append("}")
    files["main.go"] = "\n".join(m) + "\n"
    return mod, files


_RX_BLOCK = re.compile(r'(?m)^\$packages\["([^"]+)"\] = \(function\(\) \{')
_RX_ENTRY = re.compile(r'\{prop: "([^"]*)", name: "([^"]*)", pkg: "([^"]*)", typ: ')
_RX_PTRVAR = re.compile(r'(?m)^\t+([\w$]+) = \$ptrType\((\w+)\);')
_RX_METHODS = re.compile(r'(?m)^\t+([\w$]+)\.methods = \[(.*)\];$')
_RX_IFACE_INIT = re.compile(r'(?m)^\t+(\w+)\.init\(\[(\{prop: .*|)\]\);$')
_RX_IFACE_LIT = re.compile(r'(?m)^\t+[\w$]+ = \$interfaceType\(\[(.*)\]\);$')


def check_method_tables(chk, job_id, js, facts):
    """Emission pin: every entry of every `.methods = [...]`, named-interface `.init([...])` and `$interfaceType([...])` of
    the user's packages carries the declaring package of an unexported method, as go/types (run independently in gvh_c09)
    determines it."""
    locs = list(_RX_BLOCK.finditer(js))
    blocks = {}
    for i, mt in enumerate(locs):
        end = locs[i + 1].start() if i + 1 < len(locs) else len(js)
        blocks[mt.group(1)] = js[mt.start():end]

    def entries(txt):
        return sorted((mm.group(2), mm.group(3)) for mm in _RX_ENTRY.finditer(txt))

    for pf in facts:
        blk = blocks.get(pf["path"])
        if blk is None and pf["name"] == "main":
            cands = [k for k in blocks if k == pf["path"] or k in (".", "main")]
            blk = blocks.get(cands[0]) if cands else None
        if blk is None:
            chk.add_tie_break("emission-method-tables", "%s package %s" % (job_id, pf["path"]), "package block not found", "present")
            continue
        ptrvars = {mm.group(1): mm.group(2) for mm in _RX_PTRVAR.finditer(blk)}
        seen_named = 0
        for mm in _RX_METHODS.finditer(blk):
            var, txt = mm.group(1), mm.group(2)
            base = re.sub(r"\$\d+$", "", var)
            if var in ptrvars:
                exp = pf["pointer"].get(ptrvars[var])
                what = "*%s" % ptrvars[var]
            else:
                exp = pf["value"].get(base)
                what = base
            if exp is None:
                continue
            seen_named += 1
            got = entries(txt)
            chk.add_case("emission-method-tables", "%s %s %s" % (job_id, pf["path"], what), kindkey="emission-methods-entry", nontrivial=False)
            if got != sorted(tuple(e) for e in exp):
                chk.add_tie_break("emission-method-tables", "%s: %s.%s.methods" % (job_id, pf["path"], what), str(got), str(sorted(tuple(e) for e in exp)))
        for mm in _RX_IFACE_INIT.finditer(blk):
            name, txt = mm.group(1), mm.group(2)
            exp = pf["ifaces"].get(name)
            if exp is None:
                continue
            got = entries(txt)
            chk.add_case("emission-method-tables", "%s %s iface %s" % (job_id, pf["path"], name), kindkey="emission-iface-entry", nontrivial=False)
            if got != sorted(tuple(e) for e in exp):
                chk.add_tie_break("emission-method-tables", "%s: %s.%s.init" % (job_id, pf["path"], name), str(got), str(sorted(tuple(e) for e in exp)))
        lits = set(tuple(sorted(tuple(e) for e in l)) for l in (pf["literals"] or []))
        # interface literals may also print as named interfaces' method sets (identical lists): accept those too
        lits |= set(tuple(sorted(tuple(e) for e in l)) for l in pf["ifaces"].values())
        for mm in _RX_IFACE_LIT.finditer(blk):
            got = tuple(entries(mm.group(1)))
            if not got:
                continue
            chk.add_case("emission-method-tables", "%s %s literal" % (job_id, pf["path"]), kindkey="emission-literal-entry", nontrivial=False)
            if got not in lits:
                chk.add_tie_break("emission-method-tables", "%s: %s $interfaceType(%s)" % (job_id, pf["path"], list(got)),
                                  "not an interface type of this package per go/types", str(sorted(lits))[:600])


def run_mp_programs(chk, tier):
    from . import progs
    q = tier != "thorough"
    n = 14 if q else 160
    C.build_gvh("gvh_c09")
    gopath = C.scratch("c09gopath")
    try:
        jobs, metas = [], []
        for i in range(n):
            mod, files = gen_mp_program(chk.rng, i)
            jobs.append({"id": "mp%d" % i, "mod": mod, "files": files, "variants": ["plain"] if (q or i % 4) else ["plain", "minify"],
                         "native": True, "timeout": 300, "keep_js": True})
            metas.append(files)
        p = C.run_gvh(["prog", "-j", "8"], [json.dumps(j) for j in jobs], name="gvh_c09", timeout=7200,
                      extra_env={"GOPATH": gopath, "GO111MODULE": "off", "GOFLAGS": ""})
        if p.returncode != 0:
            raise RuntimeError("gvh_c09 prog failed: " + p.stderr[-3000:])
        res = [json.loads(l) for l in p.stdout.split("\n") if l.strip()]
        if len(res) != len(jobs):
            raise RuntimeError("gvh_c09 answered %d results for %d jobs" % (len(res), len(jobs)))
    finally:
        import shutil
        shutil.rmtree(gopath, ignore_errors=True)
    nprog = 0
    for job, r, files in zip(jobs, res, metas):
        if r.get("fact_err"):
            raise RuntimeError("go/types rejected a generated multi-package program: %s\n%s" % (r["fact_err"], files["main.go"][:2000]))
        nat = progs.observe_native(r["runs"]["native"])
        if nat[1] != "exit0":
            raise RuntimeError("generated multi-package program does not build/run natively: %s\n%s\n%s" % (
                nat[1], files["q/q.go"][:1500], files["main.go"][:2500]))
        for v in job["variants"]:
            run = r["runs"][v]
            js = progs.observe_js(run)
            nprog += 1
            same = js == nat
            chk.add_case("programs-multipkg", job["id"] + v + files["main.go"] + files["q/q.go"], nontrivial=True,
                         kindkey="program-multipkg:%s" % ("same" if same else "differs"),
                         sample={"tie": "programs-multipkg", "op": job["id"], "impl": "\n".join(js[0][:5]), "model": "(native Go) " + "\n".join(nat[0][:5])})
            chk.evaluations += len(nat[0])
            if not same:
                if js[1] != nat[1] or len(js[0]) != len(nat[0]):
                    desc = "ending js=%s native=%s lines js=%d native=%d" % (js[1], nat[1], len(js[0]), len(nat[0]))
                else:
                    desc = "; ".join("js[%s] go[%s]" % d for d in [(a, b) for a, b in zip(js[0], nat[0]) if a != b][:6])
                chk.add_mismatch("programs-multipkg", json.dumps({"id": job["id"], "variant": v, "files": files}),
                                 impl=desc, spec="native Go output", signature=None)
            if v == "plain" and run.get("js"):
                check_method_tables(chk, job["id"], run["js"], r["facts"])
    chk.extra["multipkg_programs_run"] = nprog


# ----------------------------------------------------------------------------------------------
# method values / method expressions / defer / go over embedding paths (tie b3) + makeReceiver structure tie
# ----------------------------------------------------------------------------------------------


_LEAF = {
    "s": {"decl": "type %(L)s struct{ x int }", "get": "l.x", "lit": "%(L)s{%(n)d}"},
    "a": {"decl": "type %(L)s [2]int", "get": "l[0]", "lit": "%(L)s{%(n)d, 0}"},
    "b": {"decl": "type %(L)s int", "get": "int(l)", "lit": "%(L)s(%(n)d)"},
}


def gen_ptrcache_program(rng):
    """A struct with two embedded non-struct fields whose types both have pointer-receiver methods: the promoted calls must
    reach their own field, and the receiver must be the pointer `&w.Field` (recorded finding: one cache key `$ptr_o`)."""
    kinds = [rng.choice(["int", "[2]int", "[]int"]) for _ in range(2)]
    src = ["package main", ""]
    for j, kd in enumerate(kinds):
        T = "F%d" % j
        src.append("type %s %s" % (T, kd))
        bump = {"int": "*r += %d" % (j + 1), "[2]int": "r[0] += %d" % (j + 1), "[]int": "*r = append(*r, %d)" % j}[kd]
        val = {"int": "int(*r)", "[2]int": "r[0]", "[]int": "len(*r)"}[kd]
        src.append("func (r *%s) Inc%d() { %s }" % (T, j, bump))
        src.append("func (r *%s) Val%d() int { return %s }" % (T, j, val))
        src.append("func (r *%s) Self%d() *%s { return r }" % (T, j, T))
    src.append("type W struct { F0; F1; pad int }")
    src.append("func main() {")
    src.append("\tw := &W{}")
    calls = ["w.Inc0()", "w.Inc1()", "w.Inc1()", "w.Inc0()", "w.Inc1()"]
    rng.shuffle(calls)
    for k, c in enumerate(calls):
        src.append("\t%s" % c)
        src.append("\tprintln(\"s%d:ptrcache vals\", w.Val0(), w.Val1())" % (k + 1))
    src.append("\tprintln(\"s9:ptrcache self\", w.Self0() == &w.F0, w.Self1() == &w.F1, w.Self0() == w.Self0())")
    src.append("}")
    return "\n".join(src) + "\n", []


def gen_mv_program(rng, idx, fwdptr=False):
    """Method values, method expressions, `defer x.M()`, `go x.M()` and interface method values over embedding chains of
    depth 0-3 that mix value and pointer embedding, with value and pointer receivers on struct / array / int receivers and a
    mutation of the receiver object between binding and calling. Returns (source, structure sites); every printed line is
    `s<k>:<class> …` with class `ok` (must equal native Go) or `ptrbasic` (recorded finding). With `fwdptr` the program instead consists of
    method expressions / interface calls that go through the synthesized forwarding method of a POINTER-receiver method of an
    array/int type embedded BY VALUE (recorded finding: the forwarder wraps the field value instead of taking its address and
    crashes); such sites are left out otherwise."""
    src = ["package main", ""]
    leaves = {}
    for k in "sab":
        L = "Leaf" + k.upper()
        leaves[k] = L
        src.append(_LEAF[k]["decl"] % {"L": L})
        g = _LEAF[k]["get"]
        src.append("func (l %s) Get() int { return %s }" % (L, g))
        src.append("func (l %s) Show(tag string) { println(tag, %s) }" % (L, g))
        src.append("func (l %s) Send(c chan int) { c <- %s }" % (L, g))
        src.append("func (l *%s) PGet() int { return %s }" % (L, g.replace("l.x", "l.x").replace("l[0]", "l[0]").replace("int(l)", "int(*l)")))
    src.append("type Getter interface{ Get() int }")
    chains = []
    nchains = rng.choice([4, 5, 6])
    for c in range(nchains):
        k = rng.choice("ssaab") if c >= 3 else "sab"[c]
        depth = rng.choice([0, 1, 1, 2, 2, 3])
        steps = [rng.choice("vp") for _ in range(depth)]        # step j: how wrapper j embeds the next type
        if fwdptr:
            k = rng.choice("ab")
            depth = rng.choice([1, 2, 3])
            steps = [rng.choice("vp") for _ in range(depth - 1)] + ["v"]
        names = ["C%dW%d" % (c, j) for j in range(depth)] + [leaves[k]]
        for j in range(depth):
            src.append("type %s struct{ %s%s; pad%d int }" % (names[j], "*" if steps[j] == "p" else "", names[j + 1], j))
        def lit(j, n, names=names, steps=steps, depth=depth, k=k):
            if j == depth:
                return _LEAF[k]["lit"] % {"L": names[j], "n": n}
            inner = lit(j + 1, n, names, steps, depth, k)
            if steps[j] == "p":
                if j + 1 == depth and k == "b":
                    inner = "func() *%s { t := %s; return &t }()" % (names[j + 1], inner)
                else:
                    inner = "&" + inner
            return "%s{%s: %s}" % (names[j], names[j + 1], inner)
        chains.append({"k": k, "depth": depth, "steps": steps, "names": names, "lit": lit, "outer": names[0]})
    sites, main, struct_sites = [], [], []

    def mutate(ch, opnd, n):
        """statement that changes the leaf's value to n through operand `opnd` (a variable name; `isptr` says whether it is a pointer)"""
        k, depth, steps, L = ch["k"], ch["depth"], ch["steps"], ch["names"][-1]
        name, isptr = opnd
        if depth == 0:
            if k == "s":
                return "%s.x = %d" % (name, n)
            if k == "a":
                return "%s[0] = %d" % (name, n)
            return ("*%s = %d" if isptr else "%s = %d") % (name, n)
        if k == "s":
            return "%s.x = %d" % (name, n)
        if k == "a":
            return "%s.%s[0] = %d" % (name, L, n)
        return ("*%s.%s = %d" if steps[-1] == "p" else "%s.%s = %d") % (name, L, n)

    def last_is_ptr(ch, isptr):
        return (ch["steps"][-1] == "p") if ch["depth"] else isptr

    sid = [0]
    def site(body_lines):
        sid[0] += 1
        name = "site%d" % sid[0]
        src.append("func %s() {" % name)
        src.extend("\t" + l for l in body_lines)
        src.append("}")
        main.append("\t%s()" % name)
        return sid[0]

    if fwdptr:
        src.append("type PGetter interface{ PGet() int }")
        for ci, ch in enumerate(chains):
            T = ch["outer"]
            pre = ["v := %s" % ch["lit"](0, 1), "p := &v"]
            if rng.random() < 0.5:
                site(pre + ["f := (*%s).PGet" % T, "println(\"s%d:fwdptr mexpr*\", f(p))" % (sid[0] + 1)])
            else:
                site(pre + ["var i PGetter = p", "println(\"s%d:fwdptr iface\", i.PGet())" % (sid[0] + 1)])
        src.append("func main() {")
        src.extend(main)
        src.append("}")
        return "\n".join(src) + "\n", []
    for ci, ch in enumerate(chains):
        T, k = ch["outer"], ch["k"]
        has_ptr_step = "p" in ch["steps"]
        fwd_crash = k in "ab" and ch["depth"] >= 1 and ch["steps"][-1] == "v"
        for isptr in (False, True):
            for meth, pe in (("Get", False), ("PGet", True)):
                lip = last_is_ptr(ch, isptr)
                cls = "ptrbasic" if (not pe and k == "b" and lip) else "ok"
                opn = ("p", True) if isptr else ("v", False)
                pre = ["v := %s" % ch["lit"](0, 1)] + (["p := &v"] if isptr else [])
                tag = lambda form: "s%d:%s %s" % (sid[0] + 1, cls, form)
                # structure site: the emitted receiver of the method value
                bname = "bind%d_%d_%d" % (ci, 1 if isptr else 0, 1 if pe else 0)
                src.append("func %s(o %s%s) func() int { return o.%s }" % (bname, "*" if isptr else "", T, meth))
                struct_sites.append({"fn": bname, "method": meth, "isPointer": lip, "pe": pe, "kind": k})
                main.append("\t_ = %s" % bname)
                # 1. method value, mutation between binding and calling
                if rng.random() < 0.8:
                    site(pre + ["f := %s.%s" % (opn[0], meth), mutate(ch, opn, 2), "println(\"%s\", f(), f())" % tag("mval")])
                # 2. method value bound twice at different times
                if rng.random() < 0.3:
                    site(pre + ["f := %s.%s" % (opn[0], meth), mutate(ch, opn, 2), "g := %s.%s" % (opn[0], meth), mutate(ch, opn, 3),
                                "println(\"%s\", f(), g())" % tag("mval2")])
                # 3. method expressions (receiver evaluated at the call)
                if rng.random() < 0.5:
                    if isptr and pe and fwd_crash:
                        pass          # goes through the broken forwarder: dedicated `fwdptr` programs
                    elif isptr:
                        site(pre + ["f := (*%s).%s" % (T, meth), mutate(ch, opn, 2), "println(\"%s\", f(p))" % tag("mexpr*")])
                    elif not pe:
                        site(pre + ["f := %s.%s" % (T, meth), "w := v", mutate(ch, opn, 2), "println(\"%s\", f(w), f(v))" % tag("mexpr")])
                # 4. plain call after mutation (control)
                if rng.random() < 0.3:
                    site(pre + [mutate(ch, opn, 2), "println(\"%s\", %s.%s())" % (tag("call"), opn[0], meth)])
            # value-receiver only forms
            lip = last_is_ptr(ch, isptr)
            cls = "ptrbasic" if (k == "b" and lip) else "ok"
            opn = ("p", True) if isptr else ("v", False)
            pre = ["v := %s" % ch["lit"](0, 1)] + (["p := &v"] if isptr else [])
            if rng.random() < 0.6:
                n0 = sid[0] + 1
                site(pre + ["defer %s.Show(\"s%d:%s defer\")" % (opn[0], n0, cls), mutate(ch, opn, 2)])
            if rng.random() < 0.5:
                n0 = sid[0] + 1
                site(pre + ["c := make(chan int, 1)", "go %s.Send(c)" % opn[0], mutate(ch, opn, 2), "println(\"s%d:%s go\", <-c)" % (n0, cls)])
            if rng.random() < 0.4:
                n0 = sid[0] + 1
                site(pre + ["var i Getter = %s" % opn[0], "f := i.Get", mutate(ch, opn, 2), "println(\"s%d:ok iface\", f())" % n0])
        # binding through a nil pointer operand panics when the method value is evaluated
        if rng.random() < 0.6:
            n0 = sid[0] + 1
            cls = "ptrbasic" if (k == "b" and ch["depth"] == 0) else "ok"
            src.append("func nilbind%d() (p bool) { defer func() { p = recover() != nil }(); var q *%s; f := q.Get; _ = f; return false }" % (n0, T))
            sid[0] += 1
            main.append("\tprintln(\"s%d:%s nilbind\", nilbind%d())" % (n0, cls, n0))
    src.append("func main() {")
    src.extend(main)
    src.append("}")
    return "\n".join(src) + "\n", struct_sites


def run_mv_programs(chk, tier):
    from . import progs
    q = tier != "thorough"
    n = 10 if q else 120
    nfwd = 2 if q else 12
    ncache = 2 if q else 10
    jobs, metas = [], []
    for i in range(n + nfwd + ncache):
        if i >= n + nfwd:
            srcs, ss = gen_ptrcache_program(chk.rng)
        else:
            srcs, ss = gen_mv_program(chk.rng, i, fwdptr=(i >= n))
        jobs.append({"id": "mv%d" % i, "files": {"main.go": srcs}, "variants": ["plain"] if (q or i % 4) else ["plain", "minify"],
                     "native": True, "timeout": 120, "keep_js": True})
        metas.append((srcs, ss))
    res = progs.run_jobs(jobs, par=8)
    sops, simpl, sinfo = [], [], []
    for job, r, (srcs, ss) in zip(jobs, res, metas):
        nat = progs.observe_native(r["runs"]["native"])
        if nat[1] != "exit0":
            raise RuntimeError("generated method-value program does not build/run natively: %s\n%s" % (nat[1], srcs[:3000]))
        for v in job["variants"]:
            js = progs.observe_js(r["runs"][v])
            same = js == nat
            chk.add_case("programs-methodvalue", job["id"] + v + srcs, nontrivial=True,
                         kindkey="program-methodvalue:%s" % ("same" if same else "differs"),
                         sample={"tie": "programs-methodvalue", "op": job["id"], "impl": "\n".join(js[0][:5]), "model": "(native Go) " + "\n".join(nat[0][:5])})
            chk.evaluations += len(nat[0])
            for l in nat[0]:
                chk.count("methodvalue-line:" + (l.split(" ")[1] if " " in l else "?") + ":" + l.split(" ")[0].split(":")[-1])
            if same:
                continue
            sig = None
            # round 7: the `fwdptr` and `ptrcache` programs are plain regression cases (repaired in 80acc7c / 50401ff): no signature
            if js[1] == nat[1] and len(js[0]) == len(nat[0]):
                diff = [(a, b) for a, b in zip(js[0], nat[0]) if a != b]
                # round 6: the `ptrbasic` lines (non-struct value receiver through a pointer) were repaired (28d396a): no signature
                desc = "; ".join("js[%s] go[%s]" % d for d in diff[:6])
            else:
                desc = "ending js=%s native=%s lines js=%d native=%d" % (js[1], nat[1], len(js[0]), len(nat[0]))
            chk.add_mismatch("programs-methodvalue", json.dumps({"id": job["id"], "variant": v, "source": srcs}), impl=desc,
                             spec="native Go output", signature=sig)
        # structure tie: the receiver makeReceiver emitted for every bind function vs the Lean model of makeReceiver
        code = r["runs"]["plain"].get("js", "")
        for st in ss:
            m = re.search(r'\b%s = function[^\n]*\n(?:[^\n]*\n){0,3}?\s*return \$methodVal\((.*), "%s"\);' % (re.escape(st["fn"]), st["method"]), code)
            sops.append("recv shape %d %d %s" % (1 if st["isPointer"] else 0, 1 if st["pe"] else 0, st["kind"]))
            sinfo.append("%s %s" % (job["id"], st["fn"]))
            if not m:
                simpl.append("receiver-not-found")
                continue
            arg = m.group(1)
            wrap = arg.startswith("new ")
            inner = re.sub(r'^new [\w$.]+\(', '', arg) if wrap else arg
            simpl.append("clone=%d wrap=%d" % (1 if inner.startswith("$clone(") else 0, 1 if wrap else 0))
    smodel = C.run_driver("C09", sops)
    for o, info, a, b in zip(sops, sinfo, simpl, smodel):
        chk.add_case("makeReceiver-shape", o + info, kindkey="receiver-shape:" + b.replace(" ", ","), nontrivial=False)
        if a != b:
            chk.add_tie_break("makeReceiver-shape", "%s (%s)" % (o, info), a, b)
    chk.extra["methodvalue_programs_run"] = len(jobs)


# ----------------------------------------------------------------------------------------------
# interface equality of a boxed value with ITSELF (tie b4): NaN-bearing and uncomparable dynamic values
# ----------------------------------------------------------------------------------------------

def gen_ifeq_program(rng):
    """`x == x`, `y := x; x == y`, the same slice / map element read twice, a struct holding the interface compared with
    itself and with its copy, `switch x { case x: }`, next to two separate boxings of the same value — for dynamic values that
    contain a NaN (Go: false) or are of an uncomparable type (Go: run-time panic) and for ordinary ones. Every line must
    equal native Go."""
    src = ["package main", "", "var zero float64", "func nan() float64 { return zero / zero }",
           "type SN struct{ f float64; k int }", "type SS struct{ s []int; k int }", "type SI struct{ i interface{} }",
           "type AN [2]float64", "type N float64", "var gp = &zero",
           "func eq(a, b interface{}) (r string) { defer func() { if recover() != nil { r = \"panic\" } }(); if a == b { return \"true\" }; return \"false\" }",
           "func sw(x interface{}) (r string) { defer func() { if recover() != nil { r = \"panic\" } }(); switch x { case x: return \"hit\" }; return \"miss\" }",
           "func self(x interface{}) (r string) { defer func() { if recover() != nil { r = \"panic\" } }(); if x == x { return \"true\" }; return \"false\" }",
           ]
    vals = ["nan()", "N(nan())", "complex(nan(), 0)", "complex(1, nan())", "SN{nan(), 1}", "SN{1, 1}", "AN{nan(), 0}", "AN{1, 2}",
            "[]int{1}", "map[int]int{}", "func() {}", "SS{nil, 1}", "SI{nan()}", "SI{[]int{}}", "SI{1}", "SI{nil}", "[1]SI{{nan()}}",
            "1", "\"a\"", "gp", "nil", "1.5", "complex(1, 2)", "[2]interface{}{1, nan()}", "struct{ a, b interface{} }{1, []int{}}",
            "struct{ a, b interface{} }{1, 2}", "&SN{nan(), 1}"]
    rng.shuffle(vals)
    vals = vals[:rng.randrange(14, len(vals) + 1)]
    main = ["func main() {"]
    for i, v in enumerate(vals):
        main.append("\t{")
        main.append("\t\tvar x interface{} = %s" % v)
        forms = [("same", "eq(x, x)"), ("copy", "func() string { y := x; return eq(x, y) }()"),
                 ("slice", "func() string { s := []interface{}{0, x}; return eq(s[1], s[1]) }()"),
                 ("map", "func() string { m := map[string]interface{}{\"k\": x}; return eq(m[\"k\"], m[\"k\"]) }()"),
                 ("struct", "func() string { t := SI{x}; return eq(t, t) }()"),
                 ("structcopy", "func() string { t := SI{x}; u := t; return eq(t, u) }()"),
                 ("array", "func() string { t := [2]interface{}{x, 1}; u := t; return eq(t, u) }()"),
                 ("switch", "sw(x)"), ("selfexpr", "self(x)"),
                 ("two", "eq(%s, %s)" % (v if v != "nil" else "interface{}(nil)", v if v != "nil" else "interface{}(nil)")),
                 ("chan", "func() string { c := make(chan interface{}, 2); c <- x; c <- x; return eq(<-c, <-c) }()")]
        rng.shuffle(forms)
        for name, ex in forms[:rng.randrange(6, len(forms) + 1)]:
            main.append("\t\tprintln(\"v%d:%s\", %s)" % (i, name, ex))
        main.append("\t}")
    main.append("}")
    return "\n".join(src + main) + "\n"


def run_ifeq_programs(chk, tier):
    from . import progs
    q = tier != "thorough"
    n = 6 if q else 60
    jobs, srcs = [], []
    for i in range(n):
        sc = gen_ifeq_program(chk.rng)
        jobs.append({"id": "ie%d" % i, "files": {"main.go": sc}, "variants": ["plain"] if (q or i % 4) else ["plain", "minify"],
                     "native": True, "timeout": 120})
        srcs.append(sc)
    res = progs.run_jobs(jobs, par=8)
    for job, r, sc in zip(jobs, res, srcs):
        nat = progs.observe_native(r["runs"]["native"])
        if nat[1] != "exit0":
            raise RuntimeError("generated interface-equality program does not build/run natively: %s\n%s" % (nat[1], sc[:3000]))
        for v in job["variants"]:
            js = progs.observe_js(r["runs"][v])
            same = js == nat
            chk.add_case("programs-ifaceeq", job["id"] + v + sc, nontrivial=True, kindkey="program-ifaceeq:%s" % ("same" if same else "differs"),
                         sample={"tie": "programs-ifaceeq", "op": job["id"], "impl": "\n".join(js[0][:5]), "model": "(native Go) " + "\n".join(nat[0][:5])})
            chk.evaluations += len(nat[0])
            for l in nat[0]:
                chk.count("ifaceeq-self-line:" + l.split(" ")[-1])
            if not same:
                if js[1] == nat[1] and len(js[0]) == len(nat[0]):
                    desc = "; ".join("js[%s] go[%s]" % d for d in [(a, b) for a, b in zip(js[0], nat[0]) if a != b][:6])
                else:
                    desc = "ending js=%s native=%s lines js=%d native=%d" % (js[1], nat[1], len(js[0]), len(nat[0]))
                chk.add_mismatch("programs-ifaceeq", json.dumps({"id": job["id"], "variant": v, "source": sc}), impl=desc,
                                 spec="native Go output", signature=None)
    chk.extra["ifaceeq_programs_run"] = len(jobs)


def gen_all_families(rng, tier):
    q = tier != "thorough"
    fams = []
    counts = {"clean": 60 if q else 900, "amb": 25 if q else 300, "ptrshadow": 15 if q else 200, "fieldhide": 15 if q else 200,
              "protoname": 10 if q else 120, "pkgname": 10 if q else 120, "namedptr": 8 if q else 100,
              "seenstr": 15 if q else 200, "dupstring": 20 if q else 250}
    for mode, k in counts.items():
        for _ in range(k):
            fams.append(gen_universe(rng, mode))
    for _ in range(60 if q else 800):
        fams.append(gen_ident(rng))
    for w in ("embedded", "tag", "pkgpath"):
        for _ in range(3 if q else 20):
            fams.append(gen_canon_witness(rng, w))
    for _ in range(30 if q else 400):
        fams.append(gen_eq(rng, False))
    for _ in range(15 if q else 200):
        fams.append(gen_eq(rng, True))
    return fams


def run(tier, seed):
    chk = C.Check("C09", tier, seed)
    chk.rule = ("(a) type families built directly in the real prelude under Node with $newType/.methods=/.init/$structType/$ptrType/… "
                "(named structs/ints/slices/interfaces/defined pointers, value+pointer embedding incl. cycles through pointers, "
                "shadowing by depth, diamonds, exported/unexported methods of 1-2 packages, value/pointer receivers, unnamed structs, "
                "equally named declarations), then every (dynamic type, interface) pair probed with $assertType in two random orders, "
                "$methodSet of every type, canonical identity of repeated / one-component-mutated constructor calls, "
                "$interfaceIsEqual on struct/array/interface values; a probe is non-trivial when its op text is distinct; "
                "probes whose diagnosis (decidable hypotheses of the _partial theorems) is outside the family's class are dropped; "
                "(b) generated Go programs, GopherJS under Node vs native Go")
    chk.trusted = ["Lean 4.33 kernel", "axioms: propext, Classical.choice, Quot.sound at most (listed per theorem)",
                   "hand-written model GV.Model.Types tied to types.js/prelude.js by the differential run (harness/js/topics/types.js)",
                   "GV.Spec.GoTypes = my transcription of the Go spec (type identity, method sets per go/types NewMethodSet, ==), "
                   "validated against native Go by the generated programs"]
    chk.assumptions = ["type metadata is immutable after package initialisation, so methodSetCache is a pure memo (not modelled)",
                       "interface method lists reach $interfaceType in the compiler's canonical order",
                       "reflection (reflect, internal/reflectlite) is not exercised: it cannot be built in this sandbox",
                       "method bodies/dispatch are exercised only by the compiled programs (tie b), not modelled in Lean"]
    chk.proof = C.check_proofs("C09", THEOREMS, tier)
    fams = gen_all_families(chk.rng, tier)
    chk.extra["families"] = len(fams)
    run_families(chk, fams, "prelude-types")
    check_emission(chk)
    run_programs(chk, tier)
    run_mp_programs(chk, tier)
    run_mv_programs(chk, tier)
    run_ifeq_programs(chk, tier)
    return chk.finish()


def replay(path):
    rep = json.load(open(path))
    lines = [n.get("family_line") or n.get("tie_break_family_line") for n in rep.get("notes", []) if isinstance(n, dict)]
    lines = [l for l in lines if l]
    bad = 0
    # failing compiled programs (single- or multi-package): run them again, GopherJS vs native Go
    from . import progs
    for m in rep.get("failing_inputs", []):
        try:
            d = json.loads(m["op"])
        except Exception:
            continue
        if "files" in d:
            C.build_gvh("gvh_c09")
            gopath = C.scratch("c09gopath")
            try:
                job = {"id": d["id"], "mod": [k for k in d["files"]["main.go"].split('"') if k.endswith("/q")][0][:-2], "files": d["files"],
                       "variants": [d.get("variant", "plain")], "native": True, "timeout": 300}
                p = C.run_gvh(["prog", "-j", "1"], [json.dumps(job)], name="gvh_c09", timeout=3600,
                              extra_env={"GOPATH": gopath, "GO111MODULE": "off", "GOFLAGS": ""})
                r = json.loads(p.stdout.split("\n")[0])
            finally:
                import shutil
                shutil.rmtree(gopath, ignore_errors=True)
        elif "source" in d:
            r = progs.run_jobs([{"id": d["id"], "files": {"main.go": d["source"]}, "variants": [d.get("variant", "plain")], "native": True,
                                 "timeout": 300}])[0]
        else:
            continue
        v = d.get("variant", "plain")
        js, nat = progs.observe_js(r["runs"][v]), progs.observe_native(r["runs"]["native"])
        print("program %s: js ending %s, native ending %s" % (d["id"], js[1], nat[1]))
        import difflib
        for l in list(difflib.unified_diff(nat[0], js[0], "native Go", "GopherJS", lineterm="", n=0))[:40]:
            print("  " + l)
        bad += js != nat
    if not lines:
        if not rep.get("failing_inputs"):
            print("no failing input recorded; broken obligations:", rep.get("broken_obligations"))
            return 1
        return 1 if bad else 0
    impl = C.run_node(lines)
    model = C.run_driver("C09", lines)
    spec = C.run_driver("C09", [l.replace("types fam ", "types sfam ", 1) for l in lines])
    for l, a, b, c in zip(lines, impl, model, spec):
        ops = l.split(" ", 2)[2].split(";")
        for o, x, y, z in zip(ops, a.split(";"), b.split(";"), c.split(";")):
            if x != y or (x != z and o[0] != "s"):
                print("%s\n  impl : %s\n  model: %s\n  spec : %s" % (o, x, y, z))
                bad += 1
    return 1 if bad else 0
