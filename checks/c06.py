"""C06 — fixed-width integer (and float/complex) arithmetic is exact.

Proof: GV.Props.C06 (emitted JS scheme per (type, operator) = BitVec spec for all operand values, full strength for every
binary/unary operator, shift (all counts >= 0), comparison and conversion; canonical results; exact doubles; 64-bit constructor,
inline + - unary -, $mul64, the three shift helpers for every count, $div64 (both loops, signs, MIN / -1), $flatten64).
The model mirrors the tree AFTER the fixes fixes/C06-{unary-minus,quo-fixup,rem-fixup,shr-const-count}.patch.
Ties: (A) the real prelude helpers under Node vs the Lean model vs the Lean BitVec spec on a boundary grid plus
seeded random 64-bit patterns; (B) compiled table-driven Go programs (one unit per (type, operator, operand shape))
GopherJS(Node) vs Lean scheme model vs Lean spec, with native Go validating the spec."""
import json
import time

from . import common as C
from . import progs

THEOREMS = ["valOf_bv", "bv_valOf", "add_correct", "sub_correct", "mul_correct", "quo_correct", "rem_correct",
            "neg_correct", "not_correct", "fixNumber_wrap", "conv_correct", "cmp_correct", "bitwise_correct", "shift_correct",
            "scheme_correct", "scheme_un_correct", "shift_negative_count_documented",
            "repr_inv", "repr_inv_un", "repr_inv_conv", "repr_inv_fixNumber", "repr_inv_shift",
            "neg_min_counterexample_v0", "neg_zero_counterexample_v0", "quo_min_counterexample_v0", "rem_negzero_counterexample_v0",
            "shr_const_count_counterexample_v0",
            "exact_doubles", "exact_doubles_plain_mul_fails",
            "mk64_canon", "mk64_value", "add64_correct", "sub64_correct", "neg64_correct", "valOf_toBV", "flatten64_exact",
            "mul64_correct", "mul64_scheme", "shift64_correct", "div64_correct", "div64_norm_terminates",
            "specShift_clamp", "f32_nested", "f32_nested_value", "f32_outer_only_differs"]

ENV_THEOREMS = ["optable_known", "optable_member", "mul_patterns", "small_const_mul_inexact", "f32_records_fround"]

SMALL = {"int8": (8, True), "int16": (16, True), "int32": (32, True), "int": (32, True),
         "uint8": (8, False), "uint16": (16, False), "uint32": (32, False), "uint": (32, False), "uintptr": (32, False)}
BIG = {"int64": (64, True), "uint64": (64, False)}
TYPES = dict(SMALL)
TYPES.update(BIG)
NATIVE_WIDTH_DIFFERS = {"int", "uint", "uintptr"}   # 64 bits wide natively: native Go is no oracle there

BINOPS = [("add", "+"), ("sub", "-"), ("mul", "*"), ("quo", "/"), ("rem", "%"), ("and", "&"), ("or", "|"),
          ("xor", "^"), ("andnot", "&^")]
CMPOPS = [("eql", "=="), ("neq", "!="), ("lss", "<"), ("leq", "<="), ("gtr", ">"), ("geq", ">=")]
SHOPS = [("shl", "<<"), ("shr", ">>")]
UNOPS = [("neg", "-"), ("not", "^")]


def rng_of(ty):
    bits, signed = TYPES[ty]
    return (-(1 << (bits - 1)), (1 << (bits - 1)) - 1) if signed else (0, (1 << bits) - 1)


def boundary(ty):
    lo, hi = rng_of(ty)
    s = {0, 1, 2, 3, -1, -2, -3, lo, lo + 1, hi, hi - 1, 10, -10, 7, -7, 100, -100}
    for k in (7, 8, 15, 16, 24, 31, 32, 47, 48, 53, 63):
        for d in (-1, 0, 1):
            s.add((1 << k) + d)
            s.add(-((1 << k) + d))
    return sorted(v for v in s if lo <= v <= hi)


def rand_val(ty, rng):
    lo, hi = rng_of(ty)
    k = rng.random()
    if k < 0.5:
        return rng.randint(lo, hi)
    if k < 0.75:   # small magnitudes
        v = rng.randint(-300, 300)
        return min(max(v, lo), hi)
    # random bit-length
    bits = TYPES[ty][0]
    v = rng.getrandbits(rng.randint(1, bits))
    if TYPES[ty][1] and rng.random() < 0.5:
        v = -v
    return min(max(v, lo), hi)


def values(ty, rng, n):
    """n operand values: the essential boundary values first, then sampled boundary values, then random."""
    lo, hi = rng_of(ty)
    ess = [v for v in (0, 1, -1, 2, -2, lo, hi, lo + 1, 3, -4, 4) if lo <= v <= hi]
    out = list(dict.fromkeys(ess))
    b = [v for v in boundary(ty) if v not in out]
    rng.shuffle(b)
    room = max(0, n - len(out))
    out += b[: (room * 2) // 3]
    while len(out) < n:
        v = rand_val(ty, rng)
        if v not in out:
            out.append(v)
        elif hi - lo < 4 * n:
            break
    return out[:n]


# --------------------------------------------------------------------------------------------------------
# Tie A: prelude helpers
# --------------------------------------------------------------------------------------------------------

GRID64 = None


def grid64():
    s = {0, 1, -1, 2, -2, (1 << 63) - 1, -(1 << 63)}
    for k in (15, 16, 31, 32, 48, 53):
        for d in (-1, 1):
            s.add((1 << k) + d)
            s.add(-((1 << k) + d))
    s.add(1 << 47)
    s.add(-(1 << 47))
    return sorted(s)


def halves(v, signed):
    """canonical {$high,$low} of the 64-bit pattern of v"""
    u = v & ((1 << 64) - 1)
    h, l = u >> 32, u & 0xFFFFFFFF
    if signed and h >= 1 << 31:
        h -= 1 << 32
    return h, l


def helper_ops(tier, rng):
    ops = []
    g = grid64()
    rnd = []
    nr = 4000 if tier == "thorough" else 400
    for _ in range(nr):
        k = rng.random()
        if k < 0.4:
            rnd.append(rng.getrandbits(64))
        elif k < 0.7:
            rnd.append(rng.getrandbits(rng.randint(1, 64)))
        else:   # patterns with long runs of ones / zeros (carries)
            a = rng.getrandbits(64)
            m = ((1 << rng.randint(1, 63)) - 1) << rng.randint(0, 40)
            rnd.append((a | m if rng.random() < 0.5 else a & ~m) & ((1 << 64) - 1))
    # all grid pairs, both signednesses
    pairs = [(x, y) for x in g for y in g]
    for _ in range(len(rnd)):
        pairs.append((rng.choice(rnd), rng.choice(rnd + g)))
        pairs.append((rng.choice(g), rng.choice(rnd)))
    for s in ("s", "u"):
        sg = s == "s"
        for x, y in pairs:
            xh, xl = halves(x, sg)
            yh, yl = halves(y, sg)
            ops.append("num mul64 %s %d %d %d %d" % (s, xh, xl, yh, yl))
            ops.append("num div64 %s q %d %d %d %d" % (s, xh, xl, yh, yl))
            ops.append("num div64 %s r %d %d %d %d" % (s, xh, xl, yh, yl))
        shv = g + rnd[: (300 if tier == "thorough" else 12)]
        for x in shv:
            xh, xl = halves(x, sg)
            for n in list(range(0, 131)) + [255, 256, 4294967295, 4294967296, 4294967297, 1 << 40, (1 << 53) - 1]:
                ops.append("num shl64 %s %d %d %d" % (s, xh, xl, n))
                ops.append("num shr64 %s %d %d %d" % (s, xh, xl, n))
        # the constructor on non-canonical arguments (what the inline schemes pass): sums/differences of halves,
        # negated halves, large |low| < 2^53
        cons = []
        small = [0, 1, -1, 2147483647, -2147483648, 2147483648, 4294967295, 4294967296, -4294967295, -4294967296,
                 8589934590, (1 << 53) - 1, -((1 << 53) - 1), 1 << 52, 65535 * 65535 * 4]
        for h in [0, 1, -1, 2147483647, -2147483648, 2147483648, 4294967295, 4294967296, -4294967295, -4294967296, 8589934590, -8589934592]:
            for l in small:
                cons.append((h, l))
        for _ in range(3000 if tier == "thorough" else 300):
            cons.append((rng.randint(-(1 << 33), 1 << 33), rng.randint(-(1 << 53) + 1, (1 << 53) - 1)))
            cons.append((rng.randint(-(1 << 32), 1 << 32), rng.randint(-(1 << 33), 1 << 33)))
        for h, l in cons:
            ops.append("num mk64 %s %d %d" % (s, h, l))
    for x in g + rnd[:200]:
        for sg in (True, False):
            h, l = halves(x, sg)
            if abs(h * 4294967296 + l) <= 1 << 53:
                ops.append("num flatten64 %d %d" % (h, l))
    b32 = boundary("int32") + boundary("uint32")
    for a in b32:
        for b in b32:
            ops.append("num imul %d %d" % (a, b))
    for _ in range(20000 if tier == "thorough" else 2000):
        ops.append("num imul %d %d" % (rng.randint(-(1 << 31), (1 << 32) - 1), rng.randint(-(1 << 31), (1 << 32) - 1)))
    return list(dict.fromkeys(ops))


def helper_kind(op, ans):
    p = op.split()
    k = p[1]
    if k == "div64":
        return "helper:div64:%s:%s:%s" % (p[2], p[3], "panic" if ans == "panic" else "ok")
    if k in ("shl64", "shr64"):
        n = int(p[5])
        return "helper:%s:%s:n%s" % (k, p[2], "=0" if n == 0 else "<32" if n < 32 else "<64" if n < 64 else ">=64")
    return "helper:" + k


# --------------------------------------------------------------------------------------------------------
# Tie B: compiled table programs
# --------------------------------------------------------------------------------------------------------

HELPERS_JS = """//go:build js

package main

import "github.com/gopherjs/gopherjs/js"

// raw JS representation of a value, without going through the arithmetic under test
func raw(o *js.Object) string {
	f := o.Float()
	if f == 0 && 1/f < 0 {
		return "-0"
	}
	return o.Call("toString").String()
}
func raw64(o *js.Object) string { return raw(o.Get("$high")) + ":" + raw(o.Get("$low")) }
""" + "".join("func s_%s(x %s) string { return raw(js.InternalObject(x)) }\n" % (t, t) for t in SMALL) + \
    "".join("func s_%s(x %s) string { return raw64(js.InternalObject(x)) }\n" % (t, t) for t in BIG)

HELPERS_NATIVE = """//go:build !js

package main

func utoa(u uint64) string {
	if u == 0 {
		return "0"
	}
	var b [24]byte
	i := len(b)
	for u > 0 {
		i--
		b[i] = byte('0' + u%10)
		u /= 10
	}
	return string(b[i:])
}
func itoa(x int64) string {
	if x < 0 {
		return "-" + utoa(uint64(-x))
	}
	return utoa(uint64(x))
}
""" + "".join("func s_%s(x %s) string { return %s }\n" % (t, t, "itoa(int64(x))" if SMALL[t][1] else "utoa(uint64(x))") for t in SMALL) + """
func s_int64(x int64) string   { return itoa(x>>32) + ":" + utoa(uint64(uint32(x))) }
func s_uint64(x uint64) string { return utoa(x>>32) + ":" + utoa(uint64(uint32(x))) }
"""

COMMON_GO = """
func rec(s *string) {
	if r := recover(); r != nil {
		msg := "?"
		if e, ok := r.(interface{ Error() string }); ok {
			msg = e.Error()
		}
		if msg == "runtime error: integer divide by zero" || msg == "runtime error: negative shift amount" {
			*s = "panic"
		} else {
			*s = "panic:" + msg
		}
	}
}
func tf(b bool) string {
	if b {
		return "t"
	}
	return "f"
}
"""


def run_jobs(jobs, par):
    """progs.run_jobs, rebuilding the harness binary when it has vanished (parallel mutation trials of other checks clean harness/bin)"""
    import os
    if not os.path.exists(C.gvh_path("gvh")):
        progs._built = False
    return progs.run_jobs(jobs, par=par)


def lit(ty, v):
    return "%s(%d)" % (ty, v)


def arr(name, ty, vals):
    return "var %s = [...]%s{%s}\n" % (name, ty, ", ".join(str(v) for v in vals))


def tok_len(ty):
    bits = TYPES[ty][0]
    return {8: 5, 16: 7, 32: 12, 64: 23}[bits]


class Unit:
    """One (type, operator, shape) table: Go source of its functions, the driver query of every printed token."""
    def __init__(self, uid, ty, shape, what):
        self.uid, self.ty, self.shape, self.what = uid, ty, shape, what
        self.src = ""
        self.cases = []          # driver lines ("num bin int8 add 1 2")
        self.native_ok = ty not in NATIVE_WIDTH_DIFFERS
        self.est = 0
        self.chars = False       # tokens are single characters without separators (comparisons)


_uid = [0]


def new_uid():
    _uid[0] += 1
    return "u%d" % _uid[0]


def operand(shape, name, ty, alt=False):
    """how an operand appears: variable = identifier; nested = a sub-expression with the same value"""
    if shape == "nested":
        return "(%s %s zero_%s)" % (name, "^" if alt else "+", ty)
    return name


def unit_bin(ty, opname, sym, shape, X, Y, cmp=False):
    """binary operator / comparison; const shape = a constant on the right (all Y) and on the left (all X)"""
    u = Unit(new_uid(), ty, shape, ("cmp " if cmp else "bin ") + opname)
    u.chars = cmp
    kind = "cmp" if cmp else "bin"
    need_rec = opname in ("quo", "rem")
    res = (lambda e: "tf(%s)" % e) if cmp else (lambda e: "s_%s(%s)" % (ty, e))
    sep = '""' if cmp else '" "'
    hdr = "(s string) { defer rec(&s); return " if need_rec else "string { return "
    id_ = u.uid
    src = arr(id_ + "_X", ty, X) + arr(id_ + "_Y", ty, Y)
    if shape in ("var", "nested"):
        src += "func %s_f(a, b %s) %s%s }\n" % (id_, ty, hdr, res("%s %s %s" % (operand(shape, "a", ty), sym, operand(shape, "b", ty, True))))
        src += ("func %s() {\n\tprintln(\"#%s\")\n\tfor i := 0; i < len(%s_X); i++ {\n\t\tl := \"\"\n\t\tfor j := 0; j < len(%s_Y); j++ {\n"
                "\t\t\tl += %s_f(%s_X[i], %s_Y[j]) + %s\n\t\t}\n\t\tprintln(l)\n\t}\n}\n") % (id_, id_, id_, id_, id_, id_, id_, sep)
        u.cases = ["num %s %s %s %d %d" % (kind, ty, opname, x, y) for x in X for y in Y]
    else:
        ys = [y for y in Y if not (need_rec and y == 0)]   # `a / 0` with a constant 0 does not compile
        fr, fl = [], []
        for j, y in enumerate(ys):
            src += "func %s_r%d(a %s) %s%s }\n" % (id_, j, ty, hdr, res("a %s %s" % (sym, lit(ty, y))))
            fr.append("%s_r%d" % (id_, j))
        for i, x in enumerate(X):
            src += "func %s_l%d(b %s) %s%s }\n" % (id_, i, ty, hdr, res("%s %s b" % (lit(ty, x), sym)))
            fl.append("%s_l%d" % (id_, i))
        src += "var %s_R = [...]func(%s) string{%s}\n" % (id_, ty, ", ".join(fr))
        src += "var %s_L = [...]func(%s) string{%s}\n" % (id_, ty, ", ".join(fl))
        src += ("func %s() {\n\tprintln(\"#%s\")\n\tfor j := 0; j < len(%s_R); j++ {\n\t\tl := \"\"\n\t\tfor i := 0; i < len(%s_X); i++ {\n"
                "\t\t\tl += %s_R[j](%s_X[i]) + %s\n\t\t}\n\t\tprintln(l)\n\t}\n"
                "\tfor i := 0; i < len(%s_L); i++ {\n\t\tl := \"\"\n\t\tfor j := 0; j < len(%s_Y); j++ {\n"
                "\t\t\tl += %s_L[i](%s_Y[j]) + %s\n\t\t}\n\t\tprintln(l)\n\t}\n}\n") % (
                    id_, id_, id_, id_, id_, id_, sep, id_, id_, id_, id_, sep)
        u.cases = ["num %s %s %s %d %d" % (kind, ty, opname, x, y) for y in ys for x in X]
        u.cases += ["num %s %s %s %d %d" % (kind, ty, opname, x, y) for x in X for y in Y]
    u.src = src
    u.est = len(u.cases) * (1 if cmp else tok_len(ty)) + 200
    return u


def unit_un(ty, opname, sym, shape, X):
    u = Unit(new_uid(), ty, shape, "un " + opname)
    id_ = u.uid
    src = arr(id_ + "_X", ty, X)
    src += "func %s_f(a %s) string { return s_%s(%s%s) }\n" % (id_, ty, ty, sym, operand(shape, "a", ty))
    src += "func %s() {\n\tprintln(\"#%s\")\n\tl := \"\"\n\tfor i := 0; i < len(%s_X); i++ {\n\t\tl += %s_f(%s_X[i]) + \" \"\n\t}\n\tprintln(l)\n}\n" % (
        id_, id_, id_, id_, id_)
    u.src = src
    u.cases = ["num un %s %s %d" % (ty, opname, x) for x in X]
    u.est = len(u.cases) * tok_len(ty) + 200
    return u


def unit_shift(ty, opname, sym, shape, X, cty, N):
    """shift with a count of type cty; const shape: constant count (right) and constant operand (left)"""
    u = Unit(new_uid(), ty, shape, "sh %s count=%s" % (opname, cty))
    id_ = u.uid
    need_rec = TYPES[cty][1]
    hdr = "(s string) { defer rec(&s); return " if need_rec else "string { return "
    src = arr(id_ + "_X", ty, X) + arr(id_ + "_N", cty, N)
    if shape in ("var", "nested"):
        src += "func %s_f(a %s, n %s) %ss_%s(%s %s %s) }\n" % (id_, ty, cty, hdr, ty, operand(shape, "a", ty), sym, operand(shape, "n", cty))
        src += ("func %s() {\n\tprintln(\"#%s\")\n\tfor i := 0; i < len(%s_X); i++ {\n\t\tl := \"\"\n\t\tfor j := 0; j < len(%s_N); j++ {\n"
                "\t\t\tl += %s_f(%s_X[i], %s_N[j]) + \" \"\n\t\t}\n\t\tprintln(l)\n\t}\n}\n") % (id_, id_, id_, id_, id_, id_, id_)
        u.cases = ["num sh %s %s v %d %d" % (ty, opname, x, n) for x in X for n in N]
    else:
        ns = [n for n in N if 0 <= n < (1 << 32)]    # constant counts must be non-negative and fit GopherJS's 32-bit uint
        fr, fl = [], []
        for j, n in enumerate(ns):
            src += "func %s_r%d(a %s) string { return s_%s(a %s %d) }\n" % (id_, j, ty, ty, sym, n)
            fr.append("%s_r%d" % (id_, j))
        for i, x in enumerate(X):
            src += "func %s_l%d(n %s) %ss_%s(%s %s n) }\n" % (id_, i, cty, hdr, ty, lit(ty, x), sym)
            fl.append("%s_l%d" % (id_, i))
        src += "var %s_R = [...]func(%s) string{%s}\n" % (id_, ty, ", ".join(fr))
        src += "var %s_L = [...]func(%s) string{%s}\n" % (id_, cty, ", ".join(fl))
        src += ("func %s() {\n\tprintln(\"#%s\")\n\tfor j := 0; j < len(%s_R); j++ {\n\t\tl := \"\"\n\t\tfor i := 0; i < len(%s_X); i++ {\n"
                "\t\t\tl += %s_R[j](%s_X[i]) + \" \"\n\t\t}\n\t\tprintln(l)\n\t}\n"
                "\tfor i := 0; i < len(%s_L); i++ {\n\t\tl := \"\"\n\t\tfor j := 0; j < len(%s_N); j++ {\n"
                "\t\t\tl += %s_L[i](%s_N[j]) + \" \"\n\t\t}\n\t\tprintln(l)\n\t}\n}\n") % (
                    id_, id_, id_, id_, id_, id_, id_, id_, id_, id_)
        u.cases = ["num sh %s %s c %d %d" % (ty, opname, x, n) for n in ns for x in X]
        u.cases += ["num sh %s %s v %d %d" % (ty, opname, x, n) for x in X for n in N]
    u.src = src
    if cty in NATIVE_WIDTH_DIFFERS and any(n < 0 or n >= 1 << 31 for n in N):
        pass   # counts are values of cty in its 32-bit range: the same natively
    u.est = len(u.cases) * tok_len(ty) + 200
    return u


def unit_conv(ty, to, shape, X):
    u = Unit(new_uid(), ty, shape, "conv to=%s" % to)
    id_ = u.uid
    src = arr(id_ + "_X", ty, X)
    src += "func %s_f(a %s) string { return s_%s(%s(%s)) }\n" % (id_, ty, to, to, operand(shape, "a", ty))
    src += "func %s() {\n\tprintln(\"#%s\")\n\tl := \"\"\n\tfor i := 0; i < len(%s_X); i++ {\n\t\tl += %s_f(%s_X[i]) + \" \"\n\t}\n\tprintln(l)\n}\n" % (
        id_, id_, id_, id_, id_)
    u.src = src
    u.cases = ["num conv %s %s %d" % (ty, to, x) for x in X]
    if to in NATIVE_WIDTH_DIFFERS:
        u.native_ok = False
    u.est = len(u.cases) * tok_len(to) + 200
    return u


def const_grid(ty, rng, with_pow=False, inner=1):
    """constants for the constant operand shape: every power-of-two boundary 2^k-1, 2^k+1 (and 2^k itself when with_pow) for
    k = 1..width, `inner` random ODD values strictly inside every (2^k, 2^(k+1)), their negatives for signed types, and 0, +-1,
    MIN, MAX"""
    lo, hi = rng_of(ty)
    bits, signed = TYPES[ty]
    s = [0, 1, -1, lo, hi, lo + 1, hi - 1]
    for k in range(1, bits + 1):
        vs = [(1 << k) - 1, (1 << k) + 1]
        if with_pow:
            vs.append(1 << k)
        for _ in range(inner):
            if k >= 2:
                vs.append(rng.randrange((1 << k) + 1, 1 << (k + 1), 2))
        for v in vs:
            s.append(v)
            if signed:
                s.append(-v)
    return list(dict.fromkeys(v for v in s if lo <= v <= hi))


def runtime_operands(ty, rng, n_odd=4):
    """run-time operands paired with the constants: MIN/MAX neighbourhood, the sign boundary 2^(w-1) +- 1, 0, +-1, random odd values
    of full width (products with them exercise the low bit of results beyond 2^53)"""
    lo, hi = rng_of(ty)
    bits, signed = TYPES[ty]
    half = 1 << (bits - 1)
    s = [0, 1, -1, 2, lo, lo + 1, hi, hi - 1, half - 1, half, half + 1, -half + 1, 3, -3]
    for _ in range(n_odd):
        s.append(rng.randrange(half // 2, hi + 1) | 1)
        if signed:
            s.append(-(rng.randrange(half // 2, hi + 1) | 1))
    return list(dict.fromkeys(v for v in s if lo <= v <= hi))


def unit_constgrid(ty, opname, sym, consts, rts):
    """constant operand shape on the constant grid: `a op C` (constant on the right) and `C op b` (constant on the left) for every
    constant of `consts` and every run-time operand of `rts`"""
    u = Unit(new_uid(), ty, "const", "bin %s constgrid" % opname)
    need_rec = opname in ("quo", "rem")
    hdr = "(s string) { defer rec(&s); return " if need_rec else "string { return "
    id_ = u.uid
    src = arr(id_ + "_T", ty, rts)
    cr = [c for c in consts if not (need_rec and c == 0)]
    fr, fl = [], []
    for j, c in enumerate(cr):
        src += "func %s_r%d(a %s) %ss_%s(a %s %s) }\n" % (id_, j, ty, hdr, ty, sym, lit(ty, c))
        fr.append("%s_r%d" % (id_, j))
    for i, c in enumerate(consts):
        src += "func %s_l%d(b %s) %ss_%s(%s %s b) }\n" % (id_, i, ty, hdr, ty, lit(ty, c), sym)
        fl.append("%s_l%d" % (id_, i))
    src += "var %s_R = [...]func(%s) string{%s}\n" % (id_, ty, ", ".join(fr))
    src += "var %s_L = [...]func(%s) string{%s}\n" % (id_, ty, ", ".join(fl))
    src += ("func %s() {\n\tprintln(\"#%s\")\n\tfor j := 0; j < len(%s_R); j++ {\n\t\tl := \"\"\n\t\tfor i := 0; i < len(%s_T); i++ {\n"
            "\t\t\tl += %s_R[j](%s_T[i]) + \" \"\n\t\t}\n\t\tprintln(l)\n\t}\n"
            "\tfor j := 0; j < len(%s_L); j++ {\n\t\tl := \"\"\n\t\tfor i := 0; i < len(%s_T); i++ {\n"
            "\t\t\tl += %s_L[j](%s_T[i]) + \" \"\n\t\t}\n\t\tprintln(l)\n\t}\n}\n") % (
                id_, id_, id_, id_, id_, id_, id_, id_, id_, id_)
    u.src = src
    u.cases = ["num bin %s %s %d %d" % (ty, opname, a, c) for c in cr for a in rts]
    u.cases += ["num bin %s %s %d %d" % (ty, opname, c, b) for c in consts for b in rts]
    u.est = len(u.cases) * tok_len(ty) + 200
    return u


def unit_shiftconstgrid(ty, opname, sym, consts, cty, N):
    """`T(C) << n` / `T(C) >> n`: constant shifted operand from the constant grid, run-time count"""
    u = Unit(new_uid(), ty, "const", "sh %s constgrid count=%s" % (opname, cty))
    id_ = u.uid
    need_rec = TYPES[cty][1]
    hdr = "(s string) { defer rec(&s); return " if need_rec else "string { return "
    src = arr(id_ + "_N", cty, N)
    fl = []
    for i, c in enumerate(consts):
        src += "func %s_l%d(n %s) %ss_%s(%s %s n) }\n" % (id_, i, cty, hdr, ty, lit(ty, c), sym)
        fl.append("%s_l%d" % (id_, i))
    src += "var %s_L = [...]func(%s) string{%s}\n" % (id_, cty, ", ".join(fl))
    src += ("func %s() {\n\tprintln(\"#%s\")\n\tfor j := 0; j < len(%s_L); j++ {\n\t\tl := \"\"\n\t\tfor i := 0; i < len(%s_N); i++ {\n"
            "\t\t\tl += %s_L[j](%s_N[i]) + \" \"\n\t\t}\n\t\tprintln(l)\n\t}\n}\n") % (id_, id_, id_, id_, id_, id_)
    u.src = src
    u.cases = ["num sh %s %s v %d %d" % (ty, opname, c, n) for c in consts for n in N]
    u.est = len(u.cases) * tok_len(ty) + 200
    return u


def chunks(l, per):
    per = max(1, per)
    return [l[i:i + per] for i in range(0, len(l), per)]


def constgrid_units(ty, rng, ops, thorough, shifts=True):
    """the constant-shape units on the full constant grid for the operators `ops` (names) of type ty"""
    units = []
    consts = const_grid(ty, rng, with_pow=thorough, inner=2 if thorough else 1)
    rts = runtime_operands(ty, rng, n_odd=6 if thorough else 2)
    per = max(4, (100000 // tok_len(ty)) // (2 * len(rts)))
    for opname, sym in BINOPS:
        if opname in ops:
            for cs in chunks(consts, per):
                units.append(unit_constgrid(ty, opname, sym, cs, rts))
    if shifts:
        N = [0, 1, 7, 8, 15, 16, 31, 32, 33, 63, 64, 65]
        for opname, sym in SHOPS:
            if opname in ops:
                for cs in chunks(consts, (100000 // tok_len(ty)) // len(N)):
                    units.append(unit_shiftconstgrid(ty, opname, sym, cs, "uint", N))
    return units


def count_values(cty, rng, full):
    lo, hi = rng_of(cty)
    base = [0, 1, 2, 7, 8, 15, 16, 24, 31, 32, 33, 63, 64, 65, 100, 127, 128, 255, 256, 65535, 65536, (1 << 31) - 1,
            1 << 31, (1 << 32) - 1, 1 << 32, (1 << 32) + 1, (1 << 53) + 1, (1 << 63) - 1, 1 << 63, (1 << 64) - 1]
    if full:
        base = sorted(set(base + list(range(0, 70))))
    if TYPES[cty][1]:
        base += [-1, -31, -32, lo]
    out = [n for n in base if lo <= n <= hi]
    for _ in range(4):
        out.append(rng.randint(0, min(hi, 70)))
    return list(dict.fromkeys(out))


def chunk_rows(X, Y, budget_cases):
    """split X (rows) so that len(chunk) * len(Y) <= budget_cases"""
    per = max(1, budget_cases // max(1, len(Y)))
    return [X[i:i + per] for i in range(0, len(X), per)]


def gen_units(tier, rng, only_types=None):
    """All units of this run, grouped per (type, shape)."""
    groups = {}
    thorough = tier == "thorough"
    for ty in TYPES:
        if only_types and ty not in only_types:
            continue
        bits = TYPES[ty][0]
        for shape in ("var", "nested", "const"):
            units = []
            exhaustive = thorough and bits == 8
            if exhaustive:
                lo, hi = rng_of(ty)
                X = list(range(lo, hi + 1))
                Y = X
            else:
                n = (36 if bits < 64 else 28) if thorough else (14 if bits < 64 else 12)
                X = values(ty, rng, n)
                Y = values(ty, rng, n)
            cmp_budget = 60000
            tok_budget = 140000 // tok_len(ty)
            for opname, sym in BINOPS:
                rows = chunk_rows(X, Y, tok_budget // (2 if shape == "const" else 1))
                for xs in rows:
                    units.append(unit_bin(ty, opname, sym, shape, xs, Y))
            for opname, sym in CMPOPS:
                for xs in chunk_rows(X, Y, cmp_budget):
                    units.append(unit_bin(ty, opname, sym, shape, xs, Y, cmp=True))
            if shape != "const":   # `-C`, `^C` and T2(C) are folded by go/types (and overflow is a compile error)
                for opname, sym in UNOPS:
                    units.append(unit_un(ty, opname, sym, shape, X))
                for to in TYPES:
                    units.append(unit_conv(ty, to, shape, X if not exhaustive else X))
            xs_sh = X if not exhaustive else X[::5] + [X[-1]]
            ctys = ["uint", "uint64", "uint8", "int"] if thorough else ["uint", "uint64", "int"]
            if not thorough:
                xs_sh = xs_sh[:12]
            for cty in ctys:
                N = count_values(cty, rng, thorough)
                for opname, sym in SHOPS:
                    for xs in chunk_rows(xs_sh, N, tok_budget // 2):
                        units.append(unit_shift(ty, opname, sym, shape, xs, cty, N))
            if shape == "const":
                units += constgrid_units(ty, rng, set(o for o, _ in BINOPS + SHOPS), thorough)
            groups[(ty, shape)] = units
    return groups


OP_OF_TOKEN = {"token.ADD": ["add"], "token.SUB": ["sub"], "token.MUL": ["mul"], "token.QUO": ["quo"], "token.REM": ["rem"],
               "token.AND": ["and"], "token.OR": ["or"], "token.XOR": ["xor"], "token.AND_NOT": ["andnot"],
               "token.SHL": ["shl"], "token.SHR": ["shr"], "token.EQL": ["eql", "neq"], "token.NEQ": ["neq"],
               "token.LSS": ["lss"], "token.LEQ": ["leq"], "token.GTR": ["gtr"], "token.GEQ": ["geq"]}
ALL_OPS = [o for o, _ in BINOPS + CMPOPS + SHOPS + UNOPS] + ["conv"]


def is_float_record(e):
    """a table record that can only concern float32/float64/complex operands: its guard path selects a float kind (or excludes the
    integers), or its text is about `$fround` / a float helper"""
    sec, cas, guard, text = e
    blob = sec + " " + guard + " " + text
    if sec in ("bincomplex",) or (sec == "conv" and cas in ("isFloat(t)", "isComplex(t)")):
        return True
    if "Float32" in blob or "Float64" in blob or "$fround" in blob or "float32" in blob.lower() or "isFloat(" in blob:
        return True
    if "!(isInteger(basic))" in guard:
        return True
    return False


WIDENED_CASE_CAP = 3000000     # ~5 minutes of program runs on an idle machine (measured ~15k cases/s in the thorough tier)


def cap_groups(groups, rng, cap=WIDENED_CASE_CAP):
    """bound the widened integer search: keep the constant-grid units first, then a random selection of the rest"""
    units = [(k, u) for k, us in groups.items() for u in us]
    first = [x for x in units if "constgrid" in x[1].what]
    rest = [x for x in units if "constgrid" not in x[1].what]
    rng.shuffle(rest)
    out, total = {}, 0
    for k, u in first + rest:
        if total + len(u.cases) > cap and total > 0:
            continue
        out.setdefault(k, []).append(u)
        total += len(u.cases)
    return out, total


def affected_of(changed):
    """(types, operator names) touched by the changed table entries [(sec, case, guard, text)]"""
    types, ops = set(), set()
    for sec, cas, _, _ in changed:
        if sec in ("bin", "un"):
            types |= set(SMALL)
        elif sec in ("bin64",):
            types |= set(BIG)
        else:           # fix, conv, pred, extractor, bincomplex, unknown sections: everything
            types |= set(TYPES)
        toks = [t.strip() for t in cas.split(",")]
        got = [o for t in toks for o in OP_OF_TOKEN.get(t, [])]
        if sec == "un":
            got = [{"sub": "neg", "xor": "not"}.get(o, o) for o in got]
        if sec in ("bin", "bin64", "un") and got:
            ops |= set(got)
        else:
            ops |= set(ALL_OPS)
    return types, ops


def gen_units_widened(rng, types, ops):
    """the widened search after a broken table obligation: for the affected (type, operator)s all 8-bit operand pairs in all three
    shapes, the complete boundary grid squared plus random pairs for 16-bit and wider types, and the full constant grid (every
    2^k, 2^k +- 1, two inner values per (2^k, 2^(k+1))) on both sides against the extended run-time operands"""
    groups = {}
    binops = [(o, s_) for o, s_ in BINOPS if o in ops]
    cmpops = [(o, s_) for o, s_ in CMPOPS if o in ops]
    shops = [(o, s_) for o, s_ in SHOPS if o in ops]
    unops = [(o, s_) for o, s_ in UNOPS if o in ops]
    for ty in TYPES:
        if ty not in types:
            continue
        bits = TYPES[ty][0]
        tok_budget = 140000 // tok_len(ty)
        for shape in ("var", "nested", "const"):
            units = []
            if bits == 8:
                lo, hi = rng_of(ty)
                X = list(range(lo, hi + 1))
                Y = X
            else:
                X = list(dict.fromkeys(boundary(ty) + values(ty, rng, 24)))
                Y = list(dict.fromkeys(boundary(ty) + values(ty, rng, 24)))
            for opname, sym in binops:
                for xs in chunk_rows(X, Y, tok_budget // (2 if shape == "const" else 1)):
                    units.append(unit_bin(ty, opname, sym, shape, xs, Y))
            for opname, sym in cmpops:
                for xs in chunk_rows(X, Y, 60000):
                    units.append(unit_bin(ty, opname, sym, shape, xs, Y, cmp=True))
            if shape != "const":
                for opname, sym in unops:
                    units.append(unit_un(ty, opname, sym, shape, X))
                if "conv" in ops:
                    for to in TYPES:
                        units.append(unit_conv(ty, to, shape, X))
            xs_sh = X if bits > 8 else X[::3] + [X[-1]]
            for cty in ["uint", "uint64", "uint8", "int"]:
                N = count_values(cty, rng, True)
                for opname, sym in shops:
                    for xs in chunk_rows(xs_sh, N, tok_budget // 2):
                        units.append(unit_shift(ty, opname, sym, shape, xs, cty, N))
            if shape == "const":
                units += constgrid_units(ty, rng, set(o for o, _ in binops + shops), True)
            groups[(ty, shape)] = units
    return groups


def pack_programs(groups, budget=150000):
    """programs = lists of units of one (type, shape), each within the stdout budget of gvh prog (200 kB clip)"""
    programs = []
    bytype = {}
    for (ty, shape), units in groups.items():
        bytype.setdefault(ty, []).extend(units)
    for ty, units in bytype.items():
        cur, est = [], 0
        for u in units:
            if cur and est + u.est > budget:
                programs.append((ty, "+".join(sorted(set(x.shape for x in cur))), cur))
                cur, est = [], 0
            cur.append(u)
            est += u.est
        if cur:
            programs.append((ty, "+".join(sorted(set(x.shape for x in cur))), cur))
    return programs


def program_source(ty, units):
    src = "package main\n\n" + COMMON_GO + "\n"
    src += "".join("var zero_%s %s\n" % (t, t) for t in TYPES)
    for u in units:
        src += "\n// %s %s %s\n" % (u.ty, u.shape, u.what) + u.src
    src += "\nfunc main() {\n" + "".join("\t%s()\n" % u.uid for u in units) + "\tprintln(\"#end\")\n}\n"
    return src


def parse_output(trace, units):
    """-> {uid: [tokens]} or None when the output is not the expected sequence of unit blocks"""
    res = {}
    cur = None
    bymap = {u.uid: u for u in units}
    for line in trace:
        if line.startswith("#"):
            cur = line[1:]
            if cur != "end":
                res[cur] = []
            continue
        if cur is None or cur == "end" or cur not in bymap:
            return None
        if bymap[cur].chars:
            res[cur].extend(list(line))
        else:
            res[cur].extend(line.split())
    if cur != "end":
        return None
    return res


def norm_bool(a):
    return {"true": "t", "false": "f"}.get(a, a)


def classify(op, impl, spec):
    """signature of a failing integer case: none is recorded any more (the round-1 defects were repaired by the fixes
    C06-unary-minus, C06-quo-fixup, C06-rem-fixup, C06-shr-const-count), so every failing case is a VIOLATION"""
    return None


def prog_kind(op, ans):
    p = op.split()
    return "prog:%s:%s:%s%s" % (p[1], p[2], p[3], ":panic" if ans == "panic" else "")


def run_program_tie(chk, tier, groups):
    programs = pack_programs(groups)
    jobs = []
    for i, (ty, shape, units) in enumerate(programs):
        native = any(u.native_ok for u in units)
        jobs.append({"id": "c06_%s_%d" % (ty, i),
                     "files": {"main.go": program_source(ty, units), "helpers_js.go": HELPERS_JS, "helpers_native.go": HELPERS_NATIVE},
                     "variants": ["plain"], "native": native, "timeout": 120})
    t0 = time.time()
    results = run_jobs(jobs, 14)
    chk.extra["program_wall_s"] = round(time.time() - t0, 1)
    # driver queries (deduplicated over shapes)
    qset = {}
    for _, _, units in programs:
        for u in units:
            for c in u.cases:
                qset.setdefault(c, None)
    qs = list(qset.keys())
    model = C.run_driver("C06", qs)
    spec = C.run_driver("C06", ["num spec " + q[4:] for q in qs])
    M = dict(zip(qs, model))
    S = dict(zip(qs, spec))
    # DOCUMENTED, PERMITTED DIFFERENCE (C01: "shifting by a negative count does not panic"): for a negative count Go panics, GopherJS
    # computes the JS shift (count masked with 31). Those cases are held to the model's answer (Lean: shift_negative_count_documented)
    # and are not compared with native Go.
    allowed_diff = set()
    for q in qs:
        p = q.split()
        if p[1] == "sh" and int(p[6]) < 0:
            S[q] = M[q]
            allowed_diff.add(q)
    nprog = 0
    ncases = 0
    native_cases = 0
    model_bugs = []
    for (ty, shape, units), job, res in zip(programs, jobs, results):
        nprog += 1
        js = progs.observe_js(res["runs"]["plain"])
        out = parse_output(js[0], units) if js[1] == "exit0" else None
        if out is None or any(len(out.get(u.uid, [])) != len(u.cases) for u in units):
            detail = js[1] if js[1] != "exit0" else "unexpected output shape"
            # the program as a whole did not run to completion under GopherJS: a property failure of this program
            chk.add_mismatch("programs", "program %s (%s %s: %s)" % (job["id"], ty, shape, ",".join(sorted(set(u.what for u in units)))[:300]),
                             detail + " | stderr: " + res["runs"]["plain"].get("stderr", "")[-300:], "exit0 with one result per case", signature=None)
            chk.notes.append({"program": job["id"], "source_head": job["files"]["main.go"][:1500]})
            continue
        nat = None
        if job["native"]:
            no = progs.observe_native(res["runs"]["native"])
            nat = parse_output(no[0], units) if no[1] == "exit0" else None
            if nat is None:
                raise RuntimeError("native run of %s failed: %s %s" % (job["id"], no[1], res["runs"]["native"].get("stderr", "")[-500:]))
        for u in units:
            ops = ["%s @%s" % (c, u.shape) for c in u.cases]
            impl = out[u.uid]
            mdl = [norm_bool(M[c]) for c in u.cases]
            spc = [norm_bool(S[c]) for c in u.cases]
            chk.compare("programs", ops, impl, mdl, spec=spc, signature=classify, kind=prog_kind)
            ncases += len(ops)
            if nat is not None and u.native_ok:
                nt = nat[u.uid]
                if len(nt) != len(u.cases):
                    raise RuntimeError("native output shape of %s/%s" % (job["id"], u.uid))
                for c, a, b in zip(u.cases, nt, spc):
                    if c in allowed_diff:
                        if a != "panic":
                            model_bugs.append((c, a, "panic (Go spec)"))
                        continue
                    native_cases += 1
                    if a != b:
                        model_bugs.append((c, a, b))
    if model_bugs:
        raise RuntimeError("MODEL-MISMATCH: the Lean spec disagrees with native Go on %d case(s), e.g. %s" % (len(model_bugs), model_bugs[:5]))
    chk.extra["programs"] = nprog
    chk.extra["program_cases"] = ncases
    chk.extra["native_validated_cases"] = native_cases
    chk.extra["distinct_driver_queries"] = len(qs)


# --------------------------------------------------------------------------------------------------------
# X-tie: the operator table of compiler/expressions.go, re-extracted on every run (go/ast, harness/cmd/gvh_c06)
# --------------------------------------------------------------------------------------------------------

def extract_optable():
    C.build_gvh("gvh_c06")
    p = C.run_gvh(["optable"], name="gvh_c06")
    if p.returncode != 0:
        raise RuntimeError("gvh_c06 optable failed: " + p.stderr[-2000:])
    ents = [json.loads(l) for l in p.stdout.split("\n") if l.strip()]
    return [(e["sec"], e["case"], e["guard"], e["text"]) for e in ents]


def write_generated(ents):
    import os
    gdir = os.path.join(C.LEAN, "GV", "Generated")
    os.makedirs(gdir, exist_ok=True)
    path = os.path.join(gdir, "OpTable.lean")

    def ls(x):
        return json.dumps(x, ensure_ascii=False)
    src = ("import GV.Model.NumOpTable\n/-! GENERATED by checks/c06.py from `gvh_c06 optable` (go/ast walk of compiler/expressions.go "
           "of the working tree); do not edit. -/\nnamespace GV.Generated\nopen GV.NumOpTable\ndef opTable : List OpEntry := [\n")
    src += ",\n".join("  ⟨%s, %s, %s, %s⟩" % tuple(ls(x) for x in e) for e in ents)
    src += "\n]\nend GV.Generated\n"
    if os.path.exists(path):
        os.unlink(path)
    open(path, "w").write(src)


def known_optable():
    n = int(C.run_driver("C06", ["num optable count"])[0])
    rows = C.run_driver("C06", ["num optable %d" % i for i in range(n)])
    return [tuple(r.split("\t")[:4]) for r in rows]


def check_optable(chk, tier):
    """returns the list of table entries that differ between the current source and GV.Model.NumOpTable (empty = tie intact)"""
    ents = extract_optable()
    write_generated(ents)
    envp = C.check_proofs("C06", ENV_THEOREMS, tier, module="GV.Props.C06Env")
    envp.obligations = ["GV.Props.C06." + t for t in ENV_THEOREMS]
    ax, _ = (C.audit("GV.Props.C06Env", envp.obligations) if envp.build_ok else ({}, ""))
    chk.proof.obligations += envp.obligations
    known = known_optable()
    changed = [e for e in ents if e not in known] + [k for k in known if k not in ents]
    if envp.build_ok and not changed:
        for t in envp.obligations:
            a = ax.get(t)
            chk.proof.axioms[t] = a
            if a is not None and set(a) <= C.ALLOWED_AXIOMS and not envp.forbidden:
                chk.proof.discharged.append(t)
            else:
                chk.proof.failed.append((t, "axioms %s forbidden %s" % (a, envp.forbidden[:3])))
    else:
        detail = "; ".join("[%s | %s | %s] %s" % e for e in changed[:6])[:1500]
        for t in envp.obligations:
            chk.proof.failed.append((t, "GV.Props.C06Env does not check against the re-extracted operator table; %d entries differ: %s" % (
                len(changed), detail)))
        chk.proof.build_log = envp.build_log
        if not changed:
            changed = [("extractor", "-", "-", "C06Env failed to build although the tables agree")]
        chk.notes.append({"optable_changed_entries": [list(e) for e in changed[:40]]})
    chk.extra["optable_entries"] = len(ents)
    chk.extra["optable_changed"] = len(changed)
    return changed


# --------------------------------------------------------------------------------------------------------
# Tie C: float32/float64/complex programs, GopherJS vs native Go (no Lean model: IEEE arithmetic is the engine's)
# --------------------------------------------------------------------------------------------------------
import math
import struct

FVALS = [0.0, -0.0, 1.0, -1.0, 0.5, 3.0, -2.5, 0.1, 1e300, 1e-300, 5e-324, 1.7976931348623157e308, float("inf"), float("-inf"),
         float("nan"), 16777217.0, 4294967296.5, 9007199254740992.0, 1.0000000000000002, -7.0]
CVALS = [0.0, -0.0, 1.0, -2.5, float("inf"), float("nan")]
CFIN = [1.0, -1.0, 2.5, -3.0, 0.1, 1e10]


def fbits(f):
    return struct.unpack("<Q", struct.pack("<d", f))[0]


def flit(f):
    return "math.Float64frombits(0x%016x)" % fbits(f)


F2I = {
    "int8": [-128.0, 127.0, -1.5, 1.5, 0.999, -0.999, -0.0, 100.7],
    "int16": [-32768.0, 32767.0, -1.5, 12345.678],
    "int32": [-2147483648.0, 2147483520.0, -1.5, 1.5, 0.999, -0.999, 123456.789, -0.0],
    "int": [-2147483648.0, 2147483520.0, -1.5, 65536.5],
    "uint8": [0.0, 255.0, 1.5, 254.999],
    "uint16": [0.0, 65535.0, 40000.5],
    "uint32": [0.0, 4294967040.0, 1.5, 2147483648.5],
    "uint": [0.0, 4294967040.0, 2147483648.5],
    "int64": [-9.2e18, 9.2e18, 1e15 + 0.5, -1e15 - 0.5, 4294967296.0, 0.5, -0.5, -4294967297.5, 9007199254740993.0],
    "uint64": [0.0, 1.8e19, 9.3e18, 4294967295.5, 0.99],
}
I2F = {
    "int32": [0, 1, -1, 2147483647, -2147483648, 16777217, -16777217],
    "uint32": [0, 4294967295, 16777217, 2147483648],
    "int64": [0, 1, -1, 9223372036854775807, -9223372036854775808, 9007199254740993, -9007199254740993, 4294967296, -4294967297, 1 << 62],
    "uint64": [0, 18446744073709551615, 9223372036854775808, 9007199254740993, 4294967296],
    "int8": [-128, 127], "uint16": [65535],
}


def float_build(part):
    """-> (main.go source, labels) ; every printed token corresponds to one label; part in float|complex"""
    labels = []
    src = ["package main", "", 'import "math"', "",
           "func fb(f float64) string {\n\tif f != f {\n\t\treturn \"NaN\"\n\t}\n\treturn s_uint64(math.Float64bits(f))\n}",
           "func fb32(f float32) string {\n\tif f != f {\n\t\treturn \"NaN\"\n\t}\n\treturn s_uint32(math.Float32bits(f))\n}",
           "var F = [...]float64{%s}" % ", ".join(flit(f) for f in FVALS),
           "var C = [...]float64{%s}" % ", ".join(flit(f) for f in CVALS),
           "var D = [...]float64{%s}" % ", ".join(flit(f) for f in CFIN),
           "func main() {"]
    if part == "float":
        src.append("\tfor i := 0; i < len(F); i++ {\n\t\tl := \"\"\n\t\tfor j := 0; j < len(F); j++ {\n\t\t\ta, b := F[i], F[j]\n"
                   "\t\t\tl += fb(a+b) + \" \" + fb(a-b) + \" \" + fb(a*b) + \" \" + fb(a/b) + \" \"\n"
                   "\t\t\tx, y := float32(a), float32(b)\n"
                   "\t\t\tl += fb32(x+y) + \" \" + fb32(x-y) + \" \" + fb32(x*y) + \" \" + fb32(x/y) + \" \" + fb32(float32(a*b)) + \" \"\n"
                   "\t\t\tl += tf(a == b) + tf(a < b) + tf(a <= b) + tf(a != b) + \" \"\n"
                   "\t\t}\n\t\tprintln(l)\n\t}")
        for a in FVALS:
            for b in FVALS:
                for op in ("f64add", "f64sub", "f64mul", "f64quo", "f32add", "f32sub", "f32mul", "f32quo", "f32round-of-f64mul", "f64cmp"):
                    labels.append("float %s %r %r" % (op, a, b))
        for ty, vals in F2I.items():
            src.append("\t{\n\t\tv := [...]float64{%s}\n\t\tl := \"\"\n\t\tfor i := 0; i < len(v); i++ {\n\t\t\tl += s_%s(%s(v[i])) + \" \" + s_%s(%s(float32(v[i]))) + \" \"\n\t\t}\n\t\tprintln(l)\n\t}" % (
                ", ".join(flit(f) for f in vals), ty, ty, ty, ty))
            for f in vals:
                labels.append("conv float64->%s %r" % (ty, f))
                labels.append("conv float32->%s %r" % (ty, struct.unpack("<f", struct.pack("<f", f))[0]))
        for ty, vals in I2F.items():
            src.append("\t{\n\t\tv := [...]%s{%s}\n\t\tl := \"\"\n\t\tfor i := 0; i < len(v); i++ {\n\t\t\tl += fb(float64(v[i])) + \" \" + fb32(float32(v[i])) + \" \"\n\t\t}\n\t\tprintln(l)\n\t}" % (
                ty, ", ".join(str(x) for x in vals)))
            for x in vals:
                labels.append("conv %s->float64 %d" % (ty, x))
                labels.append("conv %s->float32 %d" % (ty, x))
    else:
        # complex128 / complex64 on the class grid
        src.append("\tfor i := 0; i < len(C); i++ {\n\t\tfor j := 0; j < len(C); j++ {\n\t\t\tl := \"\"\n\t\t\tfor k := 0; k < len(C); k++ {\n\t\t\t\tfor m := 0; m < len(C); m++ {\n"
                   "\t\t\t\t\tn, d := complex(C[i], C[j]), complex(C[k], C[m])\n"
                   "\t\t\t\t\tq := n / d\n\t\t\t\t\tp := n * d\n"
                   "\t\t\t\t\tl += fb(real(q)) + \",\" + fb(imag(q)) + \" \" + fb(real(p)) + \",\" + fb(imag(p)) + \" \"\n"
                   "\t\t\t\t\tn32, d32 := complex64(n), complex64(d)\n\t\t\t\t\tp32 := n32 * d32\n"
                   "\t\t\t\t\tl += fb32(real(p32)) + \",\" + fb32(imag(p32)) + \" \"\n"
                   "\t\t\t\t}\n\t\t\t}\n\t\t\tprintln(l)\n\t\t}\n\t}")
        for a in CVALS:
            for b in CVALS:
                for c in CVALS:
                    for d in CVALS:
                        labels.append("complex128 quo (%r,%r) (%r,%r)" % (a, b, c, d))
                        labels.append("complex128 mul (%r,%r) (%r,%r)" % (a, b, c, d))
                        labels.append("complex64 mul (%r,%r) (%r,%r)" % (a, b, c, d))
        src.append("\tfor i := 0; i < len(D); i++ {\n\t\tfor j := 0; j < len(D); j++ {\n\t\t\tl := \"\"\n\t\t\tfor k := 0; k < len(D); k++ {\n\t\t\t\tfor m := 0; m < len(D); m++ {\n"
                   "\t\t\t\t\tq := complex(D[i], D[j]) / complex(D[k], D[m])\n"
                   "\t\t\t\t\tl += fb(real(q)) + \",\" + fb(imag(q)) + \" \"\n"
                   "\t\t\t\t}\n\t\t\t}\n\t\t\tprintln(l)\n\t\t}\n\t}")
        for a in CFIN:
            for b in CFIN:
                for c in CFIN:
                    for d in CFIN:
                        labels.append("complex128 quo (%r,%r) (%r,%r)" % (a, b, c, d))
    src.append("}")
    return "\n".join(src) + "\n", labels


# nested float32 / complex64 expressions: the intermediate of `(a op b) op c` must be rounded to single precision too
F32_BASE = [16777216.0, 16777215.0, 16777218.0, 1.0, 3.0, 0.5, -1.0, 8388609.0, 12345679.0, -16777215.0, 1e-45, 1.1754944e-38,
            3.4028235e38, 1.0000001, 0.1, 1 / 3.0, 33554432.0, 5e-39, 1e38, -2.5, 7.0, 1e-30, 16777217.0 * 3, 0.33333334]

F32_FORMS = [("lassoc-add", "(a + b) + c"), ("rassoc-add", "a + (b + c)"), ("add-sub-cancel", "(a + b) - a"), ("mul-add", "a*b + c"),
             ("mul-of-sum", "(a + b) * c"), ("sum-times", "a * (b - c)"), ("div-mul", "(a / b) * c"), ("diff-div", "(a - b) / c"),
             ("depth3-mixed", "(a + b*c) - a"), ("depth3-chain", "((a + b) + c) + b"), ("noparen-chain", "a + b + c"),
             ("mul-chain", "a * b * c"), ("compound-add", None), ("compound-mul", None), ("named-type", None)]


def f32(f):
    return struct.unpack("<f", struct.pack("<f", f))[0]


def f32lit(f):
    return "math.Float32frombits(0x%08x)" % struct.unpack("<I", struct.pack("<f", f))[0]


def float_nested_build(vals, forms, complex64=False):
    """-> (source, labels): every triple (a, b, c) of vals through every form; one token per (form, triple)"""
    labels = []
    src = ["package main", "", 'import "math"', "", "type myf32 float32", "",
           "func fb32(f float32) string {\n\tif f != f {\n\t\treturn \"NaN\"\n\t}\n\treturn s_uint32(math.Float32bits(f))\n}",
           "var V = [...]float32{%s}" % ", ".join(f32lit(v) for v in vals)]
    fnames = []
    if not complex64:
        for name, expr in forms:
            fn = "f_" + name.replace("-", "_")
            if name == "compound-add":
                body = "t := a\n\tt += b + c\n\treturn fb32(t)"
            elif name == "compound-mul":
                body = "t := a\n\tt *= b - c\n\treturn fb32(t)"
            elif name == "named-type":
                body = "x, y, z := myf32(a), myf32(b), myf32(c)\n\treturn fb32(float32((x + y) * z - x))"
            else:
                body = "return fb32(%s)" % expr
            src.append("func %s(a, b, c float32) string {\n\t%s\n}" % (fn, body))
            fnames.append((name, fn))
    else:
        for name, expr in [("c64-mul-mul", "(p * q) * r"), ("c64-add-add", "(p + q) + r"), ("c64-sum-mul", "(p + q) * r"), ("c64-noparen", "p * q + r")]:
            fn = "f_" + name.replace("-", "_")
            src.append("func %s(a, b, c float32) string {\n\tp, q, r := complex(a, b), complex(b, c), complex(c, a)\n\tz := %s\n"
                       "\treturn fb32(real(z)) + \",\" + fb32(imag(z))\n}" % (fn, expr))
            fnames.append((name, fn))
    src.append("func main() {\n\tfor i := 0; i < len(V); i++ {\n\t\tfor j := 0; j < len(V); j++ {\n\t\t\tl := \"\"\n\t\t\tfor k := 0; k < len(V); k++ {")
    for _, fn in fnames:
        src.append("\t\t\t\tl += %s(V[i], V[j], V[k]) + \" \"" % fn)
    src.append("\t\t\t}\n\t\t\tprintln(l)\n\t\t}\n\t}\n}")
    for a in vals:
        for b in vals:
            for c in vals:
                for name, _ in fnames:
                    labels.append("%s nested %s %r %r %r" % ("complex64" if complex64 else "float32", name, f32(a), f32(b), f32(c)))
    return "\n".join(src) + "\n", labels


def float_nested_jobs(rng, full):
    """programs of the nested float32 / complex64 family (full = the widened search after a broken float entry of the operator table)"""
    nv = 20 if full else 11
    base = F32_BASE[:9] + rng.sample(F32_BASE[9:], (nv - 9) - 2)
    for _ in range(2):   # 24-bit significands (odd), random exponent: sums and products of these need more than 24 bits
        base.append(f32((rng.getrandbits(23) | (1 << 23) | 1) * 2.0 ** rng.randint(-30, 30) * rng.choice([1, -1])))
    out = []
    per = max(1, 180000 // (len(base) ** 3 * 11))        # forms per program under the stdout clip
    for i in range(0, len(F32_FORMS), per):
        out.append(("f32nest%d" % (i // per),) + float_nested_build(base, F32_FORMS[i:i + per]))
    cbase = base[:8] if not full else base[:11]
    out.append(("c64nest",) + float_nested_build(cbase, None, complex64=True))
    return out


def _nums(label):
    out = []
    for x in label.replace("(", ",").replace(")", ",").replace(" ", ",").split(","):
        try:
            out.append(float(x))
        except ValueError:
            pass
    return out


def float_signature(label, impl, spec):
    p = label.split()
    if p[0] == "complex128" and p[1] == "quo":
        v = _nums(label)
        if any(x == 0 or math.isinf(x) or math.isnan(x) for x in v):
            return "C06 op=complex-quo operand-component in {0,-0,Inf,-Inf,NaN}"
        if len(v) == 4 and abs(v[2]) == abs(v[3]) and impl.replace("2147483648:0", "0:0") == spec.replace("2147483648:0", "0:0"):
            return "C06 op=complex-quo |re(d)|=|im(d)| zero-sign"
    return None


def run_float_tie(chk, full=False):
    jobs, labs = [], []
    for part in ("float", "complex"):
        src, labels = float_build(part)
        src += "\nfunc tf(b bool) string {\n\tif b {\n\t\treturn \"t\"\n\t}\n\treturn \"f\"\n}\n"
        jobs.append({"id": "c06_" + part, "files": {"main.go": src, "helpers_js.go": HELPERS_JS, "helpers_native.go": HELPERS_NATIVE},
                     "variants": ["plain"], "native": True, "timeout": 120})
        labs.append(labels)
    for name, src, labels in float_nested_jobs(chk.rng, full):
        jobs.append({"id": "c06_" + name, "files": {"main.go": src, "helpers_js.go": HELPERS_JS, "helpers_native.go": HELPERS_NATIVE},
                     "variants": ["plain"], "native": True, "timeout": 120})
        labs.append(labels)
    res = run_jobs(jobs, 12)
    n = 0
    for job, labels, r in zip(jobs, labs, res):
        js = progs.observe_js(r["runs"]["plain"])
        nat = progs.observe_native(r["runs"]["native"])
        tn = " ".join(nat[0]).split()
        if nat[1] != "exit0" or len(tn) != len(labels):
            raise RuntimeError("native float program failed: %s %d/%d" % (nat[1], len(tn), len(labels)))
        tj = " ".join(js[0]).split()
        if js[1] != "exit0" or len(tj) != len(labels):
            chk.add_mismatch("float-programs", "program " + job["id"], js[1] + " tokens=%d" % len(tj), "exit0 tokens=%d" % len(labels))
            continue
        for l, a, b in zip(labels, tj, tn):
            chk.add_case("float-programs", l, kindkey="float:" + " ".join(l.split()[:2]))
            n += 1
            if a != b:
                chk.add_mismatch("float-programs", l, a, b, signature=float_signature(l, a, b))
    chk.extra["float_program_cases"] = n


# --------------------------------------------------------------------------------------------------------
# Tie D: chains of unary operators written without parentheses (`- -a` is emitted as the JS decrement `--a`)
# --------------------------------------------------------------------------------------------------------
CHAIN_FORMS = [("negneg", "- -a"), ("negparenneg", "-(-a)"), ("notnot", "^ ^a"), ("negnot", "- ^a"), ("notneg", "^ -a")]


def wrap_ty(ty, v):
    bits, signed = TYPES[ty]
    v &= (1 << bits) - 1
    if signed and v >= 1 << (bits - 1):
        v -= 1 << bits
    return v


def fmt_ty(ty, v):
    if ty in BIG:
        h, l = halves(v, BIG[ty][1])
        return "%d:%d" % (h, l)
    return str(v)


def chain_spec(ty, name, x):
    r = {"negneg": x, "negparenneg": x, "notnot": x, "negnot": wrap_ty(ty, x + 1), "notneg": wrap_ty(ty, x - 1)}[name]
    return "%s/%s" % (fmt_ty(ty, r), fmt_ty(ty, x))


def chain_signature(label, impl, spec):
    """`- -a` (emitted as `--a`), `- ^a` at 0 / MIN were repaired by the fix C06-unary-minus: nothing is recorded any more"""
    return None


def run_chain_tie(chk):
    labels = []
    src = ["package main", ""]
    body = []
    for ty in TYPES:
        X = values(ty, chk.rng, 10)
        src.append(arr("X_" + ty, ty, X))
        for name, expr in CHAIN_FORMS:
            fn = "f_%s_%s" % (ty, name)
            src.append("func %s(a %s) string {\n\tr := %s\n\treturn s_%s(r) + \"/\" + s_%s(a)\n}" % (fn, ty, expr, ty, ty))
            body.append("\t{\n\t\tl := \"\"\n\t\tfor i := 0; i < len(X_%s); i++ {\n\t\t\tl += %s(X_%s[i]) + \" \"\n\t\t}\n\t\tprintln(l)\n\t}" % (ty, fn, ty))
            for x in X:
                labels.append("chain %s %s %d" % (ty, name, x))
    src.append("func main() {")
    src += body
    src.append("}")
    job = {"id": "c06_chain", "files": {"main.go": "\n".join(src) + "\n", "helpers_js.go": HELPERS_JS, "helpers_native.go": HELPERS_NATIVE},
           "variants": ["plain", "minify"], "native": True, "timeout": 60}
    r = run_jobs([job], 1)[0]
    nat = progs.observe_native(r["runs"]["native"])
    tn = " ".join(nat[0]).split()
    if nat[1] != "exit0" or len(tn) != len(labels):
        raise RuntimeError("native chain program failed: %s" % nat[1])
    specs = [chain_spec(l.split()[1], l.split()[2], int(l.split()[3])) for l in labels]
    for l, a, b in zip(labels, tn, specs):
        if l.split()[1] not in NATIVE_WIDTH_DIFFERS and a != b:
            raise RuntimeError("MODEL-MISMATCH: chain spec %s: native %s spec %s" % (l, a, b))
    for variant in ("plain", "minify"):
        js = progs.observe_js(r["runs"][variant])
        tj = " ".join(js[0]).split()
        if js[1] != "exit0" or len(tj) != len(labels):
            chk.add_mismatch("chain-programs", "program c06_chain " + variant, js[1], "exit0")
            continue
        for l, a, b in zip(labels, tj, specs):
            chk.add_case("chain-programs", l + " @" + variant, kindkey="chain:" + l.split()[2])
            if a != b:
                chk.add_mismatch("chain-programs", l + " @" + variant, a, b, signature=chain_signature(l, a, b))
    chk.extra["chain_program_cases"] = 2 * len(labels)


def run(tier, seed):
    chk = C.Check("C06", tier, seed)
    chk.rule = ("(A) calls of the real 64-bit constructor/$mul64/$div64/$shiftLeft64/$shiftRightInt64/$shiftRightUint64/$flatten64/$imul under Node "
                "on all pairs of a 28-value boundary grid, all shift counts 0..130 (+ huge), seeded random 64-bit patterns; "
                "(B) table-driven Go programs compiled by the real compiler, one unit per (type, operator, operand shape in var/nested/const), "
                "results read from the raw JS representation; a case is non-trivial when distinct (sha1 of op line incl. shape); "
                "impl (GopherJS) vs Lean scheme model vs Lean BitVec spec, native Go validates the spec for sized types; the constant shape "
                "puts the constant on either side and draws it from every 2^k-1, 2^k+1 (k = 1..width), odd values inside every (2^k, 2^(k+1)), "
                "their negatives, MIN/MAX, against run-time operands at MIN/MAX, 2^(w-1)+-1 and random odd full-width values; "
                "(C) float32/float64/complex programs vs native Go, bit-exact, incl. NESTED float32/complex64 expressions of depth 2-3 "
                "((a op b) op c, a op (b op c), compound assignment, named float32) on all triples of values whose intermediates are not "
                "float32-representable (2^24 neighbourhood, 24-bit significands, cancellation, overflow/underflow, subnormals); "
                "(X) the (operator case, guard path) -> emitted expression table of translateExpr/translateConversion/fixNumber is re-extracted "
                "with go/ast (gvh_c06) and must equal GV.Model.NumOpTable (GV.Props.C06Env.optable_known); when it does not, the widened search "
                "(all 8-bit pairs, full boundary grid, full constant grid for the affected operators) looks for a failing input")
    chk.trusted = ["Lean 4.33 kernel", "axioms: propext, Classical.choice, Quot.sound at most (listed per theorem)",
                   "hand-written models GV.Model.{JSInt,Num64,NumScheme} tied to numeric.js/types.js/expressions.go by these differential runs",
                   "GV.Spec.Num = BitVec reading of the Go spec, validated against native Go on the same cases"]
    chk.assumptions = ["JS numbers are modelled by mathematical integers; IEEE exactness below 2^53 is the proved side condition exact_doubles",
                       "x / y on doubles: the integer part of the rounded quotient equals the truncated exact quotient for |x|,|y| < 2^32 (argued, sampled)",
                       "V8 implements ToInt32/ToUint32/shift/bitwise/Math.imul per ECMAScript",
                       "native Go has 64-bit int/uint/uintptr: those types are checked against the Lean spec only",
                       "documented permitted difference (C01): a shift by a negative count does not panic; such cases are held to the "
                       "Lean model (shift_negative_count_documented) instead of the Go spec",
                       "$flatten64 of a 64-bit shift count >= 2^53 is inexact; only its comparisons with 0, 32, 64 matter (monotone rounding)"]
    t0 = time.time()
    chk.proof = C.check_proofs("C06", THEOREMS, tier)
    changed = check_optable(chk, tier)
    chk.extra["proof_wall_s"] = round(time.time() - t0, 1)
    t0 = time.time()
    # (A) helpers
    ops = helper_ops(tier, chk.rng)
    impl = C.run_node(ops)
    model = C.run_driver("C06", ops)
    spec = C.run_driver("C06", ["num spec " + o[4:] for o in ops])
    chk.compare("prelude-num64", ops, impl, model, spec=spec, kind=helper_kind)
    chk.extra["helper_cases"] = len(ops)
    chk.extra["helper_wall_s"] = round(time.time() - t0, 1)
    # (B) programs
    groups = gen_units(tier, chk.rng)
    float_changed = [e for e in changed if is_float_record(e)]
    int_changed = [e for e in changed if not is_float_record(e)]
    if int_changed:
        # the operator table obligation is broken on an integer entry: search for a failing input with the widened generator
        types, ops = affected_of(int_changed)
        wide, total = cap_groups(gen_units_widened(chk.rng, types, ops), chk.rng)
        chk.notes.append("operator table changed -> widened integer search over types %s, operators %s (%d cases, capped at %d)" % (
            sorted(types), sorted(ops), total, WIDENED_CASE_CAP))
        for k, us in wide.items():
            groups.setdefault(k, []).extend(us)
        chk.extra["widened_search"] = {"types": sorted(types), "operators": sorted(ops), "cases": total}
    if float_changed:
        chk.notes.append("operator table changed on %d float record(s) -> the float/complex program family runs its full nested grid" % len(float_changed))
        chk.extra["widened_float_search"] = len(float_changed)
    run_program_tie(chk, tier, groups)
    run_float_tie(chk, full=bool(float_changed) or tier == "thorough")
    run_chain_tie(chk)
    chk.extra["exhaustive"] = False
    chk.extra["exhaustive_subspace"] = ("all operand pairs of int8/uint8 for every binary operator and comparison, all three shapes"
                                        if tier == "thorough" else "none in the quick tier (boundary grid + random)")
    return chk.finish()


def replay(path):
    rep = json.load(open(path))
    bad = 0
    for m in rep.get("failing_inputs", []):
        op = m["op"]
        print(op, "\n  impl :", m["impl"], "\n  model:", m.get("model"), "\n  spec :", m["spec"])
        if op.startswith("num ") and "@" not in op:
            a = C.run_node([op])[0]
            b = C.run_driver("C06", ["num spec " + op[4:]])[0]
            print("  now: impl=%s spec=%s" % (a, b))
            bad += a != b
        else:
            bad += 1
    if not rep.get("failing_inputs"):
        print("no failing input recorded; broken obligations:", rep.get("broken_obligations"))
        return 1
    return 1 if bad else 0
