"""C01 — compiled programs behave like the reference Go toolchain (the part no other property owns).

Proof: GV.Props.C01 — `direct_correct` (direct-mode translation of for / if / switch / break / continue / labels =
reference semantics, for every statement and store), `desugar_once` (op-assign / inc-dec desugaring evaluates every
side-effecting operand once, in source order, and stores the Go result), `names_distinct_plain` (non-minified JS names in
scope are pairwise distinct and never reserved), + GV.Props.C01Env over facts regenerated from the working tree
(reserved keyword list ⊇ ECMAScript reserved words and the globals the generated code uses unqualified).
Ties (REAL compiler, in process, from the repo's working tree):
  a  generated programs (term of GV.Ctrl first, Go second): compiler accepts, emitted JS parses (`node --check`),
     GopherJS/Node trace+ending = native Go = Lean model (reference interpreter AND MiniJS interpreter of `direct s`);
  b  direct-mode skeleton of every non-flattened generated function in the emitted JS vs `GV.Direct.skel (direct s)`, and
     the temporaries of every op-assign action vs `GV.Desugar.desugar`;
  c  the real `newVariable` / `nestedFunctionContext` (hook of C16, called from harness/cmd/gvh_c01), minify off, on
     scope-tree request histories vs `GV.Names`, with the distinct / not-reserved oracle;
  k  known-finding witnesses and a small hand-written corpus (goto, fallthrough, closures, shadowing …) vs native Go.
"""
import json
import os
import re
import subprocess
import tempfile
import time
from concurrent.futures import ThreadPoolExecutor

from . import common as C
from . import progs as PR

# ======================================================================================
# generator, encoder, Go renderer and JS skeleton extractor.  A program is drawn as a term of the model's language first
# (GV.Ctrl statements over tables of concrete actions / conditions / call sites, see lean/GV/Driver/C01.lean) and rendered
# to Go second, so the Lean driver can evaluate it.
# ======================================================================================

ZERO = 12
MODV = 1009

# identifiers that are JavaScript reserved words, globals, property names of Object.prototype, names the compiler itself
# uses for temporaries, and non-ASCII identifiers.  (`console`, `Number`, `Uint8Array` are known findings, replayed apart.)
EXOTIC_LOCALS = ["arguments", "eval", "static", "let", "of", "undefined", "NaN", "Math", "Array", "Object", "String", "Date",
                 "Error", "Symbol", "Map", "Function", "JSON", "Infinity", "isNaN", "parseInt", "globalThis", "process",
                 "require", "module", "window", "self", "global", "Promise", "Boolean", "Set", "Int32Array", "Float64Array",
                 "err", "async", "await", "yield", "name", "length", "constructor", "prototype", "toString",
                 "hasOwnProperty", "valueOf", "__proto__", "this", "new", "delete", "typeof", "void", "with", "class",
                 "enum", "export", "extends", "super", "throw", "try", "catch", "finally", "function", "in", "instanceof",
                 "do", "while", "null", "debugger", "implements", "private", "public", "protected", "abstract", "boolean",
                 "byte", "char", "double", "final", "float", "long", "native", "short", "synchronized", "throws",
                 "transient", "volatile", "using", "DataView",
                 "_tmp", "_tuple", "_index", "_ptr", "_struct", "_slice", "_val", "_i", "_ref", "_key", "_r", "_q", "_v",
                 "_entry", "x", "y", "obj", "param", "$_", "é", "变", "ñ9", "Ω_1", "a·b"]
EXOTIC_LOCALS = [n for n in EXOTIC_LOCALS if "$" not in n and "·" not in n]
PLAIN_LOCALS = ["v%d" % i for i in range(8)] + ["k", "n", "w", "acc", "idx", "tmp", "lo", "hi", "i", "j", "row", "col", "cur", "nxt"]
EXOTIC_GLOBALS = ["arguments", "eval", "static", "let", "of", "undefined", "async", "await", "yield", "name", "self", "window",
                  "global", "process", "require", "module", "length", "constructor", "prototype", "toString", "valueOf",
                  "this", "new", "delete", "typeof", "void", "with", "class", "enum", "super", "throw", "try", "function",
                  "Math", "Array", "Object", "String", "NaN", "Infinity", "Symbol", "Map", "Error", "é", "_tmp", "_r"]
LABEL_NAMES = ["class", "let", "static", "enum", "await", "arguments", "eval", "of", "async", "delete", "new", "this",
               "typeof", "void", "with", "yield", "super", "throw", "try", "catch", "do", "while", "in", "function"]
# names the generated helper code uses; never handed out as variable names
HELPERS = {"at", "ix", "tr", "pg", "ps", "cnd", "cnq", "cl", "push", "runfs", "two", "h3", "P", "S", "T", "arr", "mp", "sv", "sl",
           "fs", "tv", "main", "r", "myInt", "idxs", "mkP", "pint", "sb", "ip", "sp", "any", "pp", "ppush", "runpp", "use_uint32", "use_uint", "use_uintptr", "use_uint8", "use_uint16", "u", "sw", "obs", "eqs", "strs", "n", "v", "w", "ok", "okA", "ch", "m", "t", "id"}


class Gen:
    def __init__(self, rng, size, maxdepth=5, focus=None):
        self.rng = rng
        self.size = size
        self.maxdepth = maxdepth
        self.focus = focus or {}
        self.acts = []      # [kind, a, b, c, d, e]
        self.conds = []     # [x, k, m, t, p]
        self.calls = []     # dict(callee, arg, dst, go)
        self.nlabels = 0
        self.fns = []       # dict(body, names[8], labels{n: name})
        self.kinds = {}
        self.gnames = []
        self.hidden = set()     # actions a Go `range` header performs implicitly (not rendered)

    def count(self, k):
        self.kinds[k] = self.kinds.get(k, 0) + 1

    def anyvar(self, cells=True):
        r = self.rng
        if cells and r.random() < 0.2:
            return r.randrange(13, 29)
        return r.choice([0, 1, 2, 3, 8, 9, 10, 11, ZERO])

    def namedvar(self):
        return self.rng.choice([0, 1, 2, 3, 8, 9, 10, 11])

    def dstvar(self):
        return self.rng.choice([0, 1, 1, 2, 3, 8, 9, 10, 11])

    def add_act(self, row):
        self.acts.append(list(row))
        return len(self.acts) - 1

    def new_act(self, simple=False):
        """simple=True: must render as ONE Go simple statement (usable as a for-post statement)"""
        r = self.rng
        w = {"plain": 4, "opassign": 4, "swap": 1, "rotate": 0.7, "tuple": 0.8}
        if not simple:
            w.update({"evalorder": 2.5, "closure": 0.8, "runfs": 0.5, "shadow": 1.2, "runpp": 0.4, "unsigned": 3.0, "ifaceconv": 3.0})
            if getattr(self, "_hdrs", None):
                # closures / pointers capturing loop HEADER variables of the enclosing loops (inner and outer)
                w.update({"capture-closure": 2.5, "capture-pointer": 2.0})
        for k, f in self.focus.get("act", {}).items():
            if k in w:
                w[k] *= f
        ks = list(w)
        k = r.choices(ks, [w[x] for x in ks])[0]
        self.count("act:" + k)
        if k == "plain":
            return self.add_act([0, self.dstvar(), self.anyvar(), self.anyvar(), r.randrange(0, 30),
                                 0 if simple else (1 if r.random() < 0.7 else 0)])
        if k == "opassign":
            lv = r.choice([0, 1, 2, 3, 4, 5, 5, 6])
            op = r.choice([0, 1, 4, 5, 6, 7, 8, 9, 10, 11, 12]) if lv == 6 else r.choice(list(range(13)) + [0, 2, 3])
            # wrappers around the side-effecting operands of the lvalue (GV.Desugar.idxOperand / baseOperand)
            wi = r.randrange(0, 14) if lv in (0, 2, 3, 4, 5) and r.random() < 0.7 else 0
            if wi == 13 and lv == 2:
                wi = 12          # a map[int]int key must be an int
            wb = 0
            if lv == 1 and r.random() < 0.6:
                wb = r.randrange(1, 4)
            if lv == 5 and r.random() < 0.6:
                wb = r.randrange(1, 5)
            self.count("opassign:lv%d" % lv)
            self.count("opassign:op%s" % OPNAMES[op])
            if lv != 6:
                self.count("opassign:index-wrapper:%s" % WI_NAMES[wi] if lv != 1 else "opassign:base-wrapper:%s" % WB_NAMES[wb])
                if lv == 5:
                    self.count("opassign:base-wrapper:%s" % WB_NAMES[wb])
            x = self.dstvar() if lv == 6 else self.anyvar(cells=False)
            return self.add_act([1, lv, x, op, self.anyvar(), wi + 16 * wb])
        if k == "swap":
            return self.add_act([2, r.randrange(0, 4), self.anyvar(cells=False), self.anyvar(cells=False), 0, 0])
        if k == "rotate":
            a, b, c = r.sample([0, 1, 2, 3, 8, 9, 10, 11], 3)
            return self.add_act([3, a, b, c, 0, 0])
        if k == "tuple":
            d1, d2 = r.sample([0, 1, 2, 3, 8, 9, 10, 11], 2)
            return self.add_act([9, d1, d2, self.anyvar(), self.anyvar(), 0])
        if k == "evalorder":
            form = r.randrange(0, 5)
            self.count("evalorder:form%d" % form)
            if form == 4 and getattr(self, "_ld", 0) > 0:
                self.count("closure-in-loop:immediately-called literal")
            z = self.namedvar() if form == 4 else self.anyvar()
            return self.add_act([4, self.dstvar(), self.anyvar(), self.anyvar(), z, form])
        if k == "closure":
            if getattr(self, "_ld", 0) > 0:
                self.count("closure-in-loop:captures per-iteration variable")
            return self.add_act([5, self.anyvar(), r.randrange(1, 9), 0, 0, 0])
        if k == "runfs":
            return self.add_act([6, 0, 0, 0, 0, 0])
        if k == "runpp":
            return self.add_act([13, 0, 0, 0, 0, 0])
        if k == "ifaceconv":
            kk, si = r.randrange(0, len(IK)), r.randrange(0, len(IS_NAMES))
            self.count("ifaceconv:kind:%s" % IK[kk][0])
            self.count("ifaceconv:site:%s" % IS_NAMES[si])
            return self.add_act([15, kk, si, r.choice([0, 1, 2, 3, 8, 9, 10, 11] + list(range(13, 29))), 0, 0])
        if k == "unsigned":
            # binary operator on an unsigned type with a boundary CONSTANT on either side and a run-time operand whose top bit
            # is often set; the result is used in sign-sensitive contexts (print, ==, >, /, conversion to 64 bit / float, switch, %)
            ty = r.randrange(0, 5)
            ops = [0, 0, 1, 2, 3, 7, 8, 10] if ty in (1, 2) else [0, 0, 1, 2, 3, 4, 5, 6, 7, 8, 9, 10]
            op = 0 if r.random() < 0.3 else r.choice(ops)
            # constants with the top bit set are the interesting ones for the 32-bit representation
            ci, side = r.choice([0, 1, 3, 4, 7, 0, 1, 3, 4, 7, 2, 5, 6]), r.randrange(0, 2)
            if op == 9 and ty in (1, 2):
                op = 10
            self.count("unsigned:%s %s const-%s" % (UTYPES[ty], UOPS[op], "left" if side else "right"))
            self.count("unsigned:const:%s" % UCONST_NAMES[ci])
            x = r.choice([0, 1, 2, 3, 8, 9, 10, 11] + list(range(13, 29)))
            return self.add_act([14, self.dstvar(), x, op, ci * 2 + side, ty])
        if k in ("capture-closure", "capture-pointer"):
            cv, is_range, depth_of = r.choice(self._hdrs)
            v = cv if not is_range or r.random() < 0.5 else cv + 25       # K (4+ld) or the range value V (29+ld)
            inner = depth_of == len(self._hdrs) - 1
            self.count("capture:%s:%s-loop %s header variable%s" % (
                "closure" if k == "capture-closure" else "pointer", "range" if is_range else "for",
                "inner" if inner else "outer", " at nesting depth %d" % len(self._hdrs)))
            if k == "capture-closure":
                return self.add_act([11, v, r.randrange(1, 9), 0, 0, 0])
            return self.add_act([12, v, 0, 0, 0, 0])
        if k == "shadow":
            x = self.namedvar()
            dst = r.choice([v for v in [0, 1, 2, 3, 8, 9, 10, 11] if v != x])
            return self.add_act([7, dst, x, r.randrange(0, 30), 0, 0])
        raise AssertionError(k)

    def new_cond(self, x=None, k=None, m=None, t=None, p=None):
        r = self.rng
        m = r.choice([2, 3, 4, 5]) if m is None else m
        c = [self.anyvar() if x is None else x, r.randrange(0, 9) if k is None else k, m,
             r.randrange(1, m) if t is None else t, (1 if r.random() < 0.5 else 0) if p is None else p]
        self.conds.append(c)
        return len(self.conds) - 1

    def new_call(self, j):
        go = self.rng.choice(["direct", "direct", "funcvalue", "method"])
        self.count("call:" + go)
        self.calls.append(dict(callee=j, arg=self.anyvar(), dst=self.dstvar(), go=go))
        return len(self.calls) - 1

    def stmts(self, ctx, n, tail_branch=True):
        out = []
        for i in range(n):
            if ctx["budget"][0] <= 0:
                break
            out.append(self.stmt(ctx, i == n - 1 and tail_branch))
        return out

    def stmt(self, ctx, may_branch):
        r = self.rng
        self._ld = ctx["ld"]
        self._hdrs = ctx.get("hdrs", [])
        ctx["budget"][0] -= 1
        d = ctx["depth"]
        w = {"act": 7}
        if ctx["fi"] + 1 < ctx["nf"]:
            w["fn"] = 1.5
        if d < self.maxdepth:
            w["if"] = 3
            w["switch"] = 2.5
            w["block"] = 0.4
            if ctx["ld"] < 3:
                w["loop"] = 3
        if may_branch:
            if ctx["brk"]:
                w["break"] = 2
            if ctx["loops"]:
                w["continue"] = 2.5
            if d > 0:
                w["return"] = 0.5
        for k, f in self.focus.get("stmt", {}).items():
            if k in w:
                w[k] *= f
        ks = list(w)
        k = r.choices(ks, [w[x] for x in ks])[0]
        self.count("stmt:" + k)
        if k == "act":
            return ("A", self.new_act())
        if k == "fn":
            return ("C", self.new_call(r.randrange(ctx["fi"] + 1, ctx["nf"])))
        if k == "block":
            return ("{", self.stmts(dict(ctx, depth=d + 1), r.randrange(1, 3)))
        if k == "return":
            return ("R",)
        if k == "break":
            cands = [x for x in ctx["brk"] if x[0] is not None]
            if cands and r.random() < 0.45:
                lab, refs = r.choice(cands)
                refs.append(1)
                self.count("break:labelled")
                return ("B", lab)
            return ("B", None)
        if k == "continue":
            cands = [x for x in ctx["loops"] if x[0] is not None]
            if cands and r.random() < 0.45:
                lab, refs = r.choice(cands)
                refs.append(1)
                self.count("continue:labelled")
                return ("T", lab)
            return ("T", None)
        if k == "if":
            return self.gen_if(ctx, r.randrange(1, 4))
        if k == "switch":
            return self.gen_switch(ctx)
        if k == "loop":
            return self.gen_loop(ctx)
        raise AssertionError(k)

    def gen_if(self, ctx, nclauses):
        r = self.rng
        c2 = dict(ctx, depth=ctx["depth"] + 1)
        c = self.new_cond()
        then = self.stmts(c2, r.randrange(1, 3))
        if nclauses > 1:
            els = self.gen_if(ctx, nclauses - 1)
        elif r.random() < 0.5:
            els = ("{", self.stmts(c2, r.randrange(1, 3)))
        else:
            els = None
        return ("I", c, then, els)

    def new_label(self):
        self.nlabels += 1
        return self.nlabels

    def gen_switch(self, ctx):
        r = self.rng
        lab = self.new_label() if r.random() < 0.4 else None
        refs = []
        c2 = dict(ctx, depth=ctx["depth"] + 1, brk=ctx["brk"] + [(lab, refs)])
        ncl = r.randrange(1, 4)
        clauses = []
        for _ in range(ncl):
            clauses.append((self.new_cond(), self.stmts(c2, r.randrange(1, 3))))
        default = self.stmts(c2, r.randrange(1, 3)) if r.random() < 0.6 else None
        if default is not None and len(default) == 0:
            default = None
        nlast = len(clauses) - 1 if default is None else len(clauses)
        ft = [i < nlast and r.random() < 0.25 for i in range(len(clauses))]
        if any(ft):
            self.count("switch:fallthrough")
        return ("W", lab if refs else None, clauses, default, ft)

    def gen_loop(self, ctx):
        r = self.rng
        ld = ctx["ld"]
        cv = 4 + ld
        lab = self.new_label() if r.random() < 0.55 else None
        refs = []
        is_range = r.random() < 0.3
        c2 = dict(ctx, depth=ctx["depth"] + 1, ld=ld + 1, loops=ctx["loops"] + [(lab, refs)], brk=ctx["brk"] + [(lab, refs)],
                  hdrs=ctx.get("hdrs", []) + [(cv, is_range, ld)])
        if is_range:
            # for K, V := range [n]int{c, c+3, ...}: header variables K, V (Go 1.20: one pair per execution of the statement),
            # hidden index 32+ld; in the term: cond `idx < n`, body prefix K = idx; V = 3*idx + c, post idx++
            n, c = r.choice([2, 3]), r.randrange(0, 20)
            self.count("loop:range")
            alloc = self.add_act([10, ld, 0, 1, n, c])
            cond = self.new_cond(x=32 + ld, k=0, m=MODV, t=n, p=0)
            ak = self.add_act([0, cv, 32 + ld, ZERO, 0, 0])
            av = self.add_act([0, 29 + ld, 32 + ld, 32 + ld, c, 0])
            post = self.add_act([0, 32 + ld, 32 + ld, ZERO, 1, 0])
            self.hidden.update([ak, av, post])
            body = [("A", ak), ("A", av)] + self.stmts(c2, r.randrange(1, 4))
            return ("{", [("A", alloc), ("L", lab if refs else None, cond, ("a", post), body)])
        bound = r.randrange(1, 4)
        variant = r.choice(["post-act", "post-act", "post-opassign", "post-call", "cond-only", "forever"])
        if variant == "post-call" and ctx["fi"] + 1 >= ctx["nf"]:
            variant = "post-act"
        self.count("loop:" + variant)
        # `for H := at(id, 0); …`: H is a header variable, created once per execution of the for statement
        init = ("A", self.add_act([10, ld, 0, 0, 0, 0]))
        cond = self.new_cond(x=cv, k=0, m=MODV, t=bound, p=1 if r.random() < 0.3 else 0)
        pre = []
        post = None
        lc = cond
        inc = lambda: ("A", self.add_act([0, cv, cv, ZERO, 1, 0]))
        if variant == "post-act":
            post = ("a", inc()[1])
        elif variant == "post-opassign":
            # the counter is advanced at the top of the body; the post statement is an op-assign / swap / tuple action
            pre = [inc()]
            post = ("a", self.new_act(simple=True))
        elif variant == "post-call":
            pre = [inc()]
            post = ("c", self.new_call(r.randrange(ctx["fi"] + 1, ctx["nf"])))
        elif variant == "cond-only":
            pre = [inc()]
        else:
            lc = None
            nc = self.new_cond(x=cv, k=MODV - bound, m=MODV, t=MODV - bound, p=0)
            pre = [("I", nc, [("B", None)], None), inc()]
        body = pre + self.stmts(c2, r.randrange(1, 4))
        return ("{", [init, ("L", lab if refs else None, lc, post, body)])

    def pick_names(self, pool_exotic, pool_plain, n, avoid):
        r = self.rng
        names = []
        while len(names) < n:
            c = r.choice(pool_exotic) if r.random() < 0.6 else r.choice(pool_plain)
            if c not in names and c not in avoid and c not in HELPERS:
                names.append(c)
        return names

    def gen_fn(self, fi, nf):
        ctx = dict(fi=fi, nf=nf, depth=0, ld=0, loops=[], brk=[], budget=[self.size])
        l0 = self.nlabels
        body = self.stmts(ctx, self.rng.randrange(2, 6), tail_branch=False)
        body.append(("R",))
        names = self.pick_names(EXOTIC_LOCALS, PLAIN_LOCALS, 11, set(self.gnames))
        labels = {}
        used = set()
        for n in range(l0 + 1, self.nlabels + 1):
            if self.rng.random() < 0.5:
                c = self.rng.choice(LABEL_NAMES)
                if c not in used:
                    used.add(c)
                    labels[n] = c
                    continue
            labels[n] = "L%d" % n
        self.fns.append(dict(body=body, names=names, labels=labels))


def gen_program(rng, size, maxdepth=5, focus=None):
    g = Gen(rng, size, maxdepth, focus)
    g.gnames = g.pick_names(EXOTIC_GLOBALS, ["g0", "g1", "g2", "g3", "total", "state"], 4, set())
    nf = rng.randrange(1, 6)
    for fi in range(nf):
        g.gen_fn(fi, nf)
    return g


# --------------------------------------------------------------------------------------
# encoding for the Lean driver (same prefix grammar as the C02 driver)
# --------------------------------------------------------------------------------------

def lab(l):
    return "-" if l is None else str(l)


def enc_list(stmts):
    if not stmts:
        return ["K"]
    if len(stmts) == 1:
        return enc_stmt(stmts[0])
    return ["S"] + enc_stmt(stmts[0]) + enc_list(stmts[1:])


def enc_else(els):
    if els is None:
        return ["K"]
    if els[0] == "I":
        return enc_stmt(els)
    return ["{"] + enc_list(els[1])


def enc_default(body):
    # astrewrite toElseBranch: a default body that is a single if / block statement becomes the else branch itself
    if body is None:
        return ["K"]
    if len(body) == 1 and body[0][0] in ("I", "{"):
        return enc_stmt(body[0])
    return ["{"] + enc_list(body)


def enc_stmt(s):
    k = s[0]
    if k == "A":
        return ["A", str(s[1])]
    if k == "C":
        return ["C", str(s[1])]
    if k == "{":
        return ["{"] + enc_list(s[1])
    if k == "R":
        return ["R"]
    if k == "B":
        return ["B", lab(s[1])]
    if k == "T":
        return ["T", lab(s[1])]
    if k == "I":
        return ["I", str(s[1])] + enc_list(s[2]) + enc_else(s[3])
    if k == "L":
        post = ["N"] if s[3] is None else [s[3][0], str(s[3][1])]
        return ["L", lab(s[1]), lab(s[2])] + post + enc_list(s[4])
    if k == "W":
        bodies = [list(b) for _, b in s[2]] + ([list(s[3])] if s[3] is not None else [])
        ft = list(s[4]) + ([False] if s[3] is not None else [])
        eff = []
        for i in range(len(bodies)):
            acc = list(bodies[i])
            j = i
            while ft[j]:
                j += 1
                acc += bodies[j]
            eff.append(acc)

        def chain(i):
            if i == len(s[2]):
                return enc_default(eff[i] if s[3] is not None else None)
            return ["I", str(s[2][i][0])] + enc_list(eff[i]) + chain(i + 1)
        return ["W", lab(s[1])] + chain(0)
    raise AssertionError(k)


def enc_prog(g):
    def tab(rows):
        return ";".join(".".join(str(x) for x in r) for r in rows) if rows else "-"
    return "%s/%s/%s/%s" % (tab(g.acts), tab(g.conds), tab([(c["callee"], c["arg"], c["dst"]) for c in g.calls]),
                            ";".join(",".join(enc_list(f["body"])) for f in g.fns))


# --------------------------------------------------------------------------------------
# rendering to Go
# --------------------------------------------------------------------------------------

PRELUDE = """package main

var %(G0)s, %(G1)s, %(G2)s, %(G3)s int = 1, 2, 3, 5

var arr = [4]int{10, 20, 30, 40}
var mp = map[int]int{}
var sl = []int{5, 9, 2, 6}

type S struct {
	x [4]int
	n int
}

var sv = S{x: [4]int{3, 1, 4, 1}}

type P struct{ a, b int }

func (p P) sum() int { return (p.a + 5*p.b) %% 1009 }

func (s *S) m(a, b int) int { return (a + 3*b + s.x[0]) %% 1009 }

var fs []func() int

func at(id, x int) int { return x }
func cl(id, x int) int { return x }
func ix(id, x int) int { println("i", id, x&3); return x & 3 }
func tr(id, y int) int { println("t", id, y); return y }
func cnd(id int, b bool) bool { println("c", id, b); return b }
func cnq(id int, b bool) bool { return b }
func ps(id int) *S { println("s", id); return &sv }
func two(a, b int) (int, int) { return b, a }
func h3(a, b, c int) int { return (a + 2*b + 3*c) %% 1009 }

func pg(id, x int) *int {
	println("p", id, x&3)
	switch x & 3 {
	case 0:
		return &%(G0)s
	case 1:
		return &%(G1)s
	case 2:
		return &%(G2)s
	}
	return &%(G3)s
}

var pp []*int

func ppush(id int, p *int) {
	if len(pp) < 12 {
		pp = append(pp, p)
	}
}

func runpp(id int) {
	for _, p := range pp {
		*p += 1
		println("q", id, *p)
	}
}

func push(id int, f func() int) {
	if len(fs) < 12 {
		fs = append(fs, f)
	}
}

func runfs(id int) {
	for _, f := range fs {
		println("f", id, f())
	}
}

type T struct{ pad int }

var tv T


func use_uint32(id int, r, c uint32) {
	sw := "d"
	switch r {
	case c:
		sw = "k"
	case 0:
		sw = "z"
	}
	println("u", id, r, r == c, r > 0x80000000-1, r/3, int(uint64(r)>>31), float64(r) >= 0x80000000, sw)
}

func use_uint(id int, r, c uint) {
	sw := "d"
	switch r {
	case c:
		sw = "k"
	case 0:
		sw = "z"
	}
	println("u", id, r, r == c, r > 0x80000000-1, r/3, int(uint64(r)>>31), float64(r) >= 0x80000000, sw)
}

func use_uintptr(id int, r, c uintptr) {
	sw := "d"
	switch r {
	case c:
		sw = "k"
	case 0:
		sw = "z"
	}
	println("u", id, r, r == c, r > 0x80000000-1, r/3, int(uint64(r)>>31), float64(r) >= 0x80000000, sw)
}

func use_uint8(id int, r, c uint8) {
	sw := "d"
	switch r {
	case c:
		sw = "k"
	case 0:
		sw = "z"
	}
	println("u", id, r, r == c, r > 0x80-1, r/3, int(uint64(r)>>7), float64(r) >= 0x80, sw)
}

func use_uint16(id int, r, c uint16) {
	sw := "d"
	switch r {
	case c:
		sw = "k"
	case 0:
		sw = "z"
	}
	println("u", id, r, r == c, r > 0x8000-1, r/3, int(uint64(r)>>15), float64(r) >= 0x8000, sw)
}

type myInt int
type ip *int
type sp *S

var idxs = [4]int{0, 1, 2, 3}

func mkP(a int) P { return P{a, 0} }
func pint(x int) *int { v := x; return &v }
func sb(j int) string { return string(rune(j)) }
"""

CELLS = ["arr[%d]", "mp[%d]", "sv.x[%d]", "sl[%d]"]
OPS = {0: "+=", 1: "-="}
# implicit conversions to interface types: boxed kinds (name, Go type, value expression in n, comparable?, JS boxing pattern)
IK = [("int", "int", "n", True, r"new \$Int\("), ("string", "string", "strs[n&3]", True, r"new \$String\("),
      ("bool", "bool", "n&1 == 1", True, r"new \$Bool\("), ("float64", "float64", "float64(n)", True, r"new \$Float64\("),
      ("myInt", "myInt", "myInt(n)", True, r"new myInt\("), ("uint8", "uint8", "uint8(n)", True, r"new \$Uint8\("),
      ("arr", "[2]int", "[2]int{n, 7}", True, r"new arrayType(\$\d+)?\("), ("map", "map[int]int", "map[int]int{1: n}", False, r"new mapType(\$\d+)?\("),
      ("fn", "func() int", "func() int { return 0 }", False, r"new funcType(\$\d+)?\("),
      ("chan", "chan int", "make(chan int, 2)", False, r"new chanType(\$\d+)?\("),
      ("P", "P", "P{n, 1}", True, None), ("ptrS", "*S", "&S{n: n}", False, None)]
IS_NAMES = ["return g() (multi-value forwarding)", "f(g()) (multi-value call as argument list)", "a, b = g()", "var a, b I = g()",
            "channel send", "map store", "slice literal element", "struct literal field", "map literal value", "range variable",
            "return v", "var v I = v", "argument", "named results v, ok = g(); return", "return g() (3 results, middle one interface)"]


def iface_site(k, si):
    """Go source of the site function sk<k>_<si>(id, n int) and its helpers"""
    name, T, VAL, cmp_, _ = IK[k]
    H = "sk%d_%d" % (k, si)
    val, two, pair, tri = "val%d(n)" % k, "two%d(n)" % k, "pair%d(n)" % k, "tri%d(n)" % k
    helper, body = "", ""
    if si == 0:
        helper = "func %s_h(n int) (interface{}, bool) { return %s }" % (H, two)
        body = "v, _ := %s_h(n)" % H
    elif si == 1:
        helper = "func %s_h(v interface{}, ok bool) interface{} { return v }" % H
        body = "v := %s_h(%s)" % (H, two)
    elif si == 2:
        body = "var v interface{}; var ok bool; v, ok = %s; _ = ok" % two
    elif si == 3:
        body = "var v, w interface{} = %s; _ = w" % pair
    elif si == 4:
        body = ("ch := make(chan interface{}, 1); select { case ch <- %s: default: }; var v interface{}; "
                "select { case v = <-ch: default: }") % val
    elif si == 5:
        body = "m := map[int]interface{}{}; m[1] = %s; v := m[1]" % val
    elif si == 6:
        body = "v := []interface{}{%s}[0]" % val
    elif si == 7:
        body = "v := struct{ f interface{} }{%s}.f" % val
    elif si == 8:
        body = "v := map[int]interface{}{1: %s}[1]" % val
    elif si == 9:
        body = "var v interface{}; for _, v = range []%s{%s} { }" % (T, val)
    elif si == 10:
        helper = "func %s_h(n int) interface{} { return %s }" % (H, val)
        body = "v := %s_h(n)" % H
    elif si == 11:
        body = "var v interface{} = %s" % val
    elif si == 12:
        helper = "func %s_h(v interface{}) interface{} { return v }" % H
        body = "v := %s_h(%s)" % (H, val)
    elif si == 13:
        helper = "func %s_h(n int) (v interface{}, ok bool) { v, ok = %s; return }" % (H, two)
        body = "v, _ := %s_h(n)" % H
    else:
        helper = "func %s_h(n int) (int, interface{}, bool) { return %s }" % (H, tri)
        body = "_, v, _ := %s_h(n)" % H
    eq = "okA && v == interface{}(%s)" % val if cmp_ else "okA"
    return "%s\nfunc %s(id, n int) { %s; _, okA := v.(%s); obs(id, v, eqs(%s)) }\n" % (helper, H, body, T, eq)


def iface_kind_helpers(k):
    name, T, VAL, _, _ = IK[k]
    return ("func val%d(n int) %s { return %s }\nfunc two%d(n int) (%s, bool) { return %s, n&1 == 0 }\n"
            "func pair%d(n int) (%s, %s) { return %s, %s }\nfunc tri%d(n int) (int, %s, bool) { return n, %s, true }\n") % (
        k, T, VAL, k, T, VAL, k, T, T, VAL, VAL, k, T, VAL)


OBS_SRC = """
var strs = []string{"a", "bb", "ccc", "dddd"}

func eqs(b bool) string {
	if b {
		return "true"
	}
	return "false"
}

func obs(id int, v interface{}, eq string) {
	k, x := "other", -1
	switch t := v.(type) {
	case int:
		k, x = "int", t
	case string:
		k, x = "string", len(t)
	case bool:
		k, x = "bool", 0
		if t {
			x = 1
		}
	case float64:
		k, x = "float64", int(t)
	case myInt:
		k, x = "myInt", int(t)
	case uint8:
		k, x = "uint8", int(t)
	case [2]int:
		k, x = "arr", t[0]
	case map[int]int:
		k, x = "map", t[1]
	case func() int:
		k, x = "fn", 0
	case chan int:
		k, x = "chan", cap(t)
	case P:
		k, x = "P", t.a
	case *S:
		k, x = "ptrS", t.n
	}
	println("v", id, k, x, eq)
}
"""


def iface_sources(pairs):
    ks = sorted({k for k, _ in pairs})
    return OBS_SRC + "".join(iface_kind_helpers(k) for k in ks) + "".join(iface_site(k, si) for k, si in sorted(set(pairs)))


UTYPES = ["uint32", "uint", "uintptr", "uint8", "uint16"]
UOPS = ["&", "|", "^", "&^", "+", "-", "*", "/", "%", "<<", ">>"]
UCONST_NAMES = ["top-bit", "all-ones", "top-bit-clear", "upper-half", "upper-nibble", "one", "0x55..", "0xAA.."]


def uwidth(ty):
    return {3: 8, 4: 16}.get(ty, 32)


def uconst(w, ci):
    m = 1 << w
    return [m // 2, m - 1, m // 2 - 1, m - (1 << (w // 2)), 15 << (w - 4), 1, (m - 1) // 3, (m - 1) // 3 * 2][ci % 8]


def ushift(w, ci):
    return [1, w - 1, w // 2, 3][ci % 4]
OPNAMES = ["+=", "-=", "++", "--", "%=", "*=", "/=", "|=", "&=", "^=", "&^=", ">>=", "<<="]
WI_NAMES = ["call", "numeric-conversion", "named-conversion", "parens", "unary", "binary", "index-of-index+conversion",
            "type-assertion", "func-literal-called", "composite-literal", "selector-of-call", "deref-of-call",
            "conversion-of-index-of-slice-conversion", "index-of-slice-conversion"]
WB_NAMES = ["call", "parens", "pointer-conversion", "named-pointer-conversion", "deref-of-call"]


class Render:
    def __init__(self, g):
        self.g = g
        self.out = []
        self.names = None
        self.labels = None

    def emit(self, ind, s):
        self.out.append("\t" * ind + s)

    def vn(self, v):
        if v < 8:
            return self.names[v]
        if v < 12:
            return self.g.gnames[v - 8]
        if v == ZERO:
            return "0"
        if 29 <= v <= 31:
            return self.names[8 + v - 29]          # range value variable of the loop at depth v-29
        if v >= 32:
            raise AssertionError("the hidden range index is never rendered")
        return CELLS[(v - 13) // 4] % ((v - 13) % 4)

    def cond(self, cid):
        x, k, m, t, p = self.g.conds[cid]
        return "%s(%d, (%s+%d)%%%d < %d)" % ("cnd" if p else "cnq", cid, self.vn(x), k, m, t)

    def act_lines(self, aid):
        """Go statements of action `aid` (a list; the first one alone when used as a for-post statement)"""
        kind, a, b, c, d, e = self.g.acts[aid]
        vn = self.vn
        if kind == 0:
            ls = ["%s = at(%d, (%s + 2*%s + %d) %% 1009)" % (vn(a), aid, vn(b), vn(c), d)]
            if e:
                ls.append('println("a", %d, %s)' % (aid, vn(a)))
            return ls
        if kind == 1:
            lv, x, op, y = a, b, c, d
            wi, wb = e % 16, e // 16
            call = "ix(%d, %s)" % (aid, vn(x))
            i = [call, "int(uint8(%s))" % call, "int(myInt(%s))" % call, "(%s)" % call, "-(-%s)" % call, "%s&3" % call,
                 "idxs[uint8(%s)]" % call, "any(%s).(int)" % call, "func() int { return %s }()" % call,
                 "[1]int{%s}[0]" % call, "mkP(%s).a" % call, "*pint(%s)" % call, "int([]uint8(sb(%s))[0])" % call,
                 "[]uint8(sb(%s))[0]" % call][wi]
            pgc = "pg(%d, %s)" % (aid, vn(x))
            ptr = [pgc, "(%s)" % pgc, "(*int)(%s)" % pgc, "(*int)(ip(%s))" % pgc][wb] if lv == 1 else None
            psc = "ps(%d)" % aid
            base = [psc, "(%s)" % psc, "(*S)(%s)" % psc, "(*S)(sp(%s))" % psc, "(*%s)" % psc][wb] if lv == 5 else None
            lhs = ["arr[%s]" % i, "*%s" % ptr, "mp[%s]" % i, "sv.x[%s]" % i, "sl[%s]" % i,
                   "%s.x[%s]" % (base, i), vn(x)][lv]
            t = "tr(%d, %s)" % (aid, vn(y))
            if op in OPS:
                return ["%s %s %s" % (lhs, OPS[op], t)]
            if op == 2:
                return [lhs + "++"]
            if op == 3:
                return [lhs + "--"]
            rhs = {4: "%s&7 + 1", 5: "(%s&1)*2 - 1", 6: "%s&3 + 1", 7: "%s&1023", 8: "%s&1023", 9: "%s&1023", 10: "%s&1023",
                   11: "uint(%s&3)", 12: "uint(%s&0)"}[op] % t
            return ["%s %s %s" % (lhs, OPNAMES[op], rhs)]
        if kind == 2:
            cell = ["arr[%s]", "mp[%s]", "sv.x[%s]", "sl[%s]"][a]
            i, j = "%s&3" % vn(b), "%s&3" % vn(c)
            return ["%s, %s = %s, %s" % (cell % i, cell % j, cell % ("at(%d, %s)&3" % (aid, vn(c))), cell % i)]
        if kind == 3:
            return ["%s, %s, %s = %s, %s, at(%d, %s)" % (vn(a), vn(b), vn(c), vn(b), vn(c), aid, vn(a))]
        if kind == 9:
            return ["%s, %s = two(tr(%d, %s), tr(%d, %s))" % (vn(a), vn(b), aid, vn(c), aid + 1000, vn(d))]
        if kind == 4:
            dst, x, y, z, form = a, b, c, d, e
            t0, t1, t2 = "tr(%d, %s)" % (aid, vn(x)), "tr(%d, %s)" % (aid + 1000, vn(y)), "tr(%d, %s)" % (aid + 2000, vn(z))
            ex = ["(%s - (%s&63)*(%s&63)) %% 1009" % (t0, t1, t2),
                  "h3(%s, %s, %s)" % (t0, t1, t2),
                  "ps(%d).m(%s, %s)" % (aid, t0, t1),
                  "P{%s, %s}.sum()" % (t0, t1),
                  "func(a, b int) int { return (a + 7*b + %s) %% 1009 }(%s, %s)" % (vn(z), t0, t1)][form]
            return ["%s = at(%d, %s)" % (vn(dst), aid, ex), 'println("a", %d, %s)' % (aid, vn(dst))]
        if kind == 5:
            return ["{ j := %s; push(%d, func() int { j += %d; return j }) }" % (vn(a), aid, b)]
        if kind == 6:
            return ["runfs(%d)" % aid]
        if kind == 10:
            return ["%s := at(%d, %d)" % (vn(4 + a), aid, b)]
        if kind == 11:
            return ["push(%d, func() int { %s += %d; return %s })" % (aid, vn(a), b, vn(a))]
        if kind == 12:
            return ["ppush(%d, &%s)" % (aid, vn(a))]
        if kind == 13:
            return ["runpp(%d)" % aid]
        if kind == 15:
            return ["sk%d_%d(%d, %s)" % (a, b, aid, vn(c))]
        if kind == 14:
            dst, x, op, cs, ty = a, b, c, d, e
            T, w = UTYPES[ty], uwidth(ty)
            ci, side = cs // 2, cs % 2
            C = "0x%X" % uconst(w, ci)
            o = UOPS[op]
            if op in (9, 10):
                ex = "u %s %d" % (o, ushift(w, ci)) if side == 0 else "%s(%s) %s (u & 7)" % (T, C, o)
            elif op in (7, 8):
                ex = "u %s (%s | 1)" % (o, C) if side == 0 else "%s %s (u | 1)" % (C, o)
            else:
                ex = "u %s %s" % (o, C) if side == 0 else "%s %s u" % (C, o)
            return ["{ u := %s(uint32(%s)*2654435761 + 0x9E3779B9); r := %s; use_%s(%d, r, %s); %s = at(%d, int(r %% 251)) }" % (
                T, vn(x), ex, T, aid, C, vn(dst), aid)]
        if kind == 7:
            dst, x, k = a, b, c
            n = vn(x)
            return ["{ %s := %s + 1; { %s := %s * 2; { %s := %s + %d; { %s := %s %% 1009; %s = at(%d, %s) } } } }" % (
                n, n, n, n, n, n, k, n, n, vn(dst), aid, n), 'println("a", %d, %s)' % (aid, vn(dst))]
        raise AssertionError(kind)

    def act_lines_for(self, fi, aid):
        self.names = self.g.fns[fi]["names"]
        self.labels = self.g.fns[fi]["labels"]
        return "; ".join(self.act_lines(aid))

    def call_stmt(self, cid):
        c = self.g.calls[cid]
        a = "cl(%d, %s)" % (cid, self.vn(c["arg"]))
        j = c["callee"]
        e = {"direct": "F%d(%s)", "funcvalue": "fF%d(%s)", "method": "tv.CallF%d(%s)"}[c["go"]] % (j, a)
        return "%s = %s" % (self.vn(c["dst"]), e)

    def block(self, stmts, ind):
        for s in stmts:
            self.stmt(s, ind)

    def stmt(self, s, ind):
        k = s[0]
        if k == "A":
            for l in self.act_lines(s[1]):
                self.emit(ind, l)
        elif k == "C":
            self.emit(ind, self.call_stmt(s[1]))
        elif k == "{" and len(s[1]) == 2 and s[1][0][0] == "A" and self.g.acts[s[1][0][1]][0] == 10 and s[1][1][0] == "L":
            self.header_loop(s[1][0][1], s[1][1], ind)
        elif k == "{":
            self.emit(ind, "{")
            self.block(s[1], ind + 1)
            self.emit(ind, "}")
        elif k == "R":
            self.emit(ind, "return " + self.names[1])
        elif k == "B":
            self.emit(ind, "break" + ("" if s[1] is None else " " + self.labels[s[1]]))
        elif k == "T":
            self.emit(ind, "continue" + ("" if s[1] is None else " " + self.labels[s[1]]))
        elif k == "I":
            self.render_if(s, ind, "if")
        elif k == "L":
            if s[1] is not None:
                self.emit(max(ind - 1, 0), self.labels[s[1]] + ":")
            cond = "" if s[2] is None else self.cond(s[2])
            if s[3] is None:
                head = "for %s{" % (cond + " " if cond else "")
            else:
                post = self.act_lines(s[3][1])[0] if s[3][0] == "a" else self.call_stmt(s[3][1])
                head = "for ; %s; %s {" % (cond, post)
            self.emit(ind, head)
            self.block(s[4], ind + 1)
            self.emit(ind, "}")
        elif k == "W":
            if s[1] is not None:
                self.emit(max(ind - 1, 0), self.labels[s[1]] + ":")
            self.emit(ind, "switch {")
            for i, (c, b) in enumerate(s[2]):
                self.emit(ind, "case %s:" % self.cond(c))
                self.block(b, ind + 1)
                if s[4][i]:
                    self.emit(ind + 1, "fallthrough")
            if s[3] is not None:
                self.emit(ind, "default:")
                self.block(s[3], ind + 1)
            self.emit(ind, "}")
        else:
            raise AssertionError(k)

    def header_loop(self, alloc, L, ind):
        """`for H := init; cond; post { … }` / `for K, V := range [n]int{…} { … }`: the loop DECLARES its header variables"""
        _, ld, k0, is_range, n, c = self.g.acts[alloc]
        if L[1] is not None:
            self.emit(max(ind - 1, 0), self.labels[L[1]] + ":")
        if is_range:
            kn, vname = self.vn(4 + ld), self.vn(29 + ld)
            self.emit(ind, "for %s, %s := range [%d]int{%s} {" % (kn, vname, n, ", ".join(str(c + 3 * i) for i in range(n))))
            self.emit(ind + 1, "_, _ = %s, %s" % (kn, vname))
            self.block([x for x in L[4] if not (x[0] == "A" and x[1] in self.g.hidden)], ind + 1)
            self.emit(ind, "}")
            return
        init = self.act_lines(alloc)[0]
        cond = "" if L[2] is None else self.cond(L[2])
        post = ""
        if L[3] is not None:
            post = self.act_lines(L[3][1])[0] if L[3][0] == "a" else self.call_stmt(L[3][1])
        self.emit(ind, "for %s; %s; %s {" % (init, cond, post))
        self.block(L[4], ind + 1)
        self.emit(ind, "}")

    def render_if(self, s, ind, kw):
        self.emit(ind, "%s %s {" % (kw, self.cond(s[1])))
        self.block(s[2], ind + 1)
        els = s[3]
        if els is None:
            self.emit(ind, "}")
        elif els[0] == "I":
            self.render_if(els, ind, "} else if")
        else:
            self.emit(ind, "} else {")
            self.block(els[1], ind + 1)
            self.emit(ind, "}")

    def program(self):
        g = self.g
        gn = g.gnames
        self.out = [PRELUDE % dict(G0=gn[0], G1=gn[1], G2=gn[2], G3=gn[3]),
                    iface_sources([(a[1], a[2]) for a in g.acts if a[0] == 15])]
        for fi, f in enumerate(g.fns):
            self.names = f["names"]
            self.labels = f["labels"]
            n = self.names
            self.emit(0, "func F%d(%s int) int {" % (fi, n[0]))
            self.emit(1, "var %s int" % ", ".join(n[1:8]))
            self.emit(1, "%s = %s" % (", ".join(["_"] * 7), ", ".join(n[1:8])))
            self.block(f["body"], 1)
            self.emit(0, "}")
            self.emit(0, "")
            self.emit(0, "var fF%d func(int) int" % fi)
            self.emit(0, "")
            self.emit(0, "func (t T) CallF%d(x int) int { return F%d(x + t.pad) }" % (fi, fi))
            self.emit(0, "")
        self.emit(0, "func main() {")
        for fi in range(len(g.fns)):
            self.emit(1, "fF%d = F%d" % (fi, fi))
        self.emit(1, "r := F0(0)")
        self.emit(1, 'println("r", r, %s)' % ", ".join(gn))
        self.emit(1, "runfs(0)")
        self.emit(1, "runpp(0)")
        self.emit(1, "runfs(1)")
        self.emit(1, 'println("m", %s)' % ", ".join(c % i for c in CELLS for i in range(4)))
        self.emit(0, "}")
        return "\n".join(self.out) + "\n"


def render(g):
    return {"main.go": Render(g).program()}


# --------------------------------------------------------------------------------------
# skeleton of the emitted JavaScript
# --------------------------------------------------------------------------------------

_MARK = re.compile(r"(?<![\w$.])(at|ix|tr|pg|ps|push|ppush|runfs|runpp|cl|cnd|cnq|sk\d+_\d+)\((\d+)[,)]")
# a desugaring temporary is a STATEMENT `tmp = operand;` (temporaries of translateExpr live inside expressions)
_TMPDEF = re.compile(r"^(_slice|_index|_struct|_ptr|_val)(?:\$\d+)? = ")
_LABEL_LINE = re.compile(r"^([^\s:(){};=]+):$")


def fn_bodies(js, nfn):
    """lines of the bodies of F0..F{nfn-1} in the non-minified program text"""
    lines = js.split("\n")
    res = {}
    for i, l in enumerate(lines):
        m = re.match(r"^(\t+)F(\d+) = function[^(]*\(", l)
        if m and l.rstrip().endswith("{"):
            ind = m.group(1)
            j = i + 1
            body = []
            while j < len(lines) and not lines[j].startswith(ind + "};"):
                body.append(lines[j])
                j += 1
            res[int(m.group(2))] = (ind, body)
    return [res.get(i) for i in range(nfn)]


def js_skeleton(fn, labels):
    """token list of one emitted function (see GV.Direct.skel) plus the temp-variable names per op-assign action.
    Lines inside nested function literals are skipped; only statement lines of the function itself count."""
    if fn is None:
        return None, None
    ind, body = fn
    base = len(ind) + 1
    lab_of = {}
    for n, name in labels.items():
        lab_of[name] = n
        lab_of[name + "$"] = n
    toks = []
    tmps = {}
    last_act = None
    skip_deeper = None
    # a statement that contains a function literal spans several lines: the markers inside the literal belong to it
    folded = []
    k = 0
    while k < len(body):
        raw = body[k]
        if re.search(r"function[^(]*\([^)]*\) \{$", raw.strip()):
            d = len(raw) - len(raw.lstrip("\t"))
            inner = []
            j = k + 1
            while j < len(body) and (len(body[j]) - len(body[j].lstrip("\t")) > d or not body[j].strip()):
                inner += ["%s(%s," % m for m in _MARK.findall(body[j])]
                j += 1
            folded.append((raw, " ".join(inner)))
        else:
            folded.append((raw, ""))
        k += 1
    for raw, inner_marks in folded:
        depth = len(raw) - len(raw.lstrip("\t"))
        l = raw.strip()
        if not l or l.startswith("/*") and l.endswith("*/"):
            continue
        if skip_deeper is not None:
            if depth > skip_deeper:
                continue
            # the closing line of the literal (`}));`, `})(a, b));`) is indented one level deeper than its opening line,
            # so it has been skipped already; this line is the next statement
            skip_deeper = None
        opens_fn = re.search(r"function[^(]*\([^)]*\) \{$", l) is not None
        if opens_fn:
            skip_deeper = depth

        def lbl(x):
            x = x.strip()
            if x == "":
                return ""
            return str(lab_of.get(x, "?" + x))
        m = _LABEL_LINE.match(l)
        if m and not opens_fn:
            toks.append("L%s:" % lbl(m.group(1)))
            last_act = None
            continue
        if l == "while (true) {":
            toks.append("W{"); last_act = None; continue
        if l == "switch (0) { default:":
            toks.append("S{"); last_act = None; continue
        m = re.match(r"^if \(!\((.*)\)\) \{ break; \}$", l)
        if m:
            c = [x for x in _MARK.findall(m.group(1)) if x[0] in ("cnd", "cnq")]
            toks.append("NB%s" % (c[0][1] if c else "?")); last_act = None; continue
        m = re.match(r"^(\} else )?if \((.*)\) \{$", l)
        if m and not opens_fn:
            c = [x for x in _MARK.findall(m.group(2)) if x[0] in ("cnd", "cnq")]
            cid = c[0][1] if c else "?"
            toks.append(("}EI%s{" if m.group(1) else "I%s{") % cid); last_act = None; continue
        if l == "} else {":
            toks.append("}E{"); last_act = None; continue
        if l == "}":
            toks.append("}"); last_act = None; continue
        m = re.match(r"^break( [^;]+)?;$", l)
        if m:
            toks.append("B" + lbl(m.group(1) or "")); last_act = None; continue
        m = re.match(r"^continue( [^;]+)?;$", l)
        if m:
            toks.append("C" + lbl(m.group(1) or "")); last_act = None; continue
        if re.match(r"^return\b.*;$", l) and depth == base:
            toks.append("R"); last_act = None; continue
        if re.match(r"^return\b.*;$", l):
            toks.append("R"); last_act = None; continue
        if l.startswith("var "):
            continue
        td = _TMPDEF.findall(l)
        marks = _MARK.findall(l + " " + inner_marks)
        ids = []
        for name, n in marks:
            if name in ("cnd", "cnq"):
                continue
            t = ("f%d" % int(n)) if name == "cl" else ("a%d" % (int(n) % 1000))
            if t not in ids:
                ids.append(t)
        if not ids:
            # an unmarked statement line (temporaries of shadow blocks, `_tuple = …` continuation lines …)
            continue
        if len(ids) > 1:
            toks.append("?multi:" + ",".join(ids))
            last_act = None
            continue
        t = ids[0]
        if td:
            tmps.setdefault(t, [])
            tmps[t] += td
        if t != last_act:
            toks.append(t)
            last_act = t
    return toks, tmps


# ======================================================================================
# the check
# ======================================================================================

THEOREMS = ["direct_correct", "direct_unique", "direct_correct_ctx", "interp_sound_js", "drivers_agree",
            "desugar_once", "desugar_incdec_once", "spec_trace", "desugar_trace", "naive_rewrite_wrong",
            "kept_in_place", "kept_in_place_pure", "everything_else_hoisted", "desugar_residue_pure",
            "conversion_kept_in_place_wrong", "conversion_kept_in_place_wrong'",
            "names_distinct_plain", "names_distinct_plain_seeded", "names_fresh_plain", "console_was_not_reserved",
            "encodeIdent_inj_utf8", "names_distinct_plain_valid", "renderInj_ascii", "names_distinct_plain_ascii", "render_clash",
            "encodeIdent_ascii_id", "tuple_assign_counterexample", "tuple_assign_partial"]
ENV_THEOREMS = ["reserved_covers_es", "reserved_model_exact", "reserved_covers_used", "keywords_alone_miss_console",
                "escape_cutoff_is_loop_body", "unsigned_bitops_normalised"]

JOB_TIMEOUT = 300


def canon(obs):
    return ";".join(obs[0]) + " |" + obs[1]


# --------------------------------------------------------------------------------------
# known-finding witnesses and hand-written corpus (GopherJS vs native Go)
# --------------------------------------------------------------------------------------

HDR = r'''package main

var arr [4]int
var sl = []int{1, 2, 3, 4}

func ix(id, x int) int { println("i", id, x); return x }
func tr(id, y int) int { println("t", id, y); return y }

type S struct {
	x    [4]int
	a, b int
}

var sv S

func ps(id int) *S { println("s", id); return &sv }
func (s *S) m(a, b int) int { println("m", a, b); return a + b }
func two(a, b int) (int, int) { return a, b }
func h(a, b, c int) int { return a*100 + b*10 + c }

'''

# (id, signature of the recorded finding or None for a REPAIRED defect kept as a regression probe, program)
WITNESSES = [
    ("console-local", None,
     HDR + 'func main() { console := 5; println(console) }\n'),
    ("console-pkg", None,
     HDR + 'var console = 5\n\nfunc main() { println(console) }\n'),
    ("Number-local", None,
     HDR + 'func main() { Number := 7; u := uintptr(3); println(Number, int(int64(u))) }\n'),
    ("Uint8Array-local", None,
     HDR.replace("package main\n", 'package main\n\nimport "unsafe"\n') +
     'func main() { defer func() { if recover() != nil { println("rec") } }(); Uint8Array := 7; p := unsafe.Pointer(new(int)); _ = p; println(Uint8Array) }\n'),
    ("tuple-order", "C01 evalorder tuple-assign lhs-operands-evaluated-after-rhs",
     HDR + 'func main() { arr = [4]int{10, 20, 30, 40}; arr[ix(1, 0)], arr[ix(2, 1)] = arr[ix(3, 1)], arr[ix(4, 0)]; println(arr[0], arr[1]) }\n'),
    ("tuple-index-of-assigned", "C01 evalorder tuple-assign lhs-operands-evaluated-after-rhs",
     HDR + 'func main() { arr = [4]int{10, 20, 30, 40}; var i int; i, arr[ix(5, i)] = 2, 7; println(i, arr[0], arr[2]) }\n'),
    ("oob-before-rhs", "C01 evalorder assign index-or-nilmap-panic-before-rhs-evaluated",
     HDR + 'func main() { defer func() { recover(); println("rec") }(); sl[ix(1, 9)] = tr(2, 5) }\n'),
    ("nilmap-before-rhs", "C01 evalorder assign index-or-nilmap-panic-before-rhs-evaluated",
     HDR + 'func main() { defer func() { recover(); println("rec") }(); var m map[int]int; m[ix(1, 1)] = tr(2, 2) }\n'),
]

CORPUS = {
    "args": 'func main() { println(h(tr(1, 1), tr(2, 2), tr(3, 3))); println(ps(4).m(tr(5, 1), tr(6, 2))) }',
    "lit": 'func main() { s := S{a: tr(1, 1), b: tr(2, 2)}; println(s.a, s.b); q := []int{tr(3, 3), tr(4, 4)}; println(q[0]); m := map[int]int{tr(5, 5): tr(6, 6), tr(7, 7): tr(8, 8)}; println(len(m)) }',
    "ret": 'func f() (int, int) { return tr(1, 1), tr(2, 2) }\nfunc main() { a, b := f(); println(a, b); x, y := two(tr(3, 3), tr(4, 4)); println(x, y) }',
    "binop": 'func main() { println(arr[ix(1, 0)] + tr(2, 2)*arr[ix(3, 1)]); println(tr(4, 1) > 0 && tr(5, 0) > 0 || tr(6, 1) > 0) }',
    "shadow": 'func main() { x := 1; { x := x + 1; { x := x * 3; { x := x + 10; println(x) }; println(x) }; println(x) }; println(x); for x := 0; x < 2; x++ { x := x * 2; println(x) } }',
    "closure_loop": 'func main() { var fs []func() int; for i := 0; i < 3; i++ { fs = append(fs, func() int { return i }) }; for _, f := range fs { println(f()) }; for i := 0; i < 3; i++ { j := i; fs[i] = func() int { j++; return j } }; println(fs[0](), fs[0](), fs[2]()) }',
    "goto": 'func main() { i := 0\nL:\n if i < 3 { println(i); i++; goto L }\n println("done")\n for j := 0; j < 3; j++ { if j == 1 { goto M }; println("j", j) }\nM:\n println("m") }',
    "ft": 'func main() { for i := 0; i < 4; i++ { switch i { case 0: println("z"); fallthrough; case 1: println("o"); case 2: println("t"); if i == 2 { break }; println("x"); default: println("d") } } }',
    "lcont": 'func main() {\nO:\n for i := 0; i < 3; i++ { for j := 0; j < 3; j++ { if j == 1 { continue O }; if i == 2 { break O }; println(i, j) } } }',
    "unary": 'func main() { a := 3; b := + +a; println(b, - +a, +-a, ^ ^a, ^-a, -^a, - -a, - - -a, a); var c int8 = -128; println(-c, - -c) }',
    "postcontinue": 'func main() { n := 0; for i := 0; i < 5; i, n = i+1, n+10 { if i%2 == 0 { continue }; switch { case i == 3: continue; default: println("d", i, n) }; println(i, n) }; println(n) }',
    "swbreakloop": 'func main() { for i := 0; i < 4; i++ { switch { case i == 1: break; case i == 2: if i > 0 { break }; println("no"); default: println("d", i) }; println("after", i) } }',
    "lbreaksw": 'func main() {\nS:\n switch { default: for i := 0; i < 3; i++ { if i == 1 { break S }; println(i) }; println("no") }\n println("end") }',
    "tupleswap": 'func main() { a := []int{1, 2, 3}; i, j := 0, 2; a[i], a[j] = a[j], a[i]; println(a[0], a[1], a[2]); x, y, z := 1, 2, 3; x, y, z = y, z, x; println(x, y, z) }',
    "opassign": 'func main() { arr[ix(1, 2)] += tr(2, 5); arr[ix(3, 2)]++; ps(4).x[ix(5, 1)] -= tr(6, 2); m := map[string]int{}; m["a"+"b"] += tr(7, 3); m["ab"]++; println(arr[2], sv.x[1], m["ab"]); p := &arr[0]; *p <<= 3; *p |= 1; println(*p) }',
    "method": 'type C struct{ n int }\nfunc (c *C) inc(d int) *C { c.n += d; println("inc", c.n); return c }\nfunc (c C) get() int { return c.n }\nfunc main() { c := &C{}; println(c.inc(tr(1, 1)).inc(tr(2, 2)).get()); f := c.inc; f(5); g := C.get; println(g(*c)) }',
    "defer_order": 'func main() { for i := 0; i < 3; i++ { defer func(n int) { println("d", n, i) }(tr(i, i)) }; println("end") }',
    "labels_kw": 'func main() {\nclass:\n for let := 0; let < 3; let++ {\n static:\n  for of := 0; of < 3; of++ { if of == 1 { continue class }; if let == 2 { break static }; println(let, of) } } }',
}


def witness_jobs():
    jobs = []
    for wid, sig, src in WITNESSES:
        jobs.append({"id": "w_" + wid, "files": {"main.go": src}, "variants": ["plain"], "native": True, "timeout": JOB_TIMEOUT})
    # the hand-written corpus is ONE program (one native build): every case is a function, run in order
    parts, calls = [], []
    for cid, body in CORPUS.items():
        parts.append(body.replace("func main()", "func case_%s()" % cid))
        calls.append('\tprintln("== %s")\n\tcase_%s()' % (cid, cid))
    src = HDR + "\n\n".join(parts) + "\n\nfunc main() {\n" + "\n".join(calls) + "\n}\n"
    # every boxed kind x every implicit-conversion site, several run-time values (exhaustive, one program)
    pairs = [(k, si) for k in range(len(IK)) for si in range(len(IS_NAMES))]
    msrc = ("package main\n\ntype S struct {\n\tx [4]int\n\tn int\n}\n\ntype P struct{ a, b int }\n\ntype myInt int\n" +
            iface_sources(pairs) + "\nfunc main() {\n\tfor _, n := range []int{0, 1, -3, 7, 300} {\n" +
            "".join("\t\tsk%d_%d(%d, n)\n" % (k, si, k * 100 + si) for k, si in pairs) + "\t}\n}\n")
    jobs.append({"id": "c_ifacematrix", "files": {"main.go": msrc}, "variants": ["plain"], "native": True,
                 "timeout": JOB_TIMEOUT, "keep_js": True})
    jobs.append({"id": "c_corpus", "files": {"main.go": src}, "variants": ["plain"], "native": True, "timeout": JOB_TIMEOUT,
                 "keep_js": True})
    return jobs


# --------------------------------------------------------------------------------------
# running programs with retries (the machine is shared: a timed-out job is re-run alone)
# --------------------------------------------------------------------------------------

def _run_jobs(jobs, par):
    try:
        return PR.run_jobs(jobs, par=par, timeout=14400)
    except FileNotFoundError:
        # shared machine: somebody's clean-up removed harness/bin/gvh.<tag> under us — rebuild it and go on
        C.log("[C01] harness binary vanished; rebuilding it")
        C.build_gvh("gvh")
        return PR.run_jobs(jobs, par=par, timeout=14400)


def run_prog_jobs(jobs, par=8):
    res = _run_jobs(jobs, par)
    late = [i for i, r in enumerate(res) if any(ro.get("class") == "timeout" for ro in r["runs"].values())]
    if late:
        # the machine is shared: a timed-out job is re-run (almost) alone before it is treated as anything
        C.log("[C01] %d job(s) timed out (%s …); re-running them with parallelism 2" % (len(late), res[late[0]]["id"]))
        again = _run_jobs([jobs[i] for i in late], 2)
        for i, r in zip(late, again):
            res[i] = r
    return res


def node_check(js_text, scratch, name):
    p = os.path.join(scratch, name + ".js")
    with open(p, "w") as f:
        f.write(js_text)
    for attempt in range(2):
        try:
            r = subprocess.run(["node", "--check", p], capture_output=True, text=True, timeout=300 * (attempt + 1))
            os.unlink(p)
            return r.returncode == 0, (r.stderr or "")[:300]
        except subprocess.TimeoutExpired:
            continue
    os.unlink(p)
    raise RuntimeError("node --check timed out twice on %s" % name)


# --------------------------------------------------------------------------------------
# tie a + b: generated programs
# --------------------------------------------------------------------------------------

def classify_failure(js_obs, nat_obs):
    """signature of a GopherJS-vs-Go difference of a GENERATED program (none of the known findings is generated on purpose)"""
    if js_obs[1].startswith("compile-error"):
        if "Substituting types.Signatures with generic functions" in js_obs[1]:
            return "C01 internal-error generic explicit-instantiation cross-package"
        return None
    return None


def program_batch(chk, gens, label, scratch, skeleton=True):
    jobs = []
    for i, g in enumerate(gens):
        jobs.append({"id": "%s%d" % (label, i), "files": render(g), "variants": ["plain"], "native": True,
                     "timeout": JOB_TIMEOUT, "keep_js": True})
    res = run_prog_jobs(jobs)
    encs = [enc_prog(g) for g in gens]
    ops = []
    for e in encs:
        ops += ["c01 ref " + e, "c01 js " + e, "c01 skel " + e]
    ans = C.run_driver("C01", ops)
    with ThreadPoolExecutor(max_workers=6) as ex:
        futs = [ex.submit(node_check, r["runs"]["plain"].get("js", ""), scratch, r["id"]) if r["runs"]["plain"].get("js") else None
                for r in res]
        parses = [f.result() if f is not None else (None, "no js") for f in futs]
    nfail = 0
    for i, g in enumerate(gens):
        r = res[i]
        ref, jsm, skel = ans[3 * i], ans[3 * i + 1], ans[3 * i + 2]
        js_obs = PR.observe_js(r["runs"]["plain"])
        nat_obs = PR.observe_native(r["runs"]["native"])
        if nat_obs[1].startswith("compile-error") or nat_obs[1] == "timeout":
            raise RuntimeError("generated program %s is not a valid/terminating Go program natively: %s\n%s" % (
                r["id"], nat_obs[1], render(g)["main.go"][:3000]))
        if ref in ("bad-prog", "model-failure") or jsm in ("bad-prog", "model-failure", "not-wf"):
            raise RuntimeError("Lean driver could not evaluate program %s: ref=%s js=%s\n%s" % (r["id"], ref[:80], jsm[:80], encs[i][:2000]))
        impl = canon(js_obs)
        spec = canon(nat_obs)
        model_ref = ref + " |exit0"
        model_js = jsm + " |exit0"
        if model_ref != spec:
            # the reference semantics of the model disagrees with native Go: a model / generator bug, never a VIOLATION
            raise RuntimeError("MODEL-MISMATCH on %s: Lean reference semantics != native Go\n lean: %s\n go:   %s\n%s" % (
                r["id"], model_ref[:1500], spec[:1500], render(g)["main.go"][:6000]))
        op = json.dumps({"id": r["id"], "prog": encs[i], "go": render(g)["main.go"]})
        sig = classify_failure(js_obs, nat_obs) if impl != spec else None
        chk.compare("program-trace", [op], [impl], [model_js], spec=[spec],
                    signature=(lambda o, a, c, sig=sig: sig), kind=lambda o, c: "program")
        if impl != spec:
            nfail += 1
        # acceptance: valid JavaScript
        ok, err = parses[i]
        chk.add_case("js-parses", r["id"], kindkey="node-check")
        if ok is False:
            chk.add_mismatch("js-parses", op, "syntax error: " + err, "valid JavaScript", signature=None)
        # I-tie: the boxing conversion emitted at every implicit-conversion site
        if r["runs"]["plain"].get("js"):
            check_boxing(chk, g, r["id"], r["runs"]["plain"]["js"])
        # I-tie: direct-mode skeleton + op-assign temporaries
        if skeleton and r["runs"]["plain"].get("js"):
            bodies = fn_bodies(r["runs"]["plain"]["js"], len(g.fns))
            mskels = skel.split("|")
            for fi, f in enumerate(g.fns):
                fb = bodies[fi]
                if fb is None:
                    chk.add_tie_break("skeleton", "%s F%d" % (r["id"], fi), "function not found in emitted JS", mskels[fi])
                    continue
                text = "\n".join(fb[1])
                if "switch ($s)" in text or "$s = " in text:
                    chk.count("fn:flattened")
                    continue
                chk.count("fn:direct")
                toks, tmps = js_skeleton(fb, f["labels"])
                if has_range(g, f["body"]):
                    # the header of a Go range loop (hidden index, key / value assignment) carries no markers
                    chk.count("skeleton:skipped(function with a range loop)")
                    check_tmps(chk, g, r["id"], fi, tmps, toks)
                    continue
                want = mskels[fi].split(" ") if mskels[fi] else []
                chk.add_case("skeleton", "%s F%d %s" % (r["id"], fi, mskels[fi]), nontrivial=len(want) > 3,
                             kindkey="skeleton", sample={"tie": "skeleton", "op": "%s F%d" % (r["id"], fi),
                                                         "impl": " ".join(toks)[:300], "model": mskels[fi][:300]})
                if toks != want:
                    chk.add_tie_break("skeleton", json.dumps({"id": r["id"], "fn": fi, "go": render(g)["main.go"]}),
                                      " ".join(toks), mskels[fi])
                check_tmps(chk, g, r["id"], fi, tmps, toks)
    return nfail


def js_function(js, name):
    m = re.search(r"\n(\t+)%s = function[^\n]*\{\n(.*?)\n\1\};" % re.escape(name), js, re.S)
    return m.group(2) if m else None


def check_boxing(chk, g, pid, js):
    """every implicit conversion of a concrete value of a boxed kind to an interface type must be emitted as the boxing
    constructor of that kind (`new $Int(x)`, `new $String(s)`, `new arrayType(a)` …) inside the site function or its helper"""
    for k, si in sorted({(a[1], a[2]) for a in g.acts if a[0] == 15}):
        pat = IK[k][4]
        if pat is None:
            continue
        name = "sk%d_%d" % (k, si)
        text = (js_function(js, name) or "") + "\n" + (js_function(js, name + "_h") or "")
        chk.add_case("boxing-at-site", "%s %s" % (pid, name), kindkey="boxing-at-site")
        if not re.search(pat, text):
            chk.add_tie_break("boxing-at-site", json.dumps({"id": pid, "site": IS_NAMES[si], "kind": IK[k][0],
                                                            "go": iface_site(k, si)}),
                              "no boxing constructor in: " + text.strip()[:400], "pattern " + pat)


def has_range(g, stmts):
    for st in stmts:
        if st[0] == "A" and g.acts[st[1]][0] == 10 and g.acts[st[1]][3] == 1:
            return True
        if st[0] == "{" and has_range(g, st[1]):
            return True
        if st[0] == "I" and (has_range(g, st[2]) or (st[3] is not None and has_range(g, [st[3]]))):
            return True
        if st[0] == "L" and has_range(g, st[4]):
            return True
        if st[0] == "W" and (any(has_range(g, b) for _, b in st[2]) or (st[3] is not None and has_range(g, st[3]))):
            return True
    return False


_DS_CACHE = {}


def ds_model(lv, wi, wb, incdec):
    key = (lv, wi, wb, incdec)
    if key not in _DS_CACHE:
        a = C.run_driver("C01", ["c01 ds %d %d %d %s" % (lv, wi, wb, "incdec" if incdec else "op")])[0]
        names, once = a.split(" ")
        if once != "once=true":
            raise RuntimeError("Desugar model: an opaque operand of the lvalue is not hoisted exactly once: " + a)
        _DS_CACHE[key] = [] if names == "-" else names.split(",")
    return _DS_CACHE[key]


def check_tmps(chk, g, pid, fi, tmps, toks):
    """temporaries the compiler introduced for each op-assign action of a direct function vs GV.Desugar.desugar"""
    seen = set()
    if set(g.fns[fi]["names"]) | set(g.gnames) & {"_slice", "_index", "_struct", "_ptr", "_val"}:
        if set(g.fns[fi]["names"] + g.gnames) & {"_slice", "_index", "_struct", "_ptr", "_val"}:
            chk.count("desugar-temps:skipped(user variable with a temp name)")
            return

    def walk(stmts):
        for s in stmts:
            if s[0] == "A":
                yield s[1]
            elif s[0] == "{":
                yield from walk(s[1])
            elif s[0] == "I":
                yield from walk(s[2])
                if s[3] is not None:
                    yield from walk([s[3]])
            elif s[0] == "L":
                if s[3] is not None and s[3][0] == "a":
                    yield s[3][1]
                yield from walk(s[4])
            elif s[0] == "W":
                for _, b in s[2]:
                    yield from walk(b)
                if s[3] is not None:
                    yield from walk(s[3])
    for aid in walk(g.fns[fi]["body"]):
        a = g.acts[aid]
        if a[0] != 1 or aid in seen:
            continue
        seen.add(aid)
        want = ds_model(a[1], a[5] % 16, a[5] // 16, a[3] in (2, 3))
        got = tmps.get("a%d" % aid, [])
        # the same action may be emitted several times (post statement copied before `continue`, fallthrough bodies) or not
        # at all (post statement of a loop whose body never completes normally and has no `continue`)
        n = toks.count("a%d" % aid)
        chk.add_case("desugar-temps", "%s a%d lv%d op%d" % (pid, aid, a[1], a[3]), nontrivial=bool(want), kindkey="desugar-temps")
        if got != want * n:
            chk.add_tie_break("desugar-temps", json.dumps({"id": pid, "fn": fi, "action": aid, "lv": a[1], "op": OPNAMES[a[3]],
                                                           "index_wrapper": WI_NAMES[a[5] % 16], "base_wrapper": WB_NAMES[a[5] // 16],
                                                           "emitted": n, "statement": Render(g).act_lines_for(fi, aid)}),
                              ",".join(got) or "(no temporary)", ",".join(want) or "(no temporary)")


# --------------------------------------------------------------------------------------
# tie c: the real newVariable (minify off) vs GV.Names
# --------------------------------------------------------------------------------------

GO_IDENTS = ["x", "y", "i", "err", "ok", "n", "_", "_x", "x1", "x_1", "X", "T", "é", "É", "变量", "ñ", "À", "xÀ", "日本", "a世", "Ω", "ǅ",
             "_tmp", "_tuple", "_r", "_i", "_ref", "_key", "_entry", "_v", "_q", "_index", "_ptr", "_struct", "_slice", "_val",
             "obj", "param", "$r", "x$ptr", "main.f", "T.m", "f$1", "go$val", "console", "Number", "Uint8Array", "DataView",
             "console", "Number"] + EXOTIC_LOCALS[:70]


def names_history(rng, nops):
    """a disciplined history: contexts form a stack, every request goes to the innermost one.
    returns protocol lines and, per line, what the oracle needs"""
    lines = ["nm new 0"]
    meta = [("new",)]
    stack = [0]
    nxt = 1
    while len(lines) < nops:
        x = rng.random()
        if x < 0.12 and len(stack) < 5:
            name = rng.choice(["main.f", "main.T.m", "f", "main.func1", "p.q.r"] + GO_IDENTS[:6])
            lines.append("nm child %d %s" % (stack[-1], name.encode().hex()))
            meta.append(("child", nxt))
            stack.append(nxt)
            nxt += 1
        elif x < 0.2 and len(stack) > 1:
            stack.pop()
            lines.append("nm locals %d" % stack[-1])
            meta.append(("pop", stack[-1]))
        else:
            name = rng.choice(GO_IDENTS)
            pk = 1 if rng.random() < 0.15 else 0
            lines.append("nm req %d %s %d" % (stack[-1], name.encode().hex(), pk))
            meta.append(("req", stack[-1], pk, list(stack)))
    return lines, meta


def names_oracle(lines, meta, answers, reserved):
    """specification check on the implementation's answers: the JS names visible in the innermost context are pairwise
    distinct and never a reserved word"""
    local = {0: []}
    pkg = []
    bad = []
    for i, m in enumerate(meta):
        a = answers[i]
        if m[0] == "new":
            local, pkg = {0: []}, []
        elif m[0] == "child":
            local[m[1]] = []
            ref = a.split(" ")[1] if " " in a else a
            if ref in pkg:
                bad.append((i, "funcRef %s handed out twice" % ref))
            pkg.append(ref)
        elif m[0] == "req":
            sc, pk, stack = m[1], m[2], m[3]
            visible = set(pkg)
            for s in stack:
                visible |= set(local[s])
            if a in visible:
                bad.append((i, "name %s already visible" % bytes.fromhex(a).decode("utf8", "replace")))
            if a != "-" and a != "panic" and bytes.fromhex(a).decode("utf8", "replace") in reserved:
                bad.append((i, "reserved word handed out: %s" % bytes.fromhex(a).decode()))
            (pkg if pk else local[sc]).append(a)
    return bad


def names_tie(chk, tier, kw):
    """kw: the names seeded into the root context (reserved)"""
    rng = chk.rng
    n_hist = 12 if tier == "quick" else 60
    for h in range(n_hist):
        lines, meta = names_history(rng, rng.choice([30, 80, 200]) if h else 400)
        impl = C.run_gvh_lines(["ops"], lines, name="gvh_c01")
        model = C.run_driver("C01", lines)
        chk.compare("newVariable-plain", ["h%d " % h + l for l in lines], impl, model,
                    kind=lambda o, c: "names:" + o.split(" ")[2], nontrivial=lambda o, c: " req " in o or " child " in o)
        for i, why in names_oracle(lines, meta, impl, set(kw)):
            chk.add_mismatch("names-distinct", json.dumps({"history": lines[:i + 1]}), why, "pairwise distinct, not reserved",
                             signature=None)
    # encodeIdent on identifiers incl. every 2-byte UTF-8 lead/continuation combination boundary
    ids = list(GO_IDENTS) + ["x" + bytes([0xC3, b]).decode() for b in range(0x80, 0xC0, 7)] + ["é9", "x9", "x$9"]
    ops = ["nm enc " + s.encode().hex() for s in ids]
    chk.compare("encodeIdent", ops, C.run_gvh_lines(["ops"], ops, name="gvh_c01"), C.run_driver("C01", ops),
                kind=lambda o, c: "encodeIdent")
    return kw


# --------------------------------------------------------------------------------------
# regenerated facts (X-tie)
# --------------------------------------------------------------------------------------

JS_GLOBALS = ["console", "Math", "Array", "Int8Array", "Uint8Array", "Uint8ClampedArray", "Int16Array", "Uint16Array",
              "Int32Array", "Uint32Array", "Float32Array", "Float64Array", "BigInt64Array", "BigUint64Array", "DataView",
              "ArrayBuffer", "Object", "String", "Number", "Date", "Error", "TypeError", "RangeError", "SyntaxError",
              "ReferenceError", "EvalError", "URIError", "Symbol", "Map", "Set", "WeakMap", "WeakSet", "Function", "JSON",
              "NaN", "Infinity", "isNaN", "isFinite", "parseInt", "parseFloat", "globalThis", "process", "require",
              "module", "exports", "window", "self", "global", "Promise", "RegExp", "Boolean", "BigInt", "Reflect", "Proxy",
              "setTimeout", "clearTimeout", "setInterval", "setImmediate", "queueMicrotask", "encodeURIComponent",
              "decodeURIComponent", "escape", "unescape", "eval", "arguments", "undefined", "this", "null", "true", "false"]


_NODE_GLOBALS = None


def js_globals():
    """the static list plus every own property name of Node's global object (so the enumeration does not depend on my memory
    of the standard library)"""
    global _NODE_GLOBALS
    if _NODE_GLOBALS is None:
        r = subprocess.run(["node", "-p", "JSON.stringify(Object.getOwnPropertyNames(globalThis))"], capture_output=True,
                           text=True, timeout=600)
        if r.returncode != 0:
            raise RuntimeError("node could not list its globals: " + r.stderr[-500:])
        _NODE_GLOBALS = [n for n in json.loads(r.stdout) if re.fullmatch(r"[A-Za-z_][A-Za-z0-9_]*", n)]
    return set(JS_GLOBALS) | set(_NODE_GLOBALS) | {"document", "navigator", "location", "alert", "XMLHttpRequest", "localStorage"}


def scan_unqualified():
    """JS globals / special identifiers that occur unqualified (not after `.`, `$` or a format verb) in the JavaScript
    code templates of the compiler: string literals of every non-test .go file under /repo/compiler (sub-packages included;
    prelude, natives, vendor and gopherjspkg are not code generators) that contain statement / expression punctuation, plus
    single-word literals passed directly to formatExpr / Printf / PrintCond / newIdent. Regenerated on every run."""
    used = {}
    globs = js_globals()
    cdir = os.path.join(C.REPO, "compiler")
    files = []
    for root, dirs, fs in os.walk(cdir):
        dirs[:] = [d for d in dirs if d not in ("prelude", "natives", "vendor", "gopherjspkg", "testdata")]
        for f in sorted(fs):
            if f.endswith(".go") and not f.endswith("_test.go") and not f.startswith("verif_"):
                files.append(os.path.join(root, f))
    for path in sorted(files):
        f = os.path.relpath(path, cdir)
        src = open(path).read()
        src = re.sub(r"(?m)^\s*//[^\n]*", "", src)
        for m in re.finditer(r'"((?:[^"\\\n]|\\.)*)"|`([^`]*)`', src):
            s = m.group(1) if m.group(1) is not None else m.group(2)
            if re.fullmatch(r"[A-Za-z_][A-Za-z0-9_]*", s):
                if not re.search(r"(formatExpr|Printf|PrintCond|newIdent)\($", src[max(0, m.start() - 12):m.start()]):
                    continue
            elif not re.search(r"[;(){}\[\]=]", s):
                # only JavaScript templates: they contain a statement / expression delimiter
                continue
            for w in re.finditer(r"(?<![\w$.%])([A-Za-z_][A-Za-z0-9_]*)(?![\w$])", s):
                if w.group(1) in globs:
                    used.setdefault(w.group(1), set()).add(f)
    return used


def root_seeded(kw, used):
    """names with allVars[name] > 0 in a fresh root function context (what newRootCtx seeds), probed through the hook for
    every candidate: the keyword list, every unqualified global, the ES reserved words, the model's list, the name pools"""
    cands = sorted(set(kw) | set(used) | set(ES_RESERVED) | set(MODEL_GLOBALS) | set(EXOTIC_LOCALS) | set(EXOTIC_GLOBALS) |
                   {n for n in GO_IDENTS})
    lines = ["nm new 0"] + ["nm cnt 0 " + n.encode().hex() for n in cands]
    ans = C.run_gvh_lines(["ops"], lines, name="gvh_c01")
    return [n for n, a in zip(cands, ans[1:]) if a.isdigit() and int(a) > 0]


def escape_cutoffs():
    """the scope at which EscapingObjects stops looking outwards, per construct: pairs (AST node, expression whose scope is
    marked as a bottom scope) read from compiler/internal/analysis/escape.go"""
    src = open(os.path.join(C.REPO, "compiler", "internal", "analysis", "escape.go")).read()
    res = []
    for m in re.finditer(r"case \*ast\.(\w+):\s*\n(?:\s*//[^\n]*\n)*\s*v\.bottomScopes\[v\.info\.Scopes\[([\w.]+)\]\] = true", src):
        res.append((m.group(1), m.group(2)))
    return res


def bitop_templates():
    """JavaScript templates of the integer `&` `|` `&^` `^` branches of translateExpr (compiler/expressions.go): for each
    branch the list of (guard, template, wrapped in fixNumber?) of every `return` in it"""
    src = open(os.path.join(C.REPO, "compiler", "expressions.go")).read()
    i = src.index("case token.AND, token.OR:")
    j = src.index("default:", i)
    region = src[i:j]
    res = []
    branch, guard, depth_unsigned = None, "", None
    depth = 0
    for line in region.split("\n"):
        t = line.strip()
        m = re.match(r"case token\.([A-Z_, .token]+):", t)
        if m:
            branch = m.group(1).replace("token.", "").replace(" ", "")
            guard, depth_unsigned, depth = "", None, 0
            continue
        if t.startswith("if isUnsigned(basic)"):
            depth_unsigned = depth
        m = re.search(r'return (fc\.fixNumber\()?fc\.format(?:Paren)?Expr\("([^"]*)"', t)
        if m and branch:
            res.append((branch, "unsigned" if depth_unsigned is not None else "any", m.group(2), bool(m.group(1))))
        depth += t.count("{") - t.count("}")
        if depth_unsigned is not None and depth <= depth_unsigned:
            depth_unsigned = None
    return res


def write_generated(kw, used, seeded):
    gdir = os.path.join(C.LEAN, "GV", "Generated")
    os.makedirs(gdir, exist_ok=True)
    path = os.path.join(gdir, "Keywords.lean")

    def strs(l):
        return "[" + ", ".join(json.dumps(x) for x in l) + "]"
    src = ("/-! GENERATED by checks/c01.py from the working tree (compiler.VerifC16ReservedKeywords and a scan of the JavaScript\n"
           "    templates in compiler/*.go); do not edit. -/\n"
           "namespace GV.Generated\n"
           "def reservedKeywords : List String := %s\n"
           "def rootSeeded : List String := %s\n"
           "def rootSeededBytes : List (List Nat) := %s\n"
           "def usedUnqualified : List String := %s\n"
           "def escapeCutoffs : List (String × String) := [%s]\n"
           "def bitopTemplates : List (String × String × String × Bool) := [" + ", ".join(
               "(%s, %s, %s, %s)" % (json.dumps(a), json.dumps(b), json.dumps(t), "true" if f else "false")
               for a, b, t, f in bitop_templates()).replace("%", "%%") + "]\n"
           "end GV.Generated\n") % (strs(kw), strs(seeded), "[" + ", ".join(str(list(k.encode())) for k in seeded) + "]",
                                    strs(sorted(used)), ", ".join("(%s, %s)" % (json.dumps(a), json.dumps(b)) for a, b in escape_cutoffs()))
    old = open(path).read() if os.path.exists(path) else None
    if old != src:
        with open(path, "w") as f:
            f.write(src)
    return src


ES_RESERVED = ["await", "break", "case", "catch", "class", "const", "continue", "debugger", "default", "delete", "do", "else",
               "enum", "export", "extends", "false", "finally", "for", "function", "if", "import", "in", "instanceof", "new",
               "null", "return", "super", "switch", "this", "throw", "true", "try", "typeof", "var", "void", "while", "with",
               "yield", "let", "static", "implements", "interface", "package", "private", "protected", "public",
               "arguments", "eval"]
MODEL_GLOBALS = ["console", "Number", "Uint8Array", "DataView"]      # GV.NamesPlain.reservedGlobals
GO_KEYWORDS = {"break", "case", "chan", "const", "continue", "default", "defer", "else", "fallthrough", "for", "func", "go", "goto",
               "if", "import", "interface", "map", "package", "range", "return", "select", "struct", "switch", "type", "var",
               "true", "false", "nil", "int", "string", "len", "println", "append", "new", "iota"}


def ident_probe(name):
    """program using `name` as a local, as a package-level variable of another function, and as a label"""
    return (HDR + "func f(%(n)s int) int { %(n)s++; g := func() int { return %(n)s * 2 }; return g() + %(n)s }\n\n"
            "func main() {\n\t%(n)s := 7\n\tprintln(%(n)s, f(%(n)s))\n%(n)s:\n\tfor i := 0; i < 2; i++ {\n\t\tfor {\n\t\t\t%(n)s += i\n\t\t\tcontinue %(n)s\n\t\t}\n\t}\n"
            "\tprintln(%(n)s, h(%(n)s, 1, 2))\n}\n") % {"n": name}


# --------------------------------------------------------------------------------------
# the check
# --------------------------------------------------------------------------------------

def run(tier, seed):
    chk = C.Check("C01", tier, seed)
    rng = chk.rng
    chk.rule = ("programs: a term of GV.Ctrl (if/else-if chains, for with optional cond/post, labelled+unlabelled break/continue, "
                "switch with fallthrough, blocks, return, calls; depth<=5, <=40 statements/function, <=5 functions) over action "
                "tables (plain / op-assign and inc-dec on arr[f()], *g(), m[k()], s.x[i()], p().x[i()], ident / swap / rotate / "
                "(every operator; the side-effecting index / pointer / struct-base operand under 14 + 5 wrappers: conversions, parens, unary, binary, index-of-index, type assertion, literals called in place, selector / deref of a call) / tuple call / evaluation-order forms with tracing calls / closures capturing per-iteration variables / 4-deep "
                "shadowing), identifiers drawn from JS reserved words, globals, compiler temp names and non-ASCII names; rendered "
                "to Go. Non-trivial = the program prints a trace that depends on control flow (every program does). "
                "names: disciplined scope-stack histories of newVariable/nestedFunctionContext requests, minify off.")
    chk.trusted = ["Lean 4 kernel", "go/types, go/parser, astrewrite (exercised through compiled programs only)",
                   "Node.js / V8 as the JavaScript semantics (MiniJS completion semantics follow ECMAScript 2015 §13)",
                   "native Go toolchain as the reference", "harness: gvh prog, gvh_c01, checks/c01.py"]
    chk.assumptions = ["translateExpr as a whole is not modelled (numeric / copy / map / string / interface / panic parts belong to C06, "
                       "C07, C15, C14, C09, C08); primitive actions are opaque in the theorems and concrete in the driver",
                       "'no internal error' and 'valid JavaScript' are observed on generated programs, not proved",
                       "goto is never translated in direct mode: analysis marks every function containing a goto as flattened "
                       "(internal/analysis/info.go:401-405) and statements.go:320 only emits the `$s = N; continue;` form, so goto "
                       "belongs to C02's flatten_correct; here goto, defer, select and flattened (blocking) functions are only "
                       "observed (corpus case `goto`, generated functions that call func values)",
                       "desugar_once assumes opaque operands do not write memory the statement reads (Go leaves that order open)"]
    phase = {}
    t_last = [time.time(), time.process_time(), sum(os.times()[2:4])]

    def mark(name):
        now = [time.time(), time.process_time(), sum(os.times()[2:4])]
        phase[name] = {"wall_s": round(now[0] - t_last[0], 1), "cpu_self_s": round(now[1] - t_last[1], 1),
                       "cpu_children_s": round(now[2] - t_last[2], 1)}
        t_last[:] = now
        chk.extra["phase_times"] = phase
    C.build_gvh("gvh_c01")
    PR.ensure_gvh()
    mark("build-harness")
    scratch = C.scratch("c01")
    try:
        # ---- regenerated facts + proofs -----------------------------------------------------------------------
        kw = C.run_gvh_lines(["ops"], ["nm kw"], name="gvh_c01")[0].split(",")
        used = scan_unqualified()
        seeded = root_seeded(kw, used)
        write_generated(kw, used, seeded)
        chk.extra["extracted_facts"] = {"reservedKeywords": kw, "rootSeeded": seeded,
                                        "usedUnqualified": {k: sorted(v) for k, v in sorted(used.items())}}
        chk.proof = C.check_proofs("C01", THEOREMS, tier)
        if ENV_THEOREMS:
            envp = C.check_proofs("C01", ENV_THEOREMS, tier, module="GV.Props.C01Env")
            envp.obligations = ["GV.Props.C01." + t for t in ENV_THEOREMS]
            ax, _ = (C.audit("GV.Props.C01Env", envp.obligations) if envp.build_ok else ({}, ""))
            chk.proof.obligations += envp.obligations
            if envp.build_ok:
                for t in envp.obligations:
                    a = ax.get(t)
                    chk.proof.axioms[t] = a
                    if a is not None and set(a) <= C.ALLOWED_AXIOMS:
                        chk.proof.discharged.append(t)
                    else:
                        chk.proof.failed.append((t, "axioms %s" % a))
            else:
                for t in envp.obligations:
                    chk.proof.failed.append((t, "GV.Props.C01Env does not build against the regenerated facts (reserved keywords / "
                                                "unqualified globals changed): missing ES words %s, unqualified not reserved %s" % (
                                                    [w for w in ES_RESERVED if w not in seeded],
                                                    [w for w in sorted(used) if w not in seeded])))
                chk.proof.build_log = envp.build_log
        env_broken = bool(chk.proof.failed)
        mark("facts+lean-proofs")

        # ---- k: known-finding witnesses + corpus ---------------------------------------------------------------
        jobs = witness_jobs()
        # search part of the X-tie: an identifier equal to every ES reserved word missing from the extracted list and to every
        # unqualified global that is not reserved (the known ones have their own witnesses)
        witnessed = {"console", "Number", "Uint8Array"}
        targeted = [w for w in ES_RESERVED if w not in seeded and w not in GO_KEYWORDS]
        targeted += [w for w in sorted(used) if w not in seeded and w not in witnessed and w not in GO_KEYWORDS]
        for w in targeted:
            jobs.append({"id": "t_" + w, "files": {"main.go": ident_probe(w)}, "variants": ["plain"], "native": True,
                         "timeout": JOB_TIMEOUT, "keep_js": True})
        res = run_prog_jobs(jobs)
        sigs = {"w_" + wid: sig for wid, sig, _ in WITNESSES}
        for j, r in zip(jobs, res):
            js_obs = PR.observe_js(r["runs"]["plain"])
            nat_obs = PR.observe_native(r["runs"]["native"])
            if nat_obs[1].startswith("compile-error"):
                raise RuntimeError("corpus program %s does not build natively: %s" % (r["id"], nat_obs[1]))
            kind = {"w": "witness", "c": "corpus", "t": "targeted-identifier"}[r["id"][0]]
            chk.add_case("corpus", r["id"], kindkey=kind, sample={"tie": "corpus", "op": r["id"], "impl": canon(js_obs)[:300],
                                                                   "spec": canon(nat_obs)[:300]})
            if r["id"] == "c_ifacematrix" and r["runs"]["plain"].get("js"):
                class _G:
                    acts = [[15, k, si, 0, 0, 0] for k in range(len(IK)) for si in range(len(IS_NAMES))]
                check_boxing(chk, _G, r["id"], r["runs"]["plain"]["js"])
            parse_bad = None
            if r["runs"]["plain"].get("js"):
                ok, err = node_check(r["runs"]["plain"]["js"], scratch, r["id"])
                if not ok:
                    parse_bad = err
            if js_obs != nat_obs or parse_bad:
                chk.add_mismatch("corpus", json.dumps({"id": r["id"], "go": j["files"]["main.go"]}),
                                 canon(js_obs) + (" [syntax error: %s]" % parse_bad if parse_bad else ""), canon(nat_obs),
                                 signature=sigs.get(r["id"]))

        mark("witnesses+corpus")
        # ---- c: names ------------------------------------------------------------------------------------------
        names_tie(chk, tier, seeded)
        mark("names")

        # ---- a + b: generated programs ------------------------------------------------------------------------
        nprog = 36 if tier == "quick" else 1000
        batch = 36 if tier == "quick" else 100
        done = 0
        while done < nprog:
            n = min(batch, nprog - done)
            gens = []
            for i in range(n):
                direct_only = rng.random() < 0.75
                focus = {"act": {"runfs": 0.0}} if direct_only else {"act": {}}
                if i % 3 == 0:
                    # the nested-loop capture family: deep loop nests whose header / body variables are captured by closures
                    # and pointers in every (outer, inner) iteration and used after the loops have ended
                    focus["stmt"] = {"loop": 3.0, "continue": 1.5, "break": 1.3}
                    focus["act"].update({"capture-closure": 3.0, "capture-pointer": 3.0, "closure": 2.5, "runpp": 2.0})
                g = gen_program(rng, rng.choice([12, 25, 40]), maxdepth=rng.choice([3, 4, 5]), focus=focus)
                if direct_only:
                    for c in g.calls:
                        if c["go"] == "funcvalue":
                            c["go"] = "direct"
                gens.append(g)
            program_batch(chk, gens, "p%d_" % done, scratch)
            C.log("[C01] generated programs %d/%d done, %.0f s" % (done + n, nprog, time.time() - chk.t0))
            for g in gens:
                for k, v in g.kinds.items():
                    chk.count("gen:" + k, v)
            done += n
        mark("generated-programs")
        # widened search when an obligation or a tie is broken and no failing input has been found yet
        if (env_broken or chk.tie_breaks) and not any(chk.known_match(m.get("signature")) is None for m in chk.mismatches):
            chk.notes.append("obligation / tie broken: widened search with targeted generation")
            extra = 120 if tier == "quick" else 300
            gens = [gen_program(rng, 40, maxdepth=5, focus={"stmt": {"continue": 3, "switch": 2, "loop": 2, "break": 2},
                                                           "act": {"opassign": 2, "rotate": 3, "swap": 3, "runfs": 0.0, "unsigned": 3,
                                                                   "capture-closure": 2, "capture-pointer": 2}})
                    for _ in range(extra)]
            for g in gens:
                for c in g.calls:
                    c["go"] = "direct" if c["go"] == "funcvalue" else c["go"]
            program_batch(chk, gens, "s_", scratch)
    finally:
        import shutil
        shutil.rmtree(scratch, ignore_errors=True)
    return chk.finish()


def replay(path):
    rep = json.load(open(path))
    bad = 0
    for fi in rep.get("failing_inputs", []):
        try:
            op = json.loads(fi["op"])
        except Exception:
            print("replay: not a program input:", str(fi.get("op"))[:200])
            continue
        if "go" not in op:
            print("replay: history input", str(op)[:300])
            continue
        r = run_prog_jobs([{"id": "replay", "files": {"main.go": op["go"]}, "variants": ["plain"], "native": True,
                            "timeout": JOB_TIMEOUT}])[0]
        a, b = PR.observe_js(r["runs"]["plain"]), PR.observe_native(r["runs"]["native"])
        print("replay %s: gopherjs=%s\n          native=%s" % (op.get("id"), canon(a)[:500], canon(b)[:500]))
        if a != b:
            bad = 1
    return bad
