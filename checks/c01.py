"""C01 — compiled programs behave like the reference Go toolchain (the part no other property owns).

Proof: GV.Props.C01 — `direct_correct` (direct-mode translation of for / if / switch / break / continue / labels =
reference semantics, for every statement and store), `desugar_once` (op-assign / inc-dec desugaring evaluates every
side-effecting operand once, in source order, and stores the Go result), `names_distinct_plain` (non-minified JS names in
scope are pairwise distinct and never reserved), + GV.Props.C01Env over facts regenerated from the working tree
(reserved keyword list ⊇ ECMAScript reserved words and the globals the generated code uses unqualified).
Ties (REAL compiler, in process, from the repo's working tree):
  a  generated programs (term of GV.Ctrl first, Go second): compiler accepts, emitted JS parses (`node --check`),
     GopherJS/Node trace+ending = native Go = Lean model (reference interpreter AND MiniJS interpreter of `direct s`);
  b  direct-mode skeleton of every non-flattened generated function in the emitted JS vs `GV.Direct.skel (direct s)`, and
     the temporaries of every op-assign action vs `GV.Desugar.desugar`;
  c  the real `newVariable` / `nestedFunctionContext` (hook of C16, called from harness/cmd/gvh_c01), minify off, on
     scope-tree request histories vs `GV.Names`, with the distinct / not-reserved oracle;
  k  known-finding witnesses and a small hand-written corpus (goto, fallthrough, closures, shadowing …) vs native Go.
"""
import json
import os
import re
import subprocess
import tempfile
import time
from concurrent.futures import ThreadPoolExecutor

from . import common as C
from . import progs as PR
from .c01gen import (gen_program, enc_prog, render, fn_bodies, js_skeleton, EXOTIC_LOCALS, LABEL_NAMES)

THEOREMS = ["direct_correct", "direct_unique", "direct_correct_ctx", "interp_sound_js", "drivers_agree"]
ENV_THEOREMS = []

JOB_TIMEOUT = 300


def canon(obs):
    return ";".join(obs[0]) + " |" + obs[1]


# --------------------------------------------------------------------------------------
# known-finding witnesses and hand-written corpus (GopherJS vs native Go)
# --------------------------------------------------------------------------------------

HDR = r'''package main

var arr [4]int
var sl = []int{1, 2, 3, 4}

func ix(id, x int) int { println("i", id, x); return x }
func tr(id, y int) int { println("t", id, y); return y }

type S struct {
	x    [4]int
	a, b int
}

var sv S

func ps(id int) *S { println("s", id); return &sv }
func (s *S) m(a, b int) int { println("m", a, b); return a + b }
func two(a, b int) (int, int) { return a, b }
func h(a, b, c int) int { return a*100 + b*10 + c }

'''

WITNESSES = [
    ("console-local", "C01 ident=console shadows-unqualified-global println",
     HDR + 'func main() { console := 5; println(console) }\n'),
    ("console-pkg", "C01 ident=console shadows-unqualified-global println",
     HDR + 'var console = 5\n\nfunc main() { println(console) }\n'),
    ("Number-local", "C01 ident=Number shadows-unqualified-global uintptr->int64 conversion",
     HDR + 'func main() { Number := 7; u := uintptr(3); println(Number, int(int64(u))) }\n'),
    ("Uint8Array-local", "C01 ident=Uint8Array shadows-unqualified-global unsafe.Pointer(new(T))",
     HDR.replace("package main\n", 'package main\n\nimport "unsafe"\n') +
     'func main() { defer func() { if recover() != nil { println("rec") } }(); Uint8Array := 7; p := unsafe.Pointer(new(int)); _ = p; println(Uint8Array) }\n'),
    ("tuple-order", "C01 evalorder tuple-assign lhs-operands-evaluated-after-rhs",
     HDR + 'func main() { arr = [4]int{10, 20, 30, 40}; arr[ix(1, 0)], arr[ix(2, 1)] = arr[ix(3, 1)], arr[ix(4, 0)]; println(arr[0], arr[1]) }\n'),
    ("tuple-index-of-assigned", "C01 evalorder tuple-assign lhs-operands-evaluated-after-rhs",
     HDR + 'func main() { arr = [4]int{10, 20, 30, 40}; var i int; i, arr[ix(5, i)] = 2, 7; println(i, arr[0], arr[2]) }\n'),
    ("oob-before-rhs", "C01 evalorder assign index-or-nilmap-panic-before-rhs-evaluated",
     HDR + 'func main() { defer func() { recover(); println("rec") }(); sl[ix(1, 9)] = tr(2, 5) }\n'),
    ("nilmap-before-rhs", "C01 evalorder assign index-or-nilmap-panic-before-rhs-evaluated",
     HDR + 'func main() { defer func() { recover(); println("rec") }(); var m map[int]int; m[ix(1, 1)] = tr(2, 2) }\n'),
]

CORPUS = {
    "args": 'func main() { println(h(tr(1, 1), tr(2, 2), tr(3, 3))); println(ps(4).m(tr(5, 1), tr(6, 2))) }',
    "lit": 'func main() { s := S{a: tr(1, 1), b: tr(2, 2)}; println(s.a, s.b); q := []int{tr(3, 3), tr(4, 4)}; println(q[0]); m := map[int]int{tr(5, 5): tr(6, 6), tr(7, 7): tr(8, 8)}; println(len(m)) }',
    "ret": 'func f() (int, int) { return tr(1, 1), tr(2, 2) }\nfunc main() { a, b := f(); println(a, b); x, y := two(tr(3, 3), tr(4, 4)); println(x, y) }',
    "binop": 'func main() { println(arr[ix(1, 0)] + tr(2, 2)*arr[ix(3, 1)]); println(tr(4, 1) > 0 && tr(5, 0) > 0 || tr(6, 1) > 0) }',
    "shadow": 'func main() { x := 1; { x := x + 1; { x := x * 3; { x := x + 10; println(x) }; println(x) }; println(x) }; println(x); for x := 0; x < 2; x++ { x := x * 2; println(x) } }',
    "closure_loop": 'func main() { var fs []func() int; for i := 0; i < 3; i++ { fs = append(fs, func() int { return i }) }; for _, f := range fs { println(f()) }; for i := 0; i < 3; i++ { j := i; fs[i] = func() int { j++; return j } }; println(fs[0](), fs[0](), fs[2]()) }',
    "goto": 'func main() { i := 0\nL:\n if i < 3 { println(i); i++; goto L }\n println("done")\n for j := 0; j < 3; j++ { if j == 1 { goto M }; println("j", j) }\nM:\n println("m") }',
    "ft": 'func main() { for i := 0; i < 4; i++ { switch i { case 0: println("z"); fallthrough; case 1: println("o"); case 2: println("t"); if i == 2 { break }; println("x"); default: println("d") } } }',
    "lcont": 'func main() {\nO:\n for i := 0; i < 3; i++ { for j := 0; j < 3; j++ { if j == 1 { continue O }; if i == 2 { break O }; println(i, j) } } }',
    "unary": 'func main() { a := 3; b := + +a; println(b, - +a, +-a, ^ ^a, ^-a, -^a) }',
    "postcontinue": 'func main() { n := 0; for i := 0; i < 5; i, n = i+1, n+10 { if i%2 == 0 { continue }; switch { case i == 3: continue; default: println("d", i, n) }; println(i, n) }; println(n) }',
    "swbreakloop": 'func main() { for i := 0; i < 4; i++ { switch { case i == 1: break; case i == 2: if i > 0 { break }; println("no"); default: println("d", i) }; println("after", i) } }',
    "lbreaksw": 'func main() {\nS:\n switch { default: for i := 0; i < 3; i++ { if i == 1 { break S }; println(i) }; println("no") }\n println("end") }',
    "tupleswap": 'func main() { a := []int{1, 2, 3}; i, j := 0, 2; a[i], a[j] = a[j], a[i]; println(a[0], a[1], a[2]); x, y, z := 1, 2, 3; x, y, z = y, z, x; println(x, y, z) }',
    "opassign": 'func main() { arr[ix(1, 2)] += tr(2, 5); arr[ix(3, 2)]++; ps(4).x[ix(5, 1)] -= tr(6, 2); m := map[string]int{}; m["a"+"b"] += tr(7, 3); m["ab"]++; println(arr[2], sv.x[1], m["ab"]); p := &arr[0]; *p <<= 3; *p |= 1; println(*p) }',
    "method": 'type C struct{ n int }\nfunc (c *C) inc(d int) *C { c.n += d; println("inc", c.n); return c }\nfunc (c C) get() int { return c.n }\nfunc main() { c := &C{}; println(c.inc(tr(1, 1)).inc(tr(2, 2)).get()); f := c.inc; f(5); g := C.get; println(g(*c)) }',
    "defer_order": 'func main() { for i := 0; i < 3; i++ { defer func(n int) { println("d", n, i) }(tr(i, i)) }; println("end") }',
    "labels_kw": 'func main() {\nclass:\n for let := 0; let < 3; let++ {\n static:\n  for of := 0; of < 3; of++ { if of == 1 { continue class }; if let == 2 { break static }; println(let, of) } } }',
}


def witness_jobs():
    jobs = []
    for wid, sig, src in WITNESSES:
        jobs.append({"id": "w_" + wid, "files": {"main.go": src}, "variants": ["plain"], "native": True, "timeout": JOB_TIMEOUT})
    for cid, body in CORPUS.items():
        jobs.append({"id": "c_" + cid, "files": {"main.go": HDR + body + "\n"}, "variants": ["plain"], "native": True,
                     "timeout": JOB_TIMEOUT})
    return jobs


# --------------------------------------------------------------------------------------
# running programs with retries (the machine is shared: a timed-out job is re-run alone)
# --------------------------------------------------------------------------------------

def run_prog_jobs(jobs, par=8):
    res = PR.run_jobs(jobs, par=par, timeout=7200)
    for i, r in enumerate(res):
        bad = [v for v, ro in r["runs"].items() if ro.get("class") == "timeout"]
        if bad:
            C.log("[C01] job %s timed out (%s); re-running it alone" % (r["id"], bad))
            j2 = dict(jobs[i], timeout=900)
            res[i] = PR.run_jobs([j2], par=1, timeout=7200)[0]
    return res


def node_check(js_text, scratch, name):
    p = os.path.join(scratch, name + ".js")
    with open(p, "w") as f:
        f.write(js_text)
    for attempt in range(2):
        try:
            r = subprocess.run(["node", "--check", p], capture_output=True, text=True, timeout=300 * (attempt + 1))
            os.unlink(p)
            return r.returncode == 0, (r.stderr or "")[:300]
        except subprocess.TimeoutExpired:
            continue
    os.unlink(p)
    raise RuntimeError("node --check timed out twice on %s" % name)


# --------------------------------------------------------------------------------------
# tie a + b: generated programs
# --------------------------------------------------------------------------------------

def classify_failure(js_obs, nat_obs):
    """signature of a GopherJS-vs-Go difference of a GENERATED program (none of the known findings is generated on purpose)"""
    if js_obs[1].startswith("compile-error"):
        if "Substituting types.Signatures with generic functions" in js_obs[1]:
            return "C01 internal-error generic explicit-instantiation cross-package"
        return None
    return None


def program_batch(chk, gens, label, scratch, skeleton=True):
    jobs = []
    for i, g in enumerate(gens):
        jobs.append({"id": "%s%d" % (label, i), "files": render(g), "variants": ["plain"], "native": True,
                     "timeout": JOB_TIMEOUT, "keep_js": True})
    res = run_prog_jobs(jobs)
    encs = [enc_prog(g) for g in gens]
    ops = []
    for e in encs:
        ops += ["c01 ref " + e, "c01 js " + e, "c01 skel " + e]
    ans = C.run_driver("C01", ops)
    with ThreadPoolExecutor(max_workers=6) as ex:
        futs = [ex.submit(node_check, r["runs"]["plain"].get("js", ""), scratch, r["id"]) if r["runs"]["plain"].get("js") else None
                for r in res]
        parses = [f.result() if f is not None else (None, "no js") for f in futs]
    nfail = 0
    for i, g in enumerate(gens):
        r = res[i]
        ref, jsm, skel = ans[3 * i], ans[3 * i + 1], ans[3 * i + 2]
        js_obs = PR.observe_js(r["runs"]["plain"])
        nat_obs = PR.observe_native(r["runs"]["native"])
        if nat_obs[1].startswith("compile-error") or nat_obs[1] == "timeout":
            raise RuntimeError("generated program %s is not a valid/terminating Go program natively: %s\n%s" % (
                r["id"], nat_obs[1], render(g)["main.go"][:3000]))
        if ref in ("bad-prog", "model-failure") or jsm in ("bad-prog", "model-failure", "not-wf"):
            raise RuntimeError("Lean driver could not evaluate program %s: ref=%s js=%s\n%s" % (r["id"], ref[:80], jsm[:80], encs[i][:2000]))
        impl = canon(js_obs)
        spec = canon(nat_obs)
        model_ref = ref + " |exit0"
        model_js = jsm + " |exit0"
        if model_ref != spec:
            # the reference semantics of the model disagrees with native Go: a model / generator bug, never a VIOLATION
            raise RuntimeError("MODEL-MISMATCH on %s: Lean reference semantics != native Go\n lean: %s\n go:   %s\n%s" % (
                r["id"], model_ref[:1500], spec[:1500], render(g)["main.go"][:6000]))
        op = json.dumps({"id": r["id"], "prog": encs[i], "go": render(g)["main.go"]})
        sig = classify_failure(js_obs, nat_obs) if impl != spec else None
        chk.compare("program-trace", [op], [impl], [model_js], spec=[spec],
                    signature=(lambda o, a, c, sig=sig: sig), kind=lambda o, c: "program")
        if impl != spec:
            nfail += 1
        # acceptance: valid JavaScript
        ok, err = parses[i]
        chk.add_case("js-parses", r["id"], kindkey="node-check")
        if ok is False:
            chk.add_mismatch("js-parses", op, "syntax error: " + err, "valid JavaScript", signature=None)
        # I-tie: direct-mode skeleton + op-assign temporaries
        if skeleton and r["runs"]["plain"].get("js"):
            bodies = fn_bodies(r["runs"]["plain"]["js"], len(g.fns))
            mskels = skel.split("|")
            for fi, f in enumerate(g.fns):
                fb = bodies[fi]
                if fb is None:
                    chk.add_tie_break("skeleton", "%s F%d" % (r["id"], fi), "function not found in emitted JS", mskels[fi])
                    continue
                text = "\n".join(fb[1])
                if "switch ($s)" in text or "$s = " in text:
                    chk.count("fn:flattened")
                    continue
                chk.count("fn:direct")
                toks, tmps = js_skeleton(fb, f["labels"])
                want = mskels[fi].split(" ") if mskels[fi] else []
                chk.add_case("skeleton", "%s F%d %s" % (r["id"], fi, mskels[fi]), nontrivial=len(want) > 3,
                             kindkey="skeleton", sample={"tie": "skeleton", "op": "%s F%d" % (r["id"], fi),
                                                         "impl": " ".join(toks)[:300], "model": mskels[fi][:300]})
                if toks != want:
                    chk.add_tie_break("skeleton", json.dumps({"id": r["id"], "fn": fi, "go": render(g)["main.go"]}),
                                      " ".join(toks), mskels[fi])
                check_tmps(chk, g, r["id"], fi, tmps)
    return nfail


_DS_CACHE = {}


def ds_model(lv, incdec):
    key = (lv, incdec)
    if key not in _DS_CACHE:
        a = C.run_driver("C01", ["c01 ds %d %s" % (lv, "incdec" if incdec else "op")])[0]
        names, once = a.split(" ")
        if once != "once=true":
            raise RuntimeError("Desugar model: rhs not evaluated exactly once: " + a)
        _DS_CACHE[key] = [] if names == "-" else names.split(",")
    return _DS_CACHE[key]


def check_tmps(chk, g, pid, fi, tmps):
    """temporaries the compiler introduced for each op-assign action of a direct function vs GV.Desugar.desugar"""
    seen = set()
    if set(g.fns[fi]["names"]) | set(g.gnames) & {"_slice", "_index", "_struct", "_ptr", "_val"}:
        if set(g.fns[fi]["names"] + g.gnames) & {"_slice", "_index", "_struct", "_ptr", "_val"}:
            chk.count("desugar-temps:skipped(user variable with a temp name)")
            return

    def walk(stmts):
        for s in stmts:
            if s[0] == "A":
                yield s[1]
            elif s[0] == "{":
                yield from walk(s[1])
            elif s[0] == "I":
                yield from walk(s[2])
                if s[3] is not None:
                    yield from walk([s[3]])
            elif s[0] == "L":
                if s[3] is not None and s[3][0] == "a":
                    yield s[3][1]
                yield from walk(s[4])
            elif s[0] == "W":
                for _, b in s[2]:
                    yield from walk(b)
                if s[3] is not None:
                    yield from walk(s[3])
    for aid in walk(g.fns[fi]["body"]):
        a = g.acts[aid]
        if a[0] != 1 or aid in seen:
            continue
        seen.add(aid)
        want = ds_model(a[1], a[3] in (2, 3))
        got = tmps.get("a%d" % aid, [])
        # the same action may be emitted several times (post statement copied before `continue`, fallthrough bodies)
        n = max(1, len(got) // max(1, len(want))) if want else 1
        chk.add_case("desugar-temps", "%s a%d lv%d op%d" % (pid, aid, a[1], a[3]), nontrivial=bool(want), kindkey="desugar-temps")
        if got != want * n and not (not want and not got):
            chk.add_tie_break("desugar-temps", "%s F%d action %d lv=%d op=%d" % (pid, fi, aid, a[1], a[3]), ",".join(got), ",".join(want))


# --------------------------------------------------------------------------------------
# tie c: the real newVariable (minify off) vs GV.Names
# --------------------------------------------------------------------------------------

GO_IDENTS = ["x", "y", "i", "err", "ok", "n", "_", "_x", "x1", "x_1", "X", "T", "é", "É", "变量", "ñ", "À", "xÀ", "日本", "a世", "Ω", "ǅ",
             "_tmp", "_tuple", "_r", "_i", "_ref", "_key", "_entry", "_v", "_q", "_index", "_ptr", "_struct", "_slice", "_val",
             "obj", "param", "$r", "x$ptr", "main.f", "T.m", "f$1", "go$val"] + EXOTIC_LOCALS[:70]


def names_history(rng, nops):
    """a disciplined history: contexts form a stack, every request goes to the innermost one.
    returns protocol lines and, per line, what the oracle needs"""
    lines = ["nm new 0"]
    meta = [("new",)]
    stack = [0]
    nxt = 1
    while len(lines) < nops:
        x = rng.random()
        if x < 0.12 and len(stack) < 5:
            name = rng.choice(["main.f", "main.T.m", "f", "main.func1", "p.q.r"] + GO_IDENTS[:6])
            lines.append("nm child %d %s" % (stack[-1], name.encode().hex()))
            meta.append(("child", nxt))
            stack.append(nxt)
            nxt += 1
        elif x < 0.2 and len(stack) > 1:
            stack.pop()
            lines.append("nm locals %d" % stack[-1])
            meta.append(("pop", stack[-1]))
        else:
            name = rng.choice(GO_IDENTS)
            pk = 1 if rng.random() < 0.15 else 0
            lines.append("nm req %d %s %d" % (stack[-1], name.encode().hex(), pk))
            meta.append(("req", stack[-1], pk, list(stack)))
    return lines, meta


def names_oracle(lines, meta, answers, reserved):
    """specification check on the implementation's answers: the JS names visible in the innermost context are pairwise
    distinct and never a reserved word"""
    local = {0: []}
    pkg = []
    bad = []
    for i, m in enumerate(meta):
        a = answers[i]
        if m[0] == "new":
            local, pkg = {0: []}, []
        elif m[0] == "child":
            local[m[1]] = []
            ref = a.split(" ")[1] if " " in a else a
            if ref in pkg:
                bad.append((i, "funcRef %s handed out twice" % ref))
            pkg.append(ref)
        elif m[0] == "req":
            sc, pk, stack = m[1], m[2], m[3]
            visible = set(pkg)
            for s in stack:
                visible |= set(local[s])
            if a in visible:
                bad.append((i, "name %s already visible" % bytes.fromhex(a).decode("utf8", "replace")))
            if a != "-" and a != "panic" and bytes.fromhex(a).decode("utf8", "replace") in reserved:
                bad.append((i, "reserved word handed out: %s" % bytes.fromhex(a).decode()))
            (pkg if pk else local[sc]).append(a)
    return bad


def names_tie(chk, tier):
    rng = chk.rng
    n_hist = 12 if tier == "quick" else 60
    kw = C.run_gvh_lines(["ops"], ["nm kw"], name="gvh_c01")[0].split(",")
    for h in range(n_hist):
        lines, meta = names_history(rng, rng.choice([30, 80, 200]) if h else 400)
        impl = C.run_gvh_lines(["ops"], lines, name="gvh_c01")
        model = C.run_driver("C01", lines)
        chk.compare("newVariable-plain", ["h%d " % h + l for l in lines], impl, model,
                    kind=lambda o, c: "names:" + o.split(" ")[2], nontrivial=lambda o, c: " req " in o or " child " in o)
        for i, why in names_oracle(lines, meta, impl, set(kw)):
            chk.add_mismatch("names-distinct", json.dumps({"history": lines[:i + 1]}), why, "pairwise distinct, not reserved",
                             signature=None)
    # encodeIdent on identifiers incl. every 2-byte UTF-8 lead/continuation combination boundary
    ids = list(GO_IDENTS) + ["x" + bytes([0xC3, b]).decode() for b in range(0x80, 0xC0, 7)] + ["é9", "x9", "x$9"]
    ops = ["nm enc " + s.encode().hex() for s in ids]
    chk.compare("encodeIdent", ops, C.run_gvh_lines(["ops"], ops, name="gvh_c01"), C.run_driver("C01", ops),
                kind=lambda o, c: "encodeIdent")
    return kw


# --------------------------------------------------------------------------------------
# regenerated facts (X-tie)
# --------------------------------------------------------------------------------------

JS_GLOBALS = ["console", "Math", "Array", "Int8Array", "Uint8Array", "Uint8ClampedArray", "Int16Array", "Uint16Array",
              "Int32Array", "Uint32Array", "Float32Array", "Float64Array", "BigInt64Array", "BigUint64Array", "DataView",
              "ArrayBuffer", "Object", "String", "Number", "Date", "Error", "TypeError", "RangeError", "SyntaxError",
              "ReferenceError", "EvalError", "URIError", "Symbol", "Map", "Set", "WeakMap", "WeakSet", "Function", "JSON",
              "NaN", "Infinity", "isNaN", "isFinite", "parseInt", "parseFloat", "globalThis", "process", "require",
              "module", "exports", "window", "self", "global", "Promise", "RegExp", "Boolean", "BigInt", "Reflect", "Proxy",
              "setTimeout", "clearTimeout", "setInterval", "setImmediate", "queueMicrotask", "encodeURIComponent",
              "decodeURIComponent", "escape", "unescape", "eval", "arguments", "undefined", "this", "null", "true", "false"]


def scan_unqualified():
    """JS globals / special identifiers that occur unqualified (not after `.`, `$` or a format verb) in the JavaScript
    code templates (string literals that are more than a single word) of /repo/compiler/*.go"""
    used = {}
    cdir = os.path.join(C.REPO, "compiler")
    for f in sorted(os.listdir(cdir)):
        if not f.endswith(".go") or f.endswith("_test.go") or f.startswith("verif_"):
            continue
        src = open(os.path.join(cdir, f)).read()
        src = re.sub(r"(?m)^\s*//[^\n]*", "", src)
        for m in re.finditer(r'"((?:[^"\\\n]|\\.)*)"|`([^`]*)`', src):
            s = m.group(1) if m.group(1) is not None else m.group(2)
            if re.fullmatch(r"[A-Za-z_][A-Za-z0-9_]*", s):
                continue
            # only JavaScript templates: they contain a statement / expression delimiter
            if not re.search(r"[;(){}\[\]=]", s):
                continue
            for w in re.finditer(r"(?<![\w$.%])([A-Za-z_][A-Za-z0-9_]*)(?![\w$])", s):
                if w.group(1) in JS_GLOBALS:
                    used.setdefault(w.group(1), set()).add(f)
    return used


def write_generated(kw, used):
    gdir = os.path.join(C.LEAN, "GV", "Generated")
    os.makedirs(gdir, exist_ok=True)
    path = os.path.join(gdir, "Keywords.lean")

    def strs(l):
        return "[" + ", ".join(json.dumps(x) for x in l) + "]"
    src = ("/-! GENERATED by checks/c01.py from the working tree (compiler.VerifC16ReservedKeywords and a scan of the JavaScript\n"
           "    templates in compiler/*.go); do not edit. -/\n"
           "namespace GV.Generated\n"
           "def reservedKeywords : List String := %s\n"
           "def reservedKeywordBytes : List (List Nat) := %s\n"
           "def usedUnqualified : List String := %s\n"
           "end GV.Generated\n") % (strs(kw), "[" + ", ".join(str(list(k.encode())) for k in kw) + "]", strs(sorted(used)))
    old = open(path).read() if os.path.exists(path) else None
    if old != src:
        with open(path, "w") as f:
            f.write(src)
    return src


ES_RESERVED = ["await", "break", "case", "catch", "class", "const", "continue", "debugger", "default", "delete", "do", "else",
               "enum", "export", "extends", "false", "finally", "for", "function", "if", "import", "in", "instanceof", "new",
               "null", "return", "super", "switch", "this", "throw", "true", "try", "typeof", "var", "void", "while", "with",
               "yield", "let", "static", "implements", "interface", "package", "private", "protected", "public",
               "arguments", "eval"]
KNOWN_MISSING = ["console", "Number", "Uint8Array", "DataView"]
GO_KEYWORDS = {"break", "case", "chan", "const", "continue", "default", "defer", "else", "fallthrough", "for", "func", "go", "goto",
               "if", "import", "interface", "map", "package", "range", "return", "select", "struct", "switch", "type", "var",
               "true", "false", "nil", "int", "string", "len", "println", "append", "new", "iota"}


def ident_probe(name):
    """program using `name` as a local, as a package-level variable of another function, and as a label"""
    return (HDR + "func f(%(n)s int) int { %(n)s++; g := func() int { return %(n)s * 2 }; return g() + %(n)s }\n\n"
            "func main() {\n\t%(n)s := 7\n\tprintln(%(n)s, f(%(n)s))\n%(n)s:\n\tfor i := 0; i < 2; i++ {\n\t\tfor {\n\t\t\t%(n)s += i\n\t\t\tcontinue %(n)s\n\t\t}\n\t}\n"
            "\tprintln(%(n)s, h(%(n)s, 1, 2))\n}\n") % {"n": name}


# --------------------------------------------------------------------------------------
# the check
# --------------------------------------------------------------------------------------

def run(tier, seed):
    chk = C.Check("C01", tier, seed)
    rng = chk.rng
    chk.rule = ("programs: a term of GV.Ctrl (if/else-if chains, for with optional cond/post, labelled+unlabelled break/continue, "
                "switch with fallthrough, blocks, return, calls; depth<=5, <=40 statements/function, <=5 functions) over action "
                "tables (plain / op-assign and inc-dec on arr[f()], *g(), m[k()], s.x[i()], p().x[i()], ident / swap / rotate / "
                "tuple call / evaluation-order forms with tracing calls / closures capturing per-iteration variables / 4-deep "
                "shadowing), identifiers drawn from JS reserved words, globals, compiler temp names and non-ASCII names; rendered "
                "to Go. Non-trivial = the program prints a trace that depends on control flow (every program does). "
                "names: disciplined scope-stack histories of newVariable/nestedFunctionContext requests, minify off.")
    chk.trusted = ["Lean 4 kernel", "go/types, go/parser, astrewrite (exercised through compiled programs only)",
                   "Node.js / V8 as the JavaScript semantics (MiniJS completion semantics follow ECMAScript 2015 §13)",
                   "native Go toolchain as the reference", "harness: gvh prog, gvh_c01, checks/c01.py"]
    chk.assumptions = ["translateExpr as a whole is not modelled (numeric / copy / map / string / interface / panic parts belong to C06, "
                       "C07, C15, C14, C09, C08); primitive actions are opaque in the theorems and concrete in the driver",
                       "'no internal error' and 'valid JavaScript' are observed on generated programs, not proved",
                       "goto, defer, select and flattened (blocking) functions are C02/C03/C08 territory; here only observed",
                       "desugar_once assumes opaque operands do not write memory the statement reads (Go leaves that order open)"]
    C.build_gvh("gvh_c01")
    PR.ensure_gvh()
    scratch = C.scratch("c01")
    try:
        # ---- regenerated facts + proofs -----------------------------------------------------------------------
        kw = C.run_gvh_lines(["ops"], ["nm kw"], name="gvh_c01")[0].split(",")
        used = scan_unqualified()
        write_generated(kw, used)
        chk.extra["extracted_facts"] = {"reservedKeywords": kw, "usedUnqualified": {k: sorted(v) for k, v in sorted(used.items())}}
        chk.proof = C.check_proofs("C01", THEOREMS, tier)
        if ENV_THEOREMS:
            envp = C.check_proofs("C01", ENV_THEOREMS, tier, module="GV.Props.C01Env")
            envp.obligations = ["GV.Props.C01." + t for t in ENV_THEOREMS]
            ax, _ = (C.audit("GV.Props.C01Env", envp.obligations) if envp.build_ok else ({}, ""))
            chk.proof.obligations += envp.obligations
            if envp.build_ok:
                for t in envp.obligations:
                    a = ax.get(t)
                    chk.proof.axioms[t] = a
                    if a is not None and set(a) <= C.ALLOWED_AXIOMS:
                        chk.proof.discharged.append(t)
                    else:
                        chk.proof.failed.append((t, "axioms %s" % a))
            else:
                for t in envp.obligations:
                    chk.proof.failed.append((t, "GV.Props.C01Env does not build against the regenerated facts (reserved keywords / "
                                                "unqualified globals changed): missing ES words %s, unqualified not reserved %s" % (
                                                    [w for w in ES_RESERVED if w not in kw],
                                                    [w for w in sorted(used) if w not in kw and w not in KNOWN_MISSING])))
                chk.proof.build_log = envp.build_log
        env_broken = bool(chk.proof.failed)

        # ---- k: known-finding witnesses + corpus ---------------------------------------------------------------
        jobs = witness_jobs()
        # search part of the X-tie: an identifier equal to every ES reserved word missing from the extracted list and to every
        # unqualified global that is not reserved (the known ones have their own witnesses)
        targeted = [w for w in ES_RESERVED if w not in kw and w not in GO_KEYWORDS]
        targeted += [w for w in sorted(used) if w not in kw and w not in KNOWN_MISSING and w not in GO_KEYWORDS]
        for w in targeted:
            jobs.append({"id": "t_" + w, "files": {"main.go": ident_probe(w)}, "variants": ["plain"], "native": True,
                         "timeout": JOB_TIMEOUT, "keep_js": True})
        res = run_prog_jobs(jobs)
        sigs = {"w_" + wid: sig for wid, sig, _ in WITNESSES}
        for j, r in zip(jobs, res):
            js_obs = PR.observe_js(r["runs"]["plain"])
            nat_obs = PR.observe_native(r["runs"]["native"])
            if nat_obs[1].startswith("compile-error"):
                raise RuntimeError("corpus program %s does not build natively: %s" % (r["id"], nat_obs[1]))
            kind = {"w": "witness", "c": "corpus", "t": "targeted-identifier"}[r["id"][0]]
            chk.add_case("corpus", r["id"], kindkey=kind, sample={"tie": "corpus", "op": r["id"], "impl": canon(js_obs)[:300],
                                                                   "spec": canon(nat_obs)[:300]})
            parse_bad = None
            if r["runs"]["plain"].get("js"):
                ok, err = node_check(r["runs"]["plain"]["js"], scratch, r["id"])
                if not ok:
                    parse_bad = err
            if js_obs != nat_obs or parse_bad:
                chk.add_mismatch("corpus", json.dumps({"id": r["id"], "go": j["files"]["main.go"]}),
                                 canon(js_obs) + (" [syntax error: %s]" % parse_bad if parse_bad else ""), canon(nat_obs),
                                 signature=sigs.get(r["id"]))

        # ---- c: names ------------------------------------------------------------------------------------------
        names_tie(chk, tier)

        # ---- a + b: generated programs ------------------------------------------------------------------------
        nprog = 36 if tier == "quick" else 420
        batch = 36 if tier == "quick" else 60
        done = 0
        while done < nprog:
            n = min(batch, nprog - done)
            gens = []
            for i in range(n):
                direct_only = rng.random() < 0.75
                focus = {"act": {"runfs": 0.0}} if direct_only else {}
                g = gen_program(rng, rng.choice([12, 25, 40]), maxdepth=rng.choice([3, 4, 5]), focus=focus)
                if direct_only:
                    for c in g.calls:
                        if c["go"] == "funcvalue":
                            c["go"] = "direct"
                gens.append(g)
            program_batch(chk, gens, "p%d_" % done, scratch)
            for g in gens:
                for k, v in g.kinds.items():
                    chk.count("gen:" + k, v)
            done += n
        # widened search when an obligation or a tie is broken and no failing input has been found yet
        if (env_broken or chk.tie_breaks) and not any(chk.known_match(m.get("signature")) is None for m in chk.mismatches):
            chk.notes.append("obligation / tie broken: widened search with targeted generation")
            extra = 120 if tier == "quick" else 300
            gens = [gen_program(rng, 40, maxdepth=5, focus={"stmt": {"continue": 3, "switch": 2, "loop": 2, "break": 2},
                                                           "act": {"opassign": 2, "rotate": 3, "swap": 3, "runfs": 0.0}})
                    for _ in range(extra)]
            for g in gens:
                for c in g.calls:
                    c["go"] = "direct" if c["go"] == "funcvalue" else c["go"]
            program_batch(chk, gens, "s_", scratch)
    finally:
        import shutil
        shutil.rmtree(scratch, ignore_errors=True)
    return chk.finish()


def replay(path):
    rep = json.load(open(path))
    bad = 0
    for fi in rep.get("failing_inputs", []):
        try:
            op = json.loads(fi["op"])
        except Exception:
            print("replay: not a program input:", str(fi.get("op"))[:200])
            continue
        if "go" not in op:
            print("replay: history input", str(op)[:300])
            continue
        r = run_prog_jobs([{"id": "replay", "files": {"main.go": op["go"]}, "variants": ["plain"], "native": True,
                            "timeout": JOB_TIMEOUT}])[0]
        a, b = PR.observe_js(r["runs"]["plain"]), PR.observe_native(r["runs"]["native"])
        print("replay %s: gopherjs=%s\n          native=%s" % (op.get("id"), canon(a)[:500], canon(b)[:500]))
        if a != b:
            bad = 1
    return bad
