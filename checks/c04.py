"""C04 — every used generic instantiation exists, is distinct and behaves correctly.

Proof: GV.Props.C04 — the work-list collector (`Scan` + `Finish` + `propagate`, instance sets with cursors and ids) computes
exactly the least set of instances closed under the uses of the program (sound, complete), it terminates whenever that set
is finite (collect_terminates / collect_total), ids are injective, positional and stable, the set does not depend on the
order in which packages / seeds are visited, substitution composes; without the LocalFree hypothesis both completeness and
soundness are refuted by witnesses (function-local types inside other types: recorded findings).
Ties (the program is generated FROM a term of the model: use-graph first, then rendered to Go):
  (a) program O-tie: multi-package generic programs, GopherJS under Node (plain + minify) vs native Go;
  (b) instance-set tie: the per-package instance sets with ids that typeparams.Collector produced in the same build
      (sources.Sources.TypeInfo.InstanceSets, no hook needed) vs `collect` of the Lean model on the same use-graph (set AND ids)."""
import json
import os
import random
import re
import shutil

from . import common as C
from . import progs

THEOREMS = ["collect_sound", "collect_complete", "collect_exact", "collect_terminates", "collect_total", "sortedOrder_covers",
            "ids_injective", "ids_positions", "ids_stable", "insts_nodup", "collect_order_independent",
            "subst_compose", "subst_closed", "reach_closed", "unwrap_param", "unwrap_subst_commutes", "unwrap_raw_wrong",
            "subst_preserves_shape", "subst_preserves_shape_code", "subst_identity_commutes", "subst_keeps_directions_apart",
            "subst_sendrecv_counterexample", "subst_sendrecv_conflates",
            "collect_complete_full_counterexample", "collect_sound_full_counterexample"]

# ----------------------------------------------------------------------------------------------------------------
# type terms: ('b', name) | ('o', i) | ('n', i) | ('f', i) | ('S', t) | ('P', t) | ('C', t) | ('M', k, v) | ('N', defid, (args…))
# ----------------------------------------------------------------------------------------------------------------

INTS = ["int", "int8", "int16", "int32", "uint8", "uint16", "uint32"]
SHADOW = ["main.X#1", "main.X#2"]     # two DISTINCT types declared in sibling blocks of main(), both printed "main.X"
EXTRA = ["any", "func(int) string", "struct{A int; B string}"]     # appended AFTER the shadow atoms: protocol indices stay stable
BASICS = INTS + ["string", "bool", "float64", "base.MyI8", "base.Blk", "base.MyS"] + SHADOW + EXTRA + ["base.MyCh"]
# identical types, different spellings: the renderer picks one independently for every textual occurrence
SPELLINGS = {
    "uint8": ["uint8", "byte"],
    "int32": ["int32", "rune"],
    "any": ["any", "interface{}"],
    "func(int) string": ["func(int) string", "func(a int) string", "func(b int) (r string)"],
    "struct{A int; B string}": ["struct{ A int; B string }", "struct{ A int; B string; }", "struct {\n\tA int\n\tB string\n}"],
}
BIDX = {b: i for i, b in enumerate(BASICS)}
TAGGED = ["base.MyI8", "base.Blk", "base.MyS"]
CONSTRAINT = {"any": "any", "cmp": "comparable", "int": "base.Integer", "tag": "base.Tagger", "ch": "base.ChanInt"}
# class of a type parameter -> classes it can be passed for
PARAM_SAT = {"any": {"any"}, "cmp": {"any", "cmp"}, "int": {"any", "cmp", "int"}, "tag": {"any", "tag"}, "ch": {"any", "cmp", "ch"}}

BASE_SRC = r'''package base

type Integer interface {
	~int | ~int8 | ~int16 | ~int32 | ~uint8 | ~uint16 | ~uint32
}

type Tagger interface{ Tag() string }

// ChanInt: type parameters with the core type chan int (for-range over a type-parameter channel is a blocking instance)
type ChanInt interface{ ~chan int }

type MyCh chan int

type MyI8 int8

func (*MyI8) Tag() string { return "MyI8" }

type MyS string

func (*MyS) Tag() string { return "MyS" }

// Blk's Tag blocks: an instance calling it through a type parameter is a blocking instance.
type Blk int

func (*Blk) Tag() string {
	c := make(chan string)
	go func() { c <- "Blk" }()
	return <-c
}

var N200, N100 = 200, 100

var User func(p any) (string, bool)

var seen = map[string]bool{}

func Enter(key string) bool {
	if seen[key] {
		return false
	}
	seen[key] = true
	println("enter " + key)
	return true
}

func Emit(s string) { println(s) }

func Itoa(n int) string {
	if n == 0 {
		return "0"
	}
	neg := n < 0
	if neg {
		n = -n
	}
	s := ""
	for n > 0 {
		s = string(rune('0'+n%10)) + s
		n /= 10
	}
	if neg {
		s = "-" + s
	}
	return s
}

func Btoa(b bool) string {
	if b {
		return "T"
	}
	return "F"
}

var regs []any
var regm = map[any]int{}

// Reg: index of the dynamic type+value of p in a registry, found by interface comparison AND by map lookup.
func Reg(p any) string {
	i := -1
	for k, q := range regs {
		if q == p {
			i = k
			break
		}
	}
	j, ok := regm[p]
	if !ok {
		j = -1
	}
	if i != j {
		return "r" + Itoa(i) + "!" + Itoa(j)
	}
	if i < 0 {
		regs = append(regs, p)
		i = len(regs) - 1
		regm[p] = i
	}
	return "r" + Itoa(i)
}

// Desc: hand-built description of the type T from p = (*T)(nil).
func Desc(p any) string {
	if t, ok := p.(Tagger); ok {
		return t.Tag()
	}
	if User != nil {
		if s, ok := User(p); ok {
			return s
		}
	}
	return Reg(p)
}

type Emb struct{ E int }

// the concrete spellings of composite types over a few atoms are registered first: a composite type built from a type
// parameter inside generic code must get the index of its concrete spelling when the parameter is one of these atoms
func init() {
	for _, p := range []any{
		(*chan int)(nil), (*<-chan int)(nil), (*chan<- int)(nil), (*[2]int)(nil), (*[3]int)(nil),
		(*func(int))(nil), (*func(...int))(nil), (*func(int) (int, error))(nil), (*func(int) int)(nil),
		(*struct{ A int })(nil), (*struct {
			A int `k:"v"`
		})(nil), (*struct {
			A int
			B int
		})(nil), (*struct {
			B int
			A int
		})(nil), (*struct {
			Emb
			A int
		})(nil), (*struct {
			Emb Emb
			A   int
		})(nil),
		(*map[string]int)(nil), (**int)(nil), (*[]<-chan int)(nil), (*map[string]chan<- int)(nil), (*func(<-chan int) [2]int)(nil),
		(*chan string)(nil), (*<-chan string)(nil), (*chan<- string)(nil), (*[2]string)(nil), (*func(...string))(nil),
		(*<-chan uint8)(nil), (*chan<- uint8)(nil), (*chan uint8)(nil), (*<-chan MyI8)(nil), (*chan<- *MyS)(nil),
	} {
		Reg(p)
	}
}

// Dir: type switch against the concrete spellings of channel types
func Dir(v any) string {
	switch v.(type) {
	case <-chan int, <-chan string, <-chan uint8, <-chan bool, <-chan MyI8:
		return "r"
	case chan<- int, chan<- string, chan<- uint8, chan<- bool, chan<- MyI8:
		return "s"
	case chan int, chan string, chan uint8, chan bool, chan MyI8:
		return "b"
	}
	if _, ok := v.(<-chan float64); ok {
		return "R"
	}
	if _, ok := v.(chan float64); ok {
		return "B"
	}
	return "?"
}

func Zero(v any) string {
	switch x := v.(type) {
	case int:
		return Itoa(x)
	case int8:
		return Itoa(int(x)) + "i8"
	case int16:
		return Itoa(int(x)) + "i16"
	case int32:
		return Itoa(int(x)) + "i32"
	case uint8:
		return Itoa(int(x)) + "u8"
	case uint16:
		return Itoa(int(x)) + "u16"
	case uint32:
		return Itoa(int(x)) + "u32"
	case string:
		return "s" + Itoa(len(x))
	case bool:
		return Btoa(x)
	case float64:
		if x == 0 {
			return "0f"
		}
		return "f"
	case MyI8:
		return Itoa(int(x)) + "my"
	case Blk:
		return Itoa(int(x)) + "blk"
	case MyS:
		return "mys" + Itoa(len(x))
	case nil:
		return "nil"
	}
	return "composite"
}
'''


# byte/rune spellings are used only when the compiler survives the witness of finding C04-basic-alias-spelling-dce
# (decided at the start of every run by compiling that witness)
BASIC_ALIAS_SPELLINGS = True


def is_closed(t):
    k = t[0]
    if k == 'b':
        return True
    if k in 'onf':
        return False
    if k == 'N':
        return all(is_closed(a) for a in t[2])
    return all(is_closed(a) for a in t[1:])


def has_shadow(t):
    if t[0] == 'b':
        return t[1] in SHADOW
    if t[0] in 'onf':
        return False
    if t[0] == 'N':
        return any(has_shadow(a) for a in t[2])
    return any(has_shadow(a) for a in t[1:])


def has_named(t):
    k = t[0]
    if k == 'N':
        return True
    if k in 'bonf':
        return False
    return any(has_named(a) for a in t[1:])


def enc_ty(t):
    """protocol encoding (GV.Driver.C04)"""
    k = t[0]
    if k == 'b':
        return "b%d" % BIDX[t[1]]
    if k in 'onf':
        return "%s%d" % (k, t[1])
    if k in 'SPC':
        return k + enc_ty(t[1])
    if k == 'M':
        return "M" + enc_ty(t[1]) + enc_ty(t[2])
    if k == 'N':
        return "N%d[%s]" % (t[1], ",".join(enc_ty(a) for a in t[2]))
    raise ValueError(t)


def dec_ty(s, i=0):
    c = s[i]
    if c in 'bonf':
        j = i + 1
        while j < len(s) and s[j].isdigit():
            j += 1
        n = int(s[i + 1:j])
        return (('b', BASICS[n]) if c == 'b' else (c, n)), j
    if c in 'SPC':
        t, j = dec_ty(s, i + 1)
        return (c, t), j
    if c == 'M':
        k, j = dec_ty(s, i + 1)
        v, j = dec_ty(s, j)
        return ('M', k, v), j
    if c == 'N':
        j = i + 1
        while s[j].isdigit():
            j += 1
        n = int(s[i + 1:j])
        assert s[j] == '['
        j += 1
        args = []
        if s[j] == ']':
            return ('N', n, ()), j + 1
        while True:
            a, j = dec_ty(s, j)
            args.append(a)
            if s[j] == ',':
                j += 1
            elif s[j] == ']':
                return ('N', n, tuple(args)), j + 1
            else:
                raise ValueError(s)
    raise ValueError(s[i:])


def split_top(s, sep):
    out, depth, cur = [], 0, ""
    for ch in s:
        if ch == '[':
            depth += 1
        elif ch == ']':
            depth -= 1
        if ch == sep and depth == 0:
            out.append(cur)
            cur = ""
        else:
            cur += ch
    out.append(cur)
    return out


def dec_tys(s):
    if s == "":
        return []
    res = []
    for part in split_top(s, ','):
        t, j = dec_ty(part)
        assert j == len(part), part
        res.append(t)
    return res


# ----------------------------------------------------------------------------------------------------------------
# the abstract program (use-graph)
# ----------------------------------------------------------------------------------------------------------------

class Def:
    def __init__(self, id, pkg, kind, name, classes, owner=None):
        self.id, self.pkg, self.kind, self.name, self.classes = id, pkg, kind, name, classes
        self.owner = owner          # method: the type; ltype/lgtype: the nesting function/method def
        self.methods = []           # type: method def ids
        self.body = []              # func/method/seed-like statements, lgtype/type: field uses
        self.pos = id               # position in the forward order (methods and local types: their owner's)
        self.ptr_fields = []        # type/lgtype: True for pointer/slice field per body entry

    @property
    def is_sig(self):
        return self.kind in ("func", "method")


class Program:
    """defs + seeds; packages: 0 = main, 1 = base, 2.. = p1.."""

    def __init__(self, npkgs):
        self.npkgs = npkgs          # including main and base
        self.defs = []
        self.seeds = {}             # pkg -> body (list of statements)
        self.ascending = True
        self.identity = []          # closed named types probed in main's identity matrix (appended seeds)

    def can_use(self, a, b):
        """package a may refer to package b: main imports every user package; among the user packages the import direction is
        either ascending (p1 imports p2 …) or descending (p3 imports p2 … — then `Finish` needs several rounds, because the
        packages are visited in path order)"""
        if a == b or a == 0:
            return b != 1
        if b < 2:
            return False
        return b > a if self.ascending else b < a

    def pkg_name(self, p):
        return "main" if p == 0 else ("base" if p == 1 else "p%d" % (p - 1))

    def new_def(self, pkg, kind, name, classes, owner=None):
        d = Def(len(self.defs), pkg, kind, name, classes, owner)
        self.defs.append(d)
        return d


def nested_named(t, out):
    """named generic instances inside a type term, in AST pre-order"""
    k = t[0]
    if k == 'N':
        out.append(t)
        for a in t[2]:
            nested_named(a, out)
    elif k in 'SPC':
        nested_named(t[1], out)
    elif k == 'M':
        nested_named(t[1], out)
        nested_named(t[2], out)
    return out


def stmt_events(P, st):
    """model events of one statement, in the walk order of its rendering"""
    kind = st[0]
    evs = []
    if kind == 'call':           # ('call', callee, args, style)
        _, c, args, style = st
        evs.append(('u', c, tuple(args), False))
        reps = 2 if style == 'explicit' else 1
        for _ in range(reps):
            for a in args:
                for n in nested_named(a, []):
                    evs.append(('u', n[1], tuple(n[2]), False))
    elif kind in ('var', 'field'):          # ('var', callee, args) ; ('field', callee, args, wrap)
        c, args = st[1], st[2]
        inscope = P.defs[c].kind == 'lgtype'
        evs.append(('u', c, tuple(args), inscope))
        for a in args:
            for n in nested_named(a, []):
                evs.append(('u', n[1], tuple(n[2]), False))
    elif kind == 'tsw':          # ('tsw', callee, args, generic): var w B[τ]; switch v := any(w).(type) { case T0: … case B[τ]: … }
        c, args = st[1], st[2]
        for _ in range(2):           # the variable declaration, then the case clause
            evs.append(('u', c, tuple(args), False))
            for a in args:
                for n in nested_named(a, []):
                    evs.append(('u', n[1], tuple(n[2]), False))
    elif kind == 'shadow':       # ('shadow', k, stmt): { type X …; stmt }
        evs += stmt_events(P, st[2])
    elif kind == 'ltype':        # ('ltype', c)
        evs.append(('l', st[1]))
    elif kind == 'lgtype':       # ('lgtype', c): the TypeSpec of a local generic type, walked with the enclosing function
        for f in P.defs[st[1]].body:
            for e in stmt_events(P, f):
                evs.append(shift_event(e))
    else:
        raise ValueError(st)
    return evs


def shift_ty(t):
    """a term of a local generic type seen from the enclosing function: nest -> own, own -> free"""
    k = t[0]
    if k == 'n':
        return ('o', t[1])
    if k == 'o':
        return ('f', t[1])
    if k == 'b' or k == 'f':
        return t
    if k == 'N':
        return ('N', t[1], tuple(shift_ty(a) for a in t[2]))
    return (k,) + tuple(shift_ty(a) for a in t[1:])


def shift_event(e):
    if e[0] == 'u':
        # a use of the local generic type itself (or a sibling) from inside it stays in scope
        return ('u', e[1], tuple(shift_ty(a) for a in e[2]), e[3])
    return e


def def_events(P, d):
    evs = []
    for st in d.body:
        evs += stmt_events(P, st)
    return evs


def enc_events(evs):
    out = []
    for e in evs:
        if e[0] == 'u':
            out += ["u", str(e[1]), "1" if e[3] else "0", str(len(e[2]))] + [enc_ty(a) for a in e[2]]
        else:
            out += ["l", str(e[1])]
    return out


def model_line(P, op="collect", fuel=400):
    w = ["inst", op, str(fuel), str(len(P.defs))]
    for d in P.defs:
        evs = def_events(P, d) if d.kind != 'ltype' else []
        has_node = d.kind != 'ltype'
        w += [str(d.pkg), "1" if d.is_sig else "0", "1" if has_node else "0", "1" if d.kind == 'ltype' else "0", str(len(d.methods))]
        w += [str(m) for m in d.methods]
        w += [str(len(evs))] + enc_events(evs)
    sevs = seed_events(P)
    w += [str(len(sevs))] + enc_events(sevs)
    return " ".join(w)


def parse_model(ans):
    """`ok p0=inst|inst p2=…` -> {pkg: [(obj, nest, args)]}"""
    if not ans.startswith("ok"):
        return None
    res = {}
    for part in ans.split()[1:]:
        p, body = part.split("=", 1)
        lst = []
        for ins in split_top(body, '|'):
            o, nest, args = ins.split(";")
            lst.append((int(o), tuple(dec_tys(nest)), tuple(dec_tys(args))))
        res[int(p[1:])] = lst
    return res


# ----------------------------------------------------------------------------------------------------------------
# generation of a use-graph
# ----------------------------------------------------------------------------------------------------------------

class Gen:
    def __init__(self, rng, size):
        self.rng = rng
        self.size = size

    def classes_of_basic(self, b):
        if b in INTS or b in ("base.MyI8", "base.Blk"):
            return {"any", "cmp", "int"}
        if b in ("any", "func(int) string"):
            return {"any"}
        if b == "base.MyCh":
            return {"any", "cmp", "ch"}
        return {"any", "cmp"}

    def gen_type(self, P, ctx, cls, depth, closed_only=False, min_pos=None):
        """a type term usable for a parameter of class `cls` inside definition context `ctx`
        ctx = (pkg, params) with params = [(term, class)] visible type parameters; named generic types must be importable
        from ctx pkg; `min_pos`: only named types at a position > min_pos may carry parameters (forward edges)"""
        rng = self.rng
        pkg, params = ctx
        params = [] if closed_only else params
        cands = []
        for (term, pc) in params:
            if cls in PARAM_SAT[pc]:
                cands.append(("param", term))
        if cls in ("any", "cmp", "int"):
            for b in BASICS:
                if b not in SHADOW and cls in self.classes_of_basic(b):
                    cands.append(("basic", b))
        if cls == "ch":             # core type chan int: `chan int` itself or the named base.MyCh
            cands += [("basic", "base.MyCh"), ("chanint", None)]
        if cls == "tag":
            for b in TAGGED:
                cands.append(("ptrbasic", b))
            if depth > 0:
                cands.append(("ptrnamed", None))
        if cls == "any" and depth > 0:
            cands += [("slice", None), ("ptr", None), ("map", None), ("chan", None), ("named", None), ("named", None)]
        if cls == "cmp" and depth > 0:
            cands += [("ptr", None), ("chan", None)]
        # parameters are attractive: they make instances flow
        weights = [4 if c[0] == "param" else (2 if c[0] in ("named", "ptrnamed") else 1) for c in cands]
        kind, val = rng.choices(cands, weights)[0]
        if kind == "param":
            return val
        if kind == "basic":
            return ('b', val)
        if kind == "ptrbasic":
            return ('P', ('b', val))
        if kind == "chanint":
            return ('C', ('b', "int"))
        sub = lambda c: self.gen_type(P, ctx, c, depth - 1, closed_only, min_pos)
        if kind == "slice":
            return ('S', sub("any"))
        if kind == "ptr":
            return ('P', sub("any"))
        if kind == "chan":
            return ('C', sub("any"))
        if kind == "map":
            return ('M', sub("cmp"), sub("any"))
        if kind in ("named", "ptrnamed"):
            types = [d for d in P.defs if d.kind == "type" and P.can_use(pkg, d.pkg)]
            if not types:
                return ('P', ('b', "base.MyS")) if kind == "ptrnamed" else ('b', "int")
            d = rng.choice(types)
            forward = min_pos is None or d.pos > min_pos
            args = tuple(self.gen_type(P, ctx, c, depth - 1, closed_only or not forward, min_pos) for c in d.classes)
            t = ('N', d.id, args)
            return ('P', t) if kind == "ptrnamed" else t
        raise AssertionError(kind)

    def gen_use(self, P, owner_pos, ctx, generic_ctx, want=None):
        """a statement instantiating some func/type reachable from ctx"""
        rng = self.rng
        pkg, params = ctx
        cal = [d for d in P.defs if d.kind in ("func", "type") and P.can_use(pkg, d.pkg)]
        if want:
            cal = [d for d in cal if d.kind == want] or cal
        if not cal:
            return None
        d = rng.choice(cal)
        forward = owner_pos is None or d.pos > owner_pos
        closed_only = not forward
        args = tuple(self.gen_type(P, ctx, c, 2, closed_only, owner_pos) for c in d.classes)
        if d.kind == "func":
            style = rng.choice(["infer", "explicit"])    # incl. pkg.F[τ](…) inside generic code (repair C04-qualified-instantiation-in-generic-body)
            return ('call', d.id, args, style)
        if rng.random() < 0.25:
            return ('tsw', d.id, args, generic_ctx)
        return ('var', d.id, args, rng.random() < 0.4)

    def program(self):
        rng, size = self.rng, self.size
        nuser = rng.choice([1, 2, 3]) if size > 0 else 0           # p1..pn; size 0: everything in package main
        P = Program(2 + nuser)
        P.ascending = rng.random() < 0.4
        user = list(range(2, 2 + nuser))
        pkgs = [0] + (user if P.ascending else user[::-1])
        # definitions, created package by package so that ids increase along the import direction
        for p in pkgs:
            nfun = rng.randint(1, 3 if size > 0 else 2)
            ntyp = rng.randint(1, 2 if size > 0 else 1)
            order = ["func"] * nfun + ["type"] * ntyp
            rng.shuffle(order)
            for kind in order:
                ncls = rng.choice([1, 1, 2, 2, 3])
                classes = [rng.choice(["any", "any", "any", "any", "int", "int", "cmp", "cmp", "tag", "tag", "ch"]) for _ in range(ncls)]
                if kind == "func":
                    P.new_def(p, "func", "F%d" % len(P.defs), classes)
                else:
                    t = P.new_def(p, "type", "B%d" % len(P.defs), classes)
                    for mname in ("Tag", "Run", "Val"):
                        m = P.new_def(p, "method", mname, classes, owner=t.id)
                        m.pos = t.pos
                        t.methods.append(m.id)
        # bodies
        for d in list(P.defs):
            if d.kind == "func" or (d.kind == "method" and d.name == "Run"):
                params = [(('o', i), c) for i, c in enumerate(d.classes)]
                ctx = (d.pkg, params)
                for _ in range(rng.randint(1, 3 if size > 0 else 2)):
                    r = rng.random()
                    if r < 0.12:
                        lt = P.new_def(d.pkg, "ltype", "L%d" % len(P.defs), [], owner=d.id)
                        lt.pos = d.pos
                        d.body.append(('ltype', lt.id))
                    elif r < 0.27:
                        lg = P.new_def(d.pkg, "lgtype", "G%d" % len(P.defs), [rng.choice(["any", "any", "int", "tag"])], owner=d.id)
                        lg.pos = d.pos
                        lparams = [(('n', i), c) for i, c in enumerate(d.classes)] + [(('o', 0), lg.classes[0])]
                        for _ in range(rng.randint(0, 2)):
                            types = [t for t in P.defs if t.kind == "type" and P.can_use(d.pkg, t.pkg)]
                            if not types:
                                break
                            t = rng.choice(types)
                            forward = t.pos > d.pos
                            args = tuple(self.gen_type(P, (d.pkg, lparams), c, 1, not forward, d.pos) for c in t.classes)
                            lg.body.append(('field', t.id, args, 'P'))
                        d.body.append(('lgtype', lg.id))
                        for _ in range(rng.randint(1, 2)):
                            a = self.gen_type(P, ctx, lg.classes[0], 2, False, d.pos)
                            d.body.append(('var', lg.id, (a,)))
                    else:
                        u = self.gen_use(P, d.pos, ctx, True)
                        if u:
                            d.body.append(u)
            elif d.kind == "type":
                params = [(('o', i), c) for i, c in enumerate(d.classes)]
                ctx = (d.pkg, params)
                for _ in range(rng.randint(0, 2)):
                    types = [t for t in P.defs if t.kind == "type" and P.can_use(d.pkg, t.pkg)]
                    t = rng.choice(types)
                    if t.id == d.id:
                        d.body.append(('field', t.id, tuple(('o', i) for i in range(len(d.classes))), 'P'))   # *Self[T…]
                        continue
                    forward = t.pos > d.pos
                    args = tuple(self.gen_type(P, ctx, c, 1, not forward, d.pos) for c in t.classes)
                    wrap = rng.choice(['V', 'P', 'S']) if forward else rng.choice(['P', 'S'])
                    if wrap == 'V' and any(has_named(a) for a in args):
                        wrap = 'P'          # a by-value field whose argument names a type could close a by-value cycle
                    d.body.append(('field', t.id, args, wrap))
        # seeds: main() and Boot() of the user packages
        for p in pkgs:
            n = rng.randint(2, 4) if p == 0 else rng.randint(0, 2)
            P.seeds[p] = []
            for _ in range(n):
                u = self.gen_use(P, None, (p, []), False)
                if u:
                    P.seeds[p].append(u)
            # same-named distinct local types as type arguments: only in single-package programs (across packages the
            # compiler refers to them as $pkg.X: finding C04-same-named-local-types-across-packages)
            if p == 0 and nuser == 0:
                cands = [d for d in P.defs if d.kind in ("func", "type") and any(c in ("any", "cmp") for c in d.classes)]
                if cands:
                    d = rng.choice(cands)
                    slot = rng.choice([i for i, c in enumerate(d.classes) if c in ("any", "cmp")])
                    args = [self.gen_type(P, (0, []), c, 1, True, None) for c in d.classes]
                    for k in (1, 2):
                        a = list(args)
                        a[slot] = ('b', SHADOW[k - 1])
                        inner = ('call', d.id, tuple(a), rng.choice(["infer", "explicit"])) if d.kind == "func" else ('var', d.id, tuple(a))
                        P.seeds[0].append(('shadow', k, inner))
        return P


# ----------------------------------------------------------------------------------------------------------------
# rendering to Go
# ----------------------------------------------------------------------------------------------------------------

class Render:
    def __init__(self, P, rng=None):
        self.P = P
        self.tmp = 0
        self.rng = rng              # None: canonical spelling everywhere
        self.aliases = {}           # pkg -> {term: alias name}: `type Al3 = []int` declared at package level

    def alias_ok(self, t):
        return t[0] in 'SPCM' and is_closed(t) and not has_named(t) and not has_shadow(t)

    def qual(self, d, pkg):
        return d.name if d.pkg == pkg else "%s.%s" % (self.P.pkg_name(d.pkg), d.name)

    def ty(self, t, pkg, own="T", nest="T", for_string=False):
        """Go syntax of a type term inside package `pkg` (for_string: go/types TypeString with package-name qualifier)"""
        k = t[0]
        r = lambda x: self.ty(x, pkg, own, nest, for_string)
        rng = None if for_string else self.rng
        if rng is not None and self.alias_ok(t) and rng.random() < 0.3:
            tab = self.aliases.setdefault(pkg, {})
            if t not in tab:
                tab[t] = "Al%d" % len(tab)
            return tab[t]
        if rng is not None and k in 'bSM' and not (k == 'b' and t[1] in SHADOW) and rng.random() < 0.12:
            return "(" + self.ty_plain(t, pkg, own, nest) + ")"
        return self.ty_plain(t, pkg, own, nest, for_string)

    def ty_plain(self, t, pkg, own="T", nest="T", for_string=False):
        k = t[0]
        r = lambda x: self.ty(x, pkg, own, nest, for_string)
        rng = None if for_string else self.rng
        if k == 'b':
            if t[1] in SHADOW:
                return "main.X" if for_string else "X"
            if t[1].startswith("base.") and pkg == 1 and not for_string:
                return t[1][5:]
            if rng is not None and t[1] in SPELLINGS and (BASIC_ALIAS_SPELLINGS or t[1] not in ("uint8", "int32")):
                return rng.choice(SPELLINGS[t[1]])
            return t[1]
        if k == 'o':
            return "%s%d" % (own, t[1])
        if k == 'n':
            return "%s%d" % (nest, t[1])
        if k == 'S':
            return "[]" + r(t[1])
        if k == 'P':
            return "*" + r(t[1])
        if k == 'C':
            return "chan " + r(t[1])
        if k == 'M':
            return "map[%s]%s" % (r(t[1]), r(t[2]))
        if k == 'N':
            d = self.P.defs[t[1]]
            name = "%s.%s" % (self.P.pkg_name(d.pkg), d.name) if for_string else self.qual(d, pkg)
            return "%s[%s]" % (name, ",".join(r(a) for a in t[2]))
        raise ValueError(t)

    def tparams(self, classes, prefix="T"):
        return ", ".join("%s%d %s" % (prefix, i, CONSTRAINT[c] if True else c) for i, c in enumerate(classes))

    def constraint(self, c, pkg):
        s = CONSTRAINT[c]
        return s[5:] if (pkg == 1 and s.startswith("base.")) else s

    def key_expr(self, name, n, prefix="T"):
        parts = ['"%s<"' % name]
        for i in range(n):
            if i:
                parts.append('","')
            parts.append("base.Desc((*%s%d)(nil))" % (prefix, i))
        parts.append('">"')
        return " + ".join(parts)

    def probes(self, classes, ind, prefix="T"):
        out = []
        for i, c in enumerate(classes):
            T = "%s%d" % (prefix, i)
            out.append('%s{ var z %s; base.Emit("z%d:" + base.Zero(any(z))) }' % (ind, T, i))
            if c == "int":
                out.append('%sbase.Emit("w%d:" + base.Itoa(int(%s(base.N200)+%s(base.N100))) + ":" + base.Itoa(int(%s(base.N200)*%s(base.N200)>>3)))' % (
                    ind, i, T, T, T, T))
            if c == "tag":
                out.append('%s{ var z %s; base.Emit("t%d:" + z.Tag()) }' % (ind, T, i))
            if c in ("cmp", "int"):
                out.append('%s{ var a, b %s; m := map[%s]int{}; m[a]++; m[b]++; base.Emit("c%d:" + base.Btoa(any(a) == any(b)) + base.Itoa(len(m))) }' % (
                    ind, T, T, i))
            if c == "ch":       # receive loop over a channel whose type is the type parameter: this instance must block
                out.append('%s{ ch := make(%s); go func() { ch <- 3; ch <- 4; close(ch) }(); n := 0; for v := range ch { n += v }; base.Emit("r%d:" + base.Itoa(n)) }' % (ind, T, i))
                out.append('%s{ ch := make(%s, 1); ch <- 5; close(ch); n := 0; for range ch { n++ }; v, ok := <-ch; base.Emit("q%d:" + base.Itoa(n+v) + base.Btoa(ok)) }' % (ind, T, i))
        for i in range(len(classes)):
            for j in range(i + 1, len(classes)):
                out.append('%s{ _, ok := any((*%s%d)(nil)).(*%s%d); base.Emit("i%d%d:" + base.Btoa(ok)) }' % (ind, prefix, i, prefix, j, i, j))
        # composite types built FROM the type parameter with every attribute-carrying constructor: their identity in the
        # instance must be the identity of the concrete spelling (channel direction, array length, variadic / results,
        # struct tags / field order / embedding, nesting)
        for i, c in enumerate(classes):
            T = "%s%d" % (prefix, i)
            fam = ["chan %s" % T, "<-chan %s" % T, "chan<- %s" % T, "[2]%s" % T, "[3]%s" % T,
                   "func(%s)" % T, "func(...%s)" % T, "func(%s) (%s, error)" % (T, T), "func(%s) %s" % (T, T),
                   "struct{ A %s }" % T, 'struct{ A %s `k:"v"` }' % T, "struct{ A %s; B int }" % T, "struct{ B int; A %s }" % T,
                   "struct{ base.Emb; A %s }" % T, "struct{ Emb base.Emb; A %s }" % T,
                   "map[string]%s" % T, "*%s" % T, "[]<-chan %s" % T, "map[string]chan<- %s" % T, "func(<-chan %s) [2]%s" % (T, T)]
            out.append("%s{" % ind)
            out.append('%s\tsh := ""' % ind)
            out.append("%s\tfor _, p := range []any{%s} {\n%s\t\tsh += base.Reg(p) + \",\"\n%s\t}" % (
                ind, ", ".join("(*%s)(nil)" % f for f in fam), ind, ind))
            out.append('%s\tbase.Emit("sh%d:" + sh + base.Dir(any((<-chan %s)(nil))) + base.Dir(any((chan<- %s)(nil))) + base.Dir(any((chan %s)(nil))))' % (
                ind, i, T, T, T))
            out.append('%s\t{ var a any = make(<-chan %s); var b any = make(chan %s); _, ok1 := a.(chan %s); _, ok2 := b.(<-chan %s); m := map[any]int{(<-chan %s)(nil): 1, (chan %s)(nil): 2, (chan<- %s)(nil): 3}; base.Emit("sd%d:" + base.Btoa(ok1) + base.Btoa(ok2) + base.Itoa(len(m))) }' % (
                ind, T, T, T, T, T, T, T, i))
            out.append("%s}" % ind)
        # type switches and assertions over the type parameters: the bound variable must be the PLAIN value of the type
        # argument (arithmetic, comparison, method call, re-boxing), whatever the clause form
        for i, c in enumerate(classes):
            T = "%s%d" % (prefix, i)
            U = "%s%d" % (prefix, (i + 1) % len(classes))
            val = "%s(base.N200)" % T if c == "int" else "*new(%s)" % T

            def use(v):
                e = "base.Zero(any(%s))" % v
                if c == "int":
                    e += ' + ":" + base.Itoa(int(%s+%s(base.N100)))' % (v, T)
                if c in ("cmp", "int"):
                    e += ' + base.Btoa(%s == z)' % v
                if c == "tag":
                    e += ' + %s.Tag()' % v
                return e
            out.append("%s{" % ind)
            out.append("%s\tvar z %s = %s" % (ind, T, val))
            out.append("%s\tvar x any = z" % ind)
            out.append("%s\tswitch v := x.(type) {" % ind)
            out.append('%s\tcase []%s:\n%s\t\tbase.Emit("ts%d:slice" + base.Itoa(len(v)))' % (ind, T, ind, i))
            out.append('%s\tcase %s:\n%s\t\tbase.Emit("ts%d:" + %s)' % (ind, T, ind, i, use("v")))
            out.append('%s\tdefault:\n%s\t\tbase.Emit("ts%d:default")' % (ind, ind, i))
            out.append("%s\t}" % ind)
            out.append("%s\tswitch v := x.(type) {" % ind)            # multi-type clause: v keeps the interface type
            out.append('%s\tcase %s, []%s:\n%s\t\tbase.Emit("tm%d:" + base.Zero(v))' % (ind, T, U, ind, i))
            out.append('%s\tcase nil:\n%s\t\tbase.Emit("tm%d:nil")' % (ind, ind, i))
            out.append("%s\t}" % ind)
            out.append('%s\tif w, ok := x.(%s); ok {\n%s\t\tbase.Emit("ta%d:" + %s)\n%s\t}' % (ind, T, ind, i, use("w"), ind))
            out.append("%s\tvar y any = []%s{z, z}" % (ind, T))
            out.append("%s\tswitch v := y.(type) {" % ind)
            out.append('%s\tcase %s:\n%s\t\tbase.Emit("tl%d:elem" + %s)' % (ind, T, ind, i, use("v")))
            out.append('%s\tcase []%s:\n%s\t\tbase.Emit("tl%d:" + base.Itoa(len(v)) + %s)' % (ind, T, ind, i, use("v[1]")))
            out.append("%s\t}" % ind)
            out.append("%s}" % ind)
        return out

    def stmts(self, body, pkg, ind, own="T", nest="T"):
        P = self.P
        out = []
        for st in body:
            k = st[0]
            if k == 'call':
                _, c, args, style = st
                d = P.defs[c]
                tys = [self.ty(a, pkg, own, nest) for a in args]
                vals = ", ".join("*new(%s)" % self.ty(a, pkg, own, nest) for a in args)
                if style == 'explicit':
                    out.append("%s%s[%s](%s)" % (ind, self.qual(d, pkg), ", ".join(tys), vals))
                else:
                    out.append("%s%s(%s)" % (ind, self.qual(d, pkg), vals))
            elif k == 'var':
                c, args = st[1], st[2]
                d = P.defs[c]
                self.tmp += 1
                v = "v%d" % self.tmp
                tys = ", ".join(self.ty(a, pkg, own, nest) for a in args)
                if d.kind == 'type' and len(st) > 3 and st[3]:
                    # in its own block
                    out.append("%s{" % ind)
                    out.append("%s\tvar %s %s[%s]" % (ind, v, self.qual(d, pkg), tys))
                    out.append("%s\t%s.Run()" % (ind, v))
                    out.append('%s\tbase.Emit("val:" + %s.Val())' % (ind, v))
                    out.append("%s}" % ind)
                elif d.kind == 'type':
                    # in the scope chain of the function-local types declared next to it (a foreign named type with methods:
                    # FindNestingFunc must only look at functions of the local type's own package)
                    out.append("%svar %s %s[%s]" % (ind, v, self.qual(d, pkg), tys))
                    out.append("%s%s.Run()" % (ind, v))
                    out.append('%sbase.Emit("val:" + %s.Val())' % (ind, v))
                else:
                    out.append("%svar %s %s[%s]" % (ind, v, self.qual(d, pkg), tys))   # local generic type: identity through the registry, field method dispatch
                    out.append('%sbase.Emit("%s:" + base.Reg(any(%s)))' % (ind, d.name, v))
                    for fi, f in enumerate(d.body):
                        out.append('%sbase.Emit("%s.F%d:" + %s.F%d.Tag())' % (ind, d.name, fi, v, fi) if P.defs[f[1]].kind == 'type' else
                                   '%s_ = %s.F%d' % (ind, v, fi))
            elif k == 'tsw':
                c, args, generic = st[1], st[2], st[3]
                d = P.defs[c]
                self.tmp += 1
                w = "w%d" % self.tmp
                t1 = ", ".join(self.ty(a, pkg, own, nest) for a in args)
                t2 = ", ".join(self.ty(a, pkg, own, nest) for a in args)
                out.append("%s{" % ind)
                out.append("%s\tvar %s %s[%s]" % (ind, w, self.qual(d, pkg), t1))
                out.append("%s\tvar x any = %s" % (ind, w))
                out.append("%s\tswitch v := x.(type) {" % ind)
                if generic:
                    out.append('%s\tcase %s0:\n%s\t\tbase.Emit("tsw:T:" + base.Zero(any(v)))' % (ind, own, ind))
                out.append('%s\tcase %s[%s]:\n%s\t\tbase.Emit("tsw:B:" + v.Val())\n%s\t\tv.Run()' % (ind, self.qual(d, pkg), t2, ind, ind))
                out.append('%s\tdefault:\n%s\t\tbase.Emit("tsw:default")' % (ind, ind))
                out.append("%s\t}" % ind)
                out.append("%s}" % ind)
            elif k == 'shadow':
                out.append("%s{" % ind)
                out.append("%s\ttype X struct{ a %s }" % (ind, ["int", "int8"][st[1] - 1]))
                out += self.stmts([st[2]], pkg, ind + "\t", own, nest)
                out.append("%s}" % ind)
            elif k == 'ltype':
                d = P.defs[st[1]]
                owner = P.defs[d.owner]
                fields = "; ".join("V%d *%s%d" % (i, own, i) for i in range(len(owner.classes)))
                out.append("%stype %s struct{ %s }" % (ind, d.name, fields))
                self.tmp += 1
                out.append("%svar l%d %s" % (ind, self.tmp, d.name))
                out.append('%sbase.Emit("%s:" + base.Reg(any(l%d)))' % (ind, d.name, self.tmp))
            elif k == 'lgtype':
                d = P.defs[st[1]]
                owner = P.defs[d.owner]
                lines = ["A%d *%s%d" % (i, own, i) for i in range(len(owner.classes))] + ["X0 *X0"]
                for fi, f in enumerate(d.body):
                    fd = P.defs[f[1]]
                    tys = ", ".join(self.ty(a, pkg, "X", own) for a in f[2])
                    lines.append("F%d *%s[%s]" % (fi, self.qual(fd, pkg), tys))
                out.append("%stype %s[X0 %s] struct{ %s }" % (ind, d.name, self.constraint(d.classes[0], pkg), "; ".join(lines)))
            else:
                raise ValueError(st)
        return out

    def package(self, p):
        P = self.P
        name = P.pkg_name(p)
        out = []
        for d in P.defs:
            if d.pkg != p:
                continue
            if d.kind == "func":
                tps = ", ".join("T%d %s" % (i, self.constraint(c, p)) for i, c in enumerate(d.classes))
                ps = ", ".join("_ T%d" % i for i in range(len(d.classes)))
                out.append("func %s[%s](%s) {" % (d.name, tps, ps))
                out.append("\tkey := " + self.key_expr(d.name, len(d.classes)))
                out.append("\tif !base.Enter(key) {\n\t\treturn\n\t}")
                out += self.probes(d.classes, "\t")
                out += self.stmts(d.body, p, "\t")
                out.append("}\n")
            elif d.kind == "type":
                tps = ", ".join("T%d %s" % (i, self.constraint(c, p)) for i, c in enumerate(d.classes))
                targs = ", ".join("T%d" % i for i in range(len(d.classes)))
                out.append("type %s[%s] struct {" % (d.name, tps))
                for i in range(len(d.classes)):
                    out.append("\tA%d T%d" % (i, i))
                for fi, f in enumerate(d.body):
                    fd = P.defs[f[1]]
                    tys = ", ".join(self.ty(a, p) for a in f[2])
                    wrap = {"V": "", "P": "*", "S": "[]"}[f[3]]
                    out.append("\tF%d %s%s[%s]" % (fi, wrap, self.qual(fd, p), tys))
                out.append("}\n")
                out.append("func (b *%s[%s]) Tag() string {\n\treturn %s\n}\n" % (d.name, targs, self.key_expr(d.name, len(d.classes))))
                run = P.defs[d.methods[1]]
                out.append("func (b *%s[%s]) Run() {" % (d.name, targs))
                out.append("\tif !base.Enter(b.Tag()) {\n\t\treturn\n\t}")
                out += self.probes(d.classes, "\t")
                for fi, f in enumerate(d.body):
                    if f[3] == 'V':
                        out.append('\tbase.Emit("f%d:" + b.F%d.Tag())' % (fi, fi))
                        out.append('\tb.F%d.Run()' % fi)
                    elif f[3] == 'P':
                        out.append('\tbase.Emit("f%d:" + b.F%d.Tag())' % (fi, fi))
                    else:
                        out.append('\tbase.Emit("f%d:" + base.Itoa(len(b.F%d)))' % (fi, fi))
                out += self.stmts(run.body, p, "\t")
                out.append("}\n")
                out.append("func (b %s[%s]) Val() string {\n\treturn \"%s\" + base.Zero(any(b.A0))\n}\n" % (d.name, targs, d.name))
        # seeds
        body = self.stmts(P.seeds.get(p, []), p, "\t")
        if p == 0:
            out.append("func main() {")
            for q in sorted(P.seeds):
                if q != 0:
                    out.append("\t%s.Boot()" % P.pkg_name(q))
            out += body
            out += self.identity_matrix()
            out.append('\tbase.Emit("done")')
            out.append("}\n")
            out.append(self.user_switch())
        else:
            out.append("func Boot() {")
            out.append('\tbase.Emit("boot %s")' % name)
            out += body
            out.append("}\n")
        text = "\n".join(out)
        decls = ""
        for t, al in self.aliases.get(p, {}).items():
            saved, self.rng = self.rng, None
            decls += "type %s = %s\n\n" % (al, self.ty(t, p))
            self.rng = saved
        text = decls + text
        imports = sorted({m for m in re.findall(r"\b(base|p\d+)\.", text) if m != name})
        head = "package %s\n\n" % name
        if imports:
            head += "import (\n" + "".join('\t"%s/%s"\n' % ("MOD", i) for i in imports) + ")\n\n"
        return head + text

    def identity_matrix(self):
        """type switches, assertions, interface comparison and map keys over pairs of instance types (non-generic code)"""
        P = self.P
        ts = P.identity
        if not ts:
            return []
        out = ["\t{"]
        out.append("\t\tvals := []any{%s}" % ", ".join("(*%s)(nil)" % self.ty(t, 0) for t in ts))
        out.append("\t\tm := map[any]int{}")
        out.append("\t\tfor i, v := range vals {\n\t\t\tif _, ok := m[v]; !ok {\n\t\t\t\tm[v] = i\n\t\t\t}\n\t\t}")
        out.append("\t\tfor i, v := range vals {")
        out.append('\t\t\tline := "id" + base.Itoa(i) + ":"')
        out.append("\t\t\tfor _, w := range vals {\n\t\t\t\tline += base.Btoa(v == w)\n\t\t\t}")
        out.append('\t\t\tline += ":" + base.Itoa(m[v]) + ":"')
        seen = []
        out.append("\t\t\tswitch v.(type) {")
        for i, t in enumerate(ts):
            if t in seen:                      # identical types must not appear twice in one type switch
                continue
            seen.append(t)
            out.append('\t\t\tcase *%s:\n\t\t\t\tline += "%d"' % (self.ty(t, 0), i))
        out.append('\t\t\tdefault:\n\t\t\t\tline += "?"\n\t\t\t}')
        out.append('\t\t\tline += ":"')
        for t in ts:
            out.append("\t\t\t{\n\t\t\t\t_, ok := v.(*%s)\n\t\t\t\tline += base.Btoa(ok)\n\t\t\t}" % self.ty(t, 0))
        out.append("\t\t\tbase.Emit(line)")
        out.append("\t\t}")
        out.append("\t}")
        return out

    def user_switch(self):
        """main's description of the closed composite types without generic instances (no seeds are created by it)"""
        cases = []
        for i, t in enumerate(self.P.desc_types):
            s = (self.ty(t, 0), self.ty(t, 0, for_string=True))
            if i % 2 == 0:
                cases.append(("switch", s))
            else:
                cases.append(("assert", s))
        out = ["func init() {", "\tbase.User = func(p any) (string, bool) {"]
        sw = [s for k, s in cases if k == "switch"]
        if sw:
            out.append("\t\tswitch p.(type) {")
            for s in sw:
                out.append('\t\tcase *%s:\n\t\t\treturn "%s", true' % (s[0], s[1]))
            out.append("\t\t}")
        for k, s in cases:
            if k == "assert":
                out.append('\t\tif _, ok := p.(*%s); ok {\n\t\t\treturn "%s", true\n\t\t}' % (s[0], s[1]))
        out.append('\t\treturn "", false')
        out.append("\t}\n}\n")
        return "\n".join(out)

    def files(self, mod):
        P = self.P
        files = {"base/base.go": BASE_SRC}
        for p in [0] + list(range(2, P.npkgs)):
            src = self.package(p).replace('"MOD/', '"%s/' % mod)
            files["main.go" if p == 0 else "%s/%s.go" % (P.pkg_name(p), P.pkg_name(p))] = src
        return files


def types_in_set(sets):
    """all closed type terms occurring as type/nest arguments (and their sub-terms)"""
    seen = []

    def walk(t):
        if t not in seen:
            seen.append(t)
        if t[0] == 'N':
            for a in t[2]:
                walk(a)
        elif t[0] in 'SPCM':
            for a in t[1:]:
                walk(a)

    for p in sorted(sets):
        for (o, nest, args) in sets[p]:
            for a in nest + args:
                walk(a)
    return seen


def inst_string(P, R, inst):
    o, nest, args = inst
    d = P.defs[o]
    name = d.name if d.kind != "method" else "%s.%s" % (P.defs[d.owner].name, d.name)
    f = lambda ts: ",".join(R.ty(t, 0, for_string=True) for t in ts)
    return "%s<%s;%s>" % (name, f(nest), f(args))


# ----------------------------------------------------------------------------------------------------------------
# witness programs of the recorded findings
# ----------------------------------------------------------------------------------------------------------------

LEAF = """package leaf

func Len[T any](xs []T) int { return len(xs) }
"""

WITNESSES = [
    # (id, class, files)
    ("local-type-as-type-argument", "local-type-as-type-argument", {
        "main.go": 'package main\n\ntype Box[T any] struct{ V T }\n\nfunc F[T any](v T) any {\n\ttype cell struct{ v T }\n\treturn Box[cell]{cell{v}}\n}\n\nfunc main() {\n\ta := F[int](1)\n\tb := F[string]("a")\n\tprintln(a == b)\n\t_, ok := a.(Box[int])\n\tprintln(ok)\n}\n'}),
    ("local-type-no-param-as-type-argument", "local-type-as-type-argument", {
        "main.go": 'package main\n\ntype Box[T any] struct{ V T }\n\nfunc F[T any]() any { type tag struct{}; return Box[tag]{} }\n\nfunc main() {\n\tprintln(F[int]() == F[string]())\n\tprintln(F[int]() == F[int]())\n}\n'}),
    ("local-type-inferred-type-argument", "local-type-as-type-argument", {
        "main.go": 'package main\n\nfunc Len[T any](xs []T) int { return len(xs) }\n\nfunc g[T any](x T) int { type cell struct{ v T }; c := cell{x}; return Len([]cell{c}) }\n\nfunc main() { println(g[int](1)) }\n'}),
    ('local-type-in-slice-elided', "local-type-in-composite-type", {"main.go": 'package main\n\nfunc g[T any](x T) int {\n\ttype cell struct{ v T }\n\t_ = []cell{{x}}\n\treturn 1\n}\n\nfunc main() { println(g[int](1), g[string]("a")) }\n'}),
    ('local-type-in-slice-explicit', "local-type-in-composite-type", {"main.go": 'package main\n\nfunc g[T any](x T) int {\n\ttype cell struct{ v T }\n\t_ = []cell{cell{x}}\n\treturn 1\n}\n\nfunc main() { println(g[int](1), g[string]("a")) }\n'}),
    ('local-type-in-slice-var', "local-type-in-composite-type", {"main.go": 'package main\n\nfunc g[T any](x T) int {\n\ttype cell struct{ v T }\n\tvar s []cell; _ = s\n\treturn 1\n}\n\nfunc main() { println(g[int](1), g[string]("a")) }\n'}),
    ('local-type-in-pointer-var', "local-type-in-composite-type", {"main.go": 'package main\n\nfunc g[T any](x T) int {\n\ttype cell struct{ v T }\n\tvar p *cell; _ = p\n\treturn 1\n}\n\nfunc main() { println(g[int](1), g[string]("a")) }\n'}),
    ('local-type-in-anon-struct', "local-type-in-composite-type", {"main.go": 'package main\n\nfunc g[T any](x T) int {\n\ttype cell struct{ v T }\n\t_ = struct{ c cell }{}\n\treturn 1\n}\n\nfunc main() { println(g[int](1), g[string]("a")) }\n'}),
    ('local-type-independent-in-slice', "local-type-in-composite-type", {"main.go": 'package main\n\nfunc g[T any](x T) int {\n\ttype cell struct{ v T }\n\ttype tag struct{}; _ = []tag{{}}\n\treturn 1\n}\n\nfunc main() { println(g[int](1), g[string]("a")) }\n'}),
    ('local-generic-type-self-pointer', "local-type-in-composite-type", {"main.go": 'package main\n\nfunc g[T any](x T) int {\n\ttype cell struct{ v T }\n\ttype node[U any] struct{ next *node[U]; v T }; _ = node[int]{}\n\treturn 1\n}\n\nfunc main() { println(g[int](1), g[string]("a")) }\n'}),
    ("same-named-local-types-across-packages", "same-named-local-types-across-packages", {"p1/p1.go": 'package p1\n\nfunc D[T any]() any { return (*T)(nil) }\n', "main.go": 'package main\n\nimport "MOD/p1"\n\nfunc main() {\n\tvar a, b any\n\t{\n\t\ttype X struct{ a int }\n\t\ta = p1.D[X]()\n\t}\n\t{\n\t\ttype X struct{ a int8 }\n\t\tb = p1.D[X]()\n\t}\n\tprintln(a == b)\n}\n'}),
    ("basic-alias-spelling-dce", "identical-type-spelling-dce", {"main.go": 'package main\n\ntype B[T any] struct{ V T }\n\nfunc (b *B[T]) Tag() string { return "B" }\n\nfunc F[T any]() string { var p *B[T]; return p.Tag() }\n\nfunc main() {\n\tprintln(F[rune]())\n\tvar q *B[int32]\n\tprintln(q.Tag())\n}\n'}),
]
# controls: the neighbouring forms that must work
CONTROLS = [
    ("control-inferred-qualified", {
        "leaf/leaf.go": LEAF,
        "main.go": 'package main\n\nimport "MOD/leaf"\n\nfunc F[T any](v T) int { return leaf.Len([]T{v}) }\n\nfunc H(v int) int { return leaf.Len[int]([]int{v}) }\n\nfunc main() {\n\tprintln(F[int](1))\n\tprintln(F[string]("a"))\n\tprintln(H(2))\n}\n'}),
    ("control-explicit-unqualified", {
        "main.go": 'package main\n\nfunc Len[T any](xs []T) int { return len(xs) }\n\nfunc F[T any](v T) int { return Len[T]([]T{v}) }\n\nfunc main() {\n\tprintln(F[int](1))\n\tprintln(F[string]("a"))\n}\n'}),
    ('control-local-type-in-array', {"main.go": 'package main\n\nfunc g[T any](x T) int {\n\ttype cell struct{ v T }\n\t_ = [1]cell{{x}}\n\treturn 1\n}\n\nfunc main() { println(g[int](1), g[string]("a")) }\n'}),
    ('control-local-type-in-map', {"main.go": 'package main\n\nfunc g[T any](x T) int {\n\ttype cell struct{ v T }\n\t_ = map[int]cell{1: {x}}\n\treturn 1\n}\n\nfunc main() { println(g[int](1), g[string]("a")) }\n'}),
    ('control-local-type-in-chan', {"main.go": 'package main\n\nfunc g[T any](x T) int {\n\ttype cell struct{ v T }\n\tvar c chan cell; _ = c\n\treturn 1\n}\n\nfunc main() { println(g[int](1), g[string]("a")) }\n'}),
    ('control-local-type-in-func', {"main.go": 'package main\n\nfunc g[T any](x T) int {\n\ttype cell struct{ v T }\n\t_ = func(c cell) {}\n\treturn 1\n}\n\nfunc main() { println(g[int](1), g[string]("a")) }\n'}),
    ('control-local-type-assert', {"main.go": 'package main\n\nfunc g[T any](x T) int {\n\ttype cell struct{ v T }\n\tvar e any = cell{x}; _, _ = e.(cell)\n\treturn 1\n}\n\nfunc main() { println(g[int](1), g[string]("a")) }\n'}),
    ("control-cross-package-var-in-inner-block", {"p1/p1.go": 'package p1\n\ntype B[T any] struct{ A T }\n\nfunc (b *B[T]) Run() int {\n\tn := 0\n\tn++\n\tn++\n\tn++\n\tn++\n\tn++\n\tn++\n\tn++\n\tn++\n\tn++\n\tn++\n\tn++\n\tn++\n\tn++\n\tn++\n\tn++\n\tn++\n\tn++\n\tn++\n\tn++\n\treturn n\n}\n', "main.go": 'package main\n\nimport "MOD/p1"\n\nfunc F[T any](_ T) int {\n\ttype L struct{ V *T }\n\tvar l L\n\t_ = l\n\t{\n\t\tvar v p1.B[T]\n\t\treturn v.Run()\n\t}\n}\n\nfunc main() { println(F[int](1), F[string]("a")) }\n'}),
    ("control-same-named-local-types-one-package", {"main.go": 'package main\n\nfunc D[T any]() any { return (*T)(nil) }\n\nfunc main() {\n\tvar a, b any\n\t{\n\t\ttype X struct{ a int }\n\t\ta = D[X]()\n\t}\n\t{\n\t\ttype X struct{ a int8 }\n\t\tb = D[X]()\n\t}\n\tprintln(a == b)\n}\n'}),
    ("repaired-explicit-qualified-T", {
        "leaf/leaf.go": LEAF,
        "main.go": 'package main\n\nimport "MOD/leaf"\n\nfunc F[T any](v T) int { return leaf.Len[T]([]T{v}) }\n\nfunc main() {\n\tprintln(F[int](1))\n\tprintln(F[string]("a"))\n}\n'}),
    ("repaired-explicit-qualified-closed", {
        "leaf/leaf.go": LEAF,
        "main.go": 'package main\n\nimport "MOD/leaf"\n\ntype W[T any] struct{ x T }\n\nfunc (w W[T]) M() int { return leaf.Len[string]([]string{"a"}) }\n\nfunc main() { println(W[int]{}.M()) }\n'}),
    ("repaired-nesting-func-cross-package-positions", {"p1/p1.go": 'package p1\n\ntype B[T any] struct{ A T }\n\nfunc (b *B[T]) Run() int {\n\tn := 0\n\tn++\n\tn++\n\tn++\n\tn++\n\tn++\n\tn++\n\tn++\n\tn++\n\tn++\n\tn++\n\tn++\n\tn++\n\tn++\n\tn++\n\tn++\n\tn++\n\tn++\n\tn++\n\tn++\n\treturn n\n}\n', "main.go": 'package main\n\nimport "MOD/p1"\n\nfunc F[T any](_ T) int {\n\ttype L struct{ V *T }\n\tvar l L\n\tvar v p1.B[T]\n\t_ = l\n\treturn v.Run()\n}\n\nfunc main() { println(F[int](1), F[string]("a")) }\n'}),
    ("control-range-over-chan-of-type-parameter-elem", {"main.go": 'package main\n\nfunc Drain[E any](c chan E) int {\n\tn := 0\n\tfor range c {\n\t\tn++\n\t}\n\treturn n\n}\n\nfunc Recv[C ~chan E, E any](c C) E { return <-c }\n\nfunc Send[C ~chan E, E any](c C, v E) { c <- v }\n\nfunc main() {\n\tc := make(chan int)\n\tgo func() { c <- 1; c <- 2; close(c) }()\n\tprintln(Drain(c))\n\td := make(chan string)\n\tgo func() { Send(d, "x") }()\n\tprintln(Recv(d))\n}\n'}),
    ("repaired-range-over-type-parameter-channel", {"main.go": 'package main\n\nfunc Drain[C ~chan E, E any](c C) int {\n\tn := 0\n\tfor range c {\n\t\tn++\n\t}\n\treturn n\n}\n\nfunc Sum[C chan int](c C) int {\n\tn := 0\n\tfor v := range c {\n\t\tn += v\n\t}\n\treturn n\n}\n\nfunc main() {\n\tc := make(chan int)\n\tgo func() { c <- 1; c <- 2; close(c) }()\n\tprintln(Drain(c))\n\td := make(chan int)\n\tgo func() { d <- 3; d <- 4; close(d) }()\n\tprintln(Sum(d))\n}\n'}),
    ("control-local-type-values", {
        "main.go": 'package main\n\nfunc g[T any](x T) any { type cell struct{ v T }; c := cell{x}; return &c }\nfunc h[T any](x T) any { type cell struct{ v T }; return cell{x} }\nfunc k[T any](x T) any { type pair[U any] struct{ v T; u U }; return pair[int]{x, 1} }\n\nfunc main() {\n\tprintln(g[int](1) == g[int](1), h[int](1) == h[int](1), h[int](1) == h[int8](1), k[int](1) == k[int](1), k[int](1) == k[string]("a"))\n}\n'}),
]


def msg_class(err):
    if "Substituting types.Signatures with generic functions" in err:
        return "subst-signature-panic"
    if "hasn't been added to the set" in err:
        return "id-not-in-set-panic"
    if "did not have function declaration instance" in err:
        return "no-func-decl-instance-panic"
    return "other"


# ----------------------------------------------------------------------------------------------------------------
# structure tie: the `.$val` unwrapping of a type-switch clause variable is decided on the SUBSTITUTED type
# ----------------------------------------------------------------------------------------------------------------

UNWRAP_ARGS = [   # (Go type argument, model term encoding, is an interface atom)
    ("int", "b0", False), ("int8", "b1", False), ("uint8", "b4", False), ("int64", "b100", False), ("uint64", "b101", False),
    ("float64", "b9", False), ("string", "b7", False), ("bool", "b8", False), ("[]int", "Sb0", False), ("*int", "Pb0", False),
    ("map[string]int", "Mb7b0", False), ("chan int", "Cb0", False), ("func(int) string", "b102", False),
    ("any", "b103", True), ("error", "b104", True), ("Iface", "b105", True), ("Pt", "b106", False), ("Cel", "b107", False),
    ("Str", "b108", False), ("Box[int]", "N0[b0]", False), ("struct{ A int }", "b109", False), ("[]Iface", "Sb105", False),
]
UNWRAP_CLAUSES = [("T", "o0"), ("[]T", "So0"), ("Box[T]", "N0[o0]"), ("map[string]T", "Mb7o0"), ("*T", "Po0")]


def unwrap_structure_tie(chk):
    """emitted code of `switch v := x.(type) { case T: … case []T: … }` for every kind of type argument: the clause variable
    is bound to `_ref.$val` exactly when the model says so (GV.Spec.Inst.unwrapIn: decided on the substituted type)"""
    body = "".join("\tcase %s:\n\t\t_ = v\n\t\treturn %d\n" % (c, i + 1) for i, (c, _) in enumerate(UNWRAP_CLAUSES))
    calls = "".join("\tn += Sw[%s](nil)\n" % a for (a, _, _) in UNWRAP_ARGS)
    src = ("package main\n\ntype Pt struct{ X, Y int }\n\ntype Cel float64\n\ntype Str string\n\ntype Iface interface{ M() }\n\n"
           "type Box[T any] struct{ V T }\n\nfunc Sw[T any](x any) int {\n\tswitch v := x.(type) {\n" + body + "\t}\n\treturn 0\n}\n\n"
           "func main() {\n\tn := 0\n" + calls + "\tprintln(n)\n}\n")
    r = run_jobs_retry([{"id": "unwrap", "mod": "gvqunwrap", "files": {"main.go": src}, "variants": ["plain"], "native": False,
                         "timeout": 300, "keep_js": True}], 1)[0]
    run = r["runs"]["plain"]
    js = run.get("js") or ""
    ias = [e[1:] for (_, e, ia) in UNWRAP_ARGS if ia]
    ops, impl = [], []
    # instance functions are emitted in set order = order of the calls in main (ids are package-wide positions)
    chunks = re.findall(r"Sw\[\d+ /\* [^\n]*? \*/\] = function[^\n]*\n(.*?)\n\t\t\};", js, re.S)
    for k, (a, enc, _) in enumerate(UNWRAP_ARGS):
        chunk = chunks[k] if len(chunks) == len(UNWRAP_ARGS) else ""
        for ci, (c, cenc) in enumerate(UNWRAP_CLAUSES):
            var = "v" if ci == 0 else "v\\$%d" % ci
            mm = re.search(r"^\s*%s = (.*);$" % var, chunk, re.M)
            ops.append("inst unwrap %d %s 1 %s %s" % (len(ias), " ".join(ias), enc, cenc))
            if not js:
                impl.append("compile-error:" + (run.get("err") or "")[:200])
            elif not mm:
                impl.append("no-binding-found")
            else:
                impl.append("val" if "_ref.$val" in mm.group(1) else "iface")
    model = C.run_driver("C04", ops)
    chk.compare("typeswitch-unwrap", ops, impl, model, kind=lambda o, a: "unwrap:" + a)


# ----------------------------------------------------------------------------------------------------------------
# running
# ----------------------------------------------------------------------------------------------------------------

def run_jobs(jobs, par=6):
    gopath = C.scratch("gvc04")
    try:
        p = C.run_gvh(["run", "-j", str(par)], [json.dumps(j) for j in jobs], timeout=7200, name="gvh_c04",
                      extra_env={"GOPATH": gopath, "GO111MODULE": "off", "GOFLAGS": ""})
        if p.returncode != 0:
            raise RuntimeError("gvh_c04 failed: " + p.stderr[-3000:])
        out = [json.loads(l) for l in p.stdout.split("\n") if l.strip()]
        if len(out) != len(jobs):
            raise RuntimeError("gvh_c04 answered %d results for %d jobs" % (len(out), len(jobs)))
        return out
    finally:
        shutil.rmtree(gopath, ignore_errors=True)


def run_jobs_retry(jobs, par=6):
    """timeouts on the loaded machine: re-run the job alone before treating it as anything"""
    res = run_jobs(jobs, par)
    for i, (j, r) in enumerate(zip(jobs, res)):
        if any(v.get("class") == "timeout" for v in r["runs"].values()):
            C.log("[C04] job %s timed out; re-running alone" % j["id"])
            res[i] = run_jobs([dict(j, timeout=900)], 1)[0]
    return res


def build_programs(chk, n, size):
    """generate n use-graphs whose closure is finite (Lean `collect` terminates), add the identity seeds, render"""
    progs_, tries = [], 0
    while len(progs_) < n and tries < 20:
        tries += 1
        cand = [Gen(chk.rng, size).program() for _ in range(n - len(progs_))]
        ans = C.run_driver("C04", [model_line(P) for P in cand])
        for P, a in zip(cand, ans):
            sets = parse_model(a)
            if sets is None:
                chk.count("gen:diverging-closure-discarded")
                continue
            # identity probes: a few named instances of the closure become seeds at the end of main()
            named = [t for t in types_in_set(sets) if t[0] == 'N' and not has_shadow(t)]
            for p in sorted(sets):
                for (o, nest, args) in sets[p]:
                    if P.defs[o].kind == 'type' and not nest:
                        t = ('N', o, args)
                        if t not in named and not has_shadow(t):
                            named.append(t)
            chk.rng.shuffle(named)
            P.identity = named[:chk.rng.randint(2, 4)]
            if P.identity:
                P.identity.append(P.identity[0])          # the same instance twice (spelled independently): must be identical
            # the matrix names every type 3 times (vals, switch case once per distinct, assertion)
            P.matrix_seed_stmts = []
            progs_.append(P)
    if len(progs_) < n:
        raise RuntimeError("generator: could not produce %d terminating use-graphs" % n)
    return progs_


def identity_events(P):
    """seed events of the identity matrix, in walk order: vals literal, switch cases (distinct), assertions"""
    evs = []

    def occ(t):
        for n in nested_named(t, []):
            evs.append(('u', n[1], tuple(n[2]), False))

    for t in P.identity:
        occ(t)
    seen = []
    for t in P.identity:
        if t in seen:
            continue
        seen.append(t)
        occ(t)
    for t in P.identity:
        occ(t)
    return evs


def seed_events(P):
    """seeds in Scan order (packages sorted by import path = package index); main's identity matrix follows main's seeds"""
    evs = []
    for p in sorted(P.seeds):
        for st in P.seeds[p]:
            evs += stmt_events(P, st)
        if p == 0 and getattr(P, "identity", None):
            evs += identity_events(P)
    return evs


def norm(s):
    return s.replace(" ", "")


def first_diff(a, b):
    d = next((i for i, (x, y) in enumerate(zip(a, b)) if x != y), min(len(a), len(b)))
    return d


def run(tier, seed):
    chk = C.Check("C04", tier, seed)
    chk.rule = ("a case = one generated multi-package generic Go program: a use-graph (a term of GV.Model.Inst: generic functions, "
                "generic types with methods, types and generic types declared inside generic functions, seeds in main and in imported "
                "packages, forward uses with parameters, closed back uses = mutual recursion) is drawn from the seeded PRNG, its closure "
                "is computed by the Lean model, the graph is rendered to Go; non-trivial = distinct program text; every instance prints "
                "zero value / hand-built type description / arithmetic width / method dispatch (one Tag blocks) / identity probes; identical types are "
                "spelled differently per occurrence (byte/uint8, rune/int32, any/interface{}, func parameter names, struct layout, aliases, "
                "parentheses, inferred vs explicit); instance sets are compared on canonical (types.Identical) identity")
    chk.trusted = ["Lean 4.33 kernel", "axioms: propext, Classical.choice, Quot.sound at most (listed per theorem)",
                   "hand-written model GV.Model.Inst tied to compiler/internal/typeparams by the instance-set comparison (set and ids)",
                   "GV.Spec.Inst.Reach = my reading of the Go spec's instantiation rules", "native Go toolchain as oracle for program behaviour"]
    chk.assumptions = ["go/types.Instantiate, types.Identical and internal/govendor/subst are modelled as structural substitution/equality of first-order terms",
                       "translation of instance bodies (functions.go, decls.go, expressions.go) and per-instance blocking analysis are covered by compiled programs only",
                       "programs outside the LocalFree fragment (a type declared in a generic function used inside another type) are known to fail; see findings"]
    chk.proof = C.check_proofs("C04", THEOREMS, tier)
    C.build_gvh("gvh_c04")
    global BASIC_ALIAS_SPELLINGS
    wsrc = next(f for (w, c, f) in WITNESSES if w == "basic-alias-spelling-dce")
    pre = run_jobs_retry([{"id": "pre", "mod": "gvqpre", "files": dict(wsrc), "variants": ["plain"], "native": False, "timeout": 300}], 1)[0]
    BASIC_ALIAS_SPELLINGS = progs.observe_js(pre["runs"]["plain"])[1] == "exit0"
    chk.extra["byte_rune_spellings_enabled"] = BASIC_ALIAS_SPELLINGS

    # ---- substitution: code vs spec on local-free terms (driver smoke; the theorem is subst_code_eq_spec) ----
    nprog = {"quick": 14, "thorough": 90}[tier]
    progs_ = build_programs(chk, nprog, 1)
    progs_ += build_programs(chk, max(2, nprog // 5), 0)
    lines = [model_line(P) for P in progs_]
    model = C.run_driver("C04", lines)
    rev = C.run_driver("C04", [model_line(P, "collectrev") for P in progs_])

    jobs = []
    renders = []
    for k, P in enumerate(progs_):
        sets = parse_model(model[k])
        if sets is None:
            raise RuntimeError("model diverges after adding identity seeds (cannot happen: they are in the closure)")
        P.desc_types = [t for t in types_in_set(sets) if not has_named(t) and not has_shadow(t) and t[0] != 'b'][:40]
        R = Render(P, random.Random(chk.rng.randrange(1 << 30)))     # spellings are drawn independently per occurrence
        mod = "gvq%dx%d" % (seed, k)
        jobs.append({"id": "g%d" % k, "mod": mod, "files": R.files(mod), "variants": ["plain", "minify"], "native": True, "timeout": 300})
        renders.append(R)
    for wi, (wid, cls, files) in enumerate(WITNESSES):
        mod = "gvqw%d" % wi
        jobs.append({"id": "w-" + wid, "mod": mod, "files": {n: s.replace("MOD", mod) for n, s in files.items()},
                     "variants": ["plain"], "native": True, "timeout": 300})
    for ci, (cid, files) in enumerate(CONTROLS):
        mod = "gvqc%d" % ci
        jobs.append({"id": "c-" + cid, "mod": mod, "files": {n: s.replace("MOD", mod) for n, s in files.items()},
                     "variants": ["plain", "minify"], "native": True, "timeout": 300})
    res = run_jobs_retry(jobs, par=6 if tier == "quick" else 8)

    # ---- (b) instance sets: impl vs model, set and ids ----
    ops, impl_ans, model_ans = [], [], []
    ninst = 0
    for k, P in enumerate(progs_):
        r = res[k]
        sets = parse_model(model[k])
        rsets = parse_model(rev[k])
        if rsets is None or {p: sorted(map(repr, v)) for p, v in rsets.items()} != {p: sorted(map(repr, v)) for p, v in sets.items()}:
            raise RuntimeError("model: visiting packages in reverse order changed the SET (contradicts collect_order_independent)")
        R = renders[k]
        want = {}
        for p, lst in sets.items():
            want["" if p == 0 else P.pkg_name(p)] = [norm(inst_string(P, R, i)) for i in lst]
            ninst += len(lst)
        got = {}
        ids_ok = True
        dups = []
        for ps in r.get("sets") or []:
            if not ps["insts"]:
                continue          # Pkg() creates an empty set on lookup (instance.go:262-270)
            got[ps["pkg"]] = [norm(s) for s in (ps["insts"] or [])]
            if (ps.get("ids") or []) != list(range(len(ps["insts"] or []))):
                ids_ok = False
            if ps.get("dups"):
                dups.append((ps["pkg"], ps["dups"]))
        got.pop("base", None)
        src = jobs[k]["files"]
        op = json.dumps({"program": "g%d" % k, "mod": jobs[k]["mod"], "model_line": lines[k][:20000], "files": src})
        ops.append(op)
        perr = r["runs"].get("plain", {}).get("err", "")
        impl_ans.append(json.dumps(got, sort_keys=True) + ("" if ids_ok else " ids-not-positions") + (" duplicate-instances(types.Identical):%s" % json.dumps(dups) if dups else "") + (" compile-error:" + perr[:300] if perr and not got else ""))
        model_ans.append(json.dumps(want, sort_keys=True))
    chk.compare("instance-sets", ops, impl_ans, model_ans,
                kind=lambda o, a: "sets:%s" % ("1pkg" if a.count("[") <= 1 else "%dpkgs" % a.count("[")))
    chk.extra["instances_compared"] = ninst

    # ---- (a) program behaviour: GopherJS vs native ----
    for j, r in zip(jobs, res):
        nat = progs.observe_native(r["runs"]["native"])
        if nat[1].startswith("compile-error") or nat[1] == "timeout":
            raise RuntimeError("generated program %s does not build/run natively: %s\n%s" % (j["id"], nat[1], json.dumps(j["files"])[:3000]))
        wclass = None
        if j["id"].startswith("w-"):
            wclass = next(c for (w, c, _) in WITNESSES if "w-" + w == j["id"])
        for v in j["variants"]:
            obs = progs.observe_js(r["runs"][v])
            kindkey = "program:%s:%s" % (v, "witness" if wclass else ("control" if j["id"].startswith("c-") else "generated"))
            chk.add_case("program:" + v, j["id"] + "|" + json.dumps(j["files"], sort_keys=True)[:100000], kindkey=kindkey,
                         sample={"tie": "program:" + v, "op": j["id"], "impl": json.dumps([obs[0][:3], obs[1]])[:300], "spec": json.dumps([nat[0][:3], nat[1]])[:300]}
                         if len(chk.samples) < 6 else None)
            if v == "plain" and not wclass:
                chk.evaluations += max(0, len(nat[0]) - 1)        # every trace line is one observed instance behaviour
            if obs != nat:
                d = first_diff(obs[0], nat[0])
                sig = None
                if wclass == "same-named-local-types-across-packages" and obs[1] == nat[1] == "exit0":
                    sig = "C04 conflation same-named-local-types-as-type-arguments cross-package"
                elif wclass == "identical-type-spelling-dce" and obs[1].startswith("jserror:TypeError: Cannot read properties of undefined"):
                    sig = "C04 jserror identical-type-spelling byte-rune instance-eliminated-by-dce"
                elif wclass and obs[1].startswith("compile-error"):
                    sig = "C04 compile-panic %s %s" % (wclass, msg_class(r["runs"][v].get("err") or obs[1]))
                chk.add_mismatch("program:" + v, json.dumps({"id": j["id"], "mod": j["mod"], "first_diff_line": d, "files": j["files"]}),
                                 impl=json.dumps([obs[0][d:d + 4], obs[1]]), spec=json.dumps([nat[0][d:d + 4], nat[1]]), signature=sig)
            elif wclass:
                chk.notes.append("witness %s no longer fails (finding fixed?)" % j["id"])
    unwrap_structure_tie(chk)
    chk.extra["programs"] = len(jobs)
    chk.extra["generated_programs"] = len(progs_)
    chk.extra["trace_lines_native"] = sum(len(progs.observe_native(r["runs"]["native"])[0]) for r in res)
    return chk.finish()


def replay(path):
    rep = json.load(open(path))
    C.build_gvh("gvh_c04")
    jobs = []
    for m in rep.get("failing_inputs", []):
        try:
            op = json.loads(m["op"])
        except Exception:
            continue
        files = op.get("files")
        if files:
            jobs.append({"id": "r%d" % len(jobs), "mod": op.get("mod") or "gvqreplay%d" % len(jobs), "files": files, "variants": ["plain", "minify"], "native": True, "timeout": 300})
    if not jobs:
        print("no failing input recorded; broken obligations:", rep.get("broken_obligations"))
        return 1
    bad = 0
    for j, r in zip(jobs, run_jobs_retry(jobs, 2)):
        nat = progs.observe_native(r["runs"]["native"])
        for v in j["variants"]:
            obs = progs.observe_js(r["runs"][v])
            print(j["id"], v, "SAME" if obs == nat else "DIFFERENT", obs[1], nat[1])
            bad += obs != nat
    return 1 if bad else 0
