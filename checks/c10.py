"""C10 — packages are linked and initialised in Go order; linknames resolve.

Proof: GV.Props.C10 (ImportDependencies is a topological listing with the runtime closure first and main last; the
$init protocol initialises every package once, after its imports have completed, under every suspension schedule;
zero initialisers first is harmless; file order erases the listing order; go:linkname decision table and split).
Ties: (a) generated multi-package programs (random import DAGs, several files, cross-file / cross-package variable
dependencies, several init functions, blocking initialisers, linkname edges in both directions) under GopherJS+Node vs
the model's predicted trace, the property's allowed set and native Go; (b) the real linkname.ParseGoLinknames on
generated files vs the Lean decision table, build errors through the real compiler; (c) order of `$packages[..] =`
assignments, of the `$init` calls inside every `$init`, self-replacement, blocking checks and the boot tail of the
emitted JavaScript vs the model."""
import itertools
import json
import os
import re
import shutil
import time

from . import common as C
from . import progs

THEOREMS = [
    "deps_topological", "deps_nodup", "deps_mem_iff", "deps_runtime_first", "deps_main_last",
    "machine_eq_direct", "init_once_after_imports", "boot_sync_needs_hsync", "stepA_always",
    "init_complete_before_importer_even_if_suspending", "await_only_if_directly_blocking_counterexample", "init_suspension_invisible", "no_overtaking",
    "var_order", "spec_var_order_respects",
    "file_order", "file_order_any_sort", "sort_perm", "sort_sorted", "sort_input_order_independent", "init_calls_order", "import_order",
    "read_link_iff", "linkname_parse", "splitExt_spec", "linkname_split", "linkname_split_plain", "linkname_dotted_package",
    "ismethod_value", "ismethod_pointer", "ismethod_func",
    "linkname_errors_any_file", "linkname_errors_position_independent", "linkname_errors_overwriting_counterexample",
    "linkname_resolves", "linkset_add_no_conflict", "program_linkset_no_conflict", "linkset_conflict_first_wins",
    "old_scheme_exported_counterexample", "old_scheme_dotted_counterexample",
]
ENV_THEOREMS = ["runtime_closure_nonblocking", "runtime_closure_has_runtime"]

# Both former findings were repaired (fixes/C10-exported-linkname.patch, fixes/C10-linkname-unescape.patch); their witnesses
# stay as regression cases. A re-appearance is a VIOLATION with these signatures (not listed as known).
SIG_EXPORTED = "C10 linkname reference=exported-bodyless-func call=cross-package result=not-a-function"
SIG_DOTTED = "C10 linkname implementation-package=dot-in-last-path-element directive=gc-escaped-%2e result=not-a-function"

# --------------------------------------------------------------------------------------
# (b) directive texts
# --------------------------------------------------------------------------------------

NODE_SRC = {
    "func0": "func %s(x int) int\n",
    "func1": "func %s(x int) int { return x }\n",
    "type": "type %s int\n",
    "value": "var %s int\n",
    "missing": "",
}
NODE_ALT = {   # alternative renderings with the same lookupTopNode result
    "func0": ["func (r recvT) %s(x int) int\n"],
    "func1": ["func (r *recvT) %s(x int) int { return x }\n", "func %s() {}\n"],
    "type": ["type (\n\tfillerA int\n\t%s struct{ a int }\n)\n"],
    "value": ["const %s = 1\n", "var (\n\tfillerB, %s int\n)\n", "var %s = 5\n"],
    "missing": ["func f() { var %s int; _ = %s }\n"],
}

EXTS = ["pkg.name", "a/b.name", "a.b/c.name", "a/b.c.name", "name", "a/b", "pkg.T.m", "pkg.(*T).m", "a/b.(*T).m",
        "github.com/x/y.F", "gopkg.in/yaml.v2.F", "a.b.c", ".x", "x.", "a/.b", "/", ".", "a/b/", "a.b/c", "x/y.z/w.(*T).m",
        "a/b.T.m.n", "runtime.gopark", "math/bits.overflowError", "p%2eq.r", "a/b%2ec.name", "gopkg.in/yaml%2ev2.(*T).m",
        "a%2fb.c", "a/b%2Ec%2e%64.n", "a/b%2.n", "a/b%zz.n", "a%/b.n", "a/b%25c.n", "x%2ey/z.n", "a/b.c%2ed", "%41.%42", "a/b%"]
MITIGATED = [("reflect", "zeroVal", "value"), ("math/bits", "overflowError", "value"), ("math/bits", "divideError", "value"),
             ("runtime", "anything", "func1"), ("internal/fuzz", "stub", "func1"),
             ("internal/bytealg", "runtime_cmpstring", "func1"), ("os", "net_newUnixFile", "func1"),
             ("reflect", "zeroVal", "type"), ("os", "other", "func1"), ("math/bits", "other", "value"),
             ("runtime", "v", "value"), ("reflect", "zeroVal", "func1")]


def gen_directive(rng, local):
    r = rng.random()
    seps = [" ", "  ", "\t", " \t ", " "]
    ext = rng.choice(EXTS) if rng.random() < 0.8 else "".join(rng.choice("ab./T()*%2e4") for _ in range(rng.randrange(1, 9)))
    while re.search(r"%[89a-fA-F][0-9a-fA-F]", ext):      # escapes of bytes >= 0x80 are outside the model (see assumptions)
        ext = "".join(rng.choice("ab./T()*%2e4") for _ in range(rng.randrange(1, 9)))
    if r < 0.60:
        return "//go:linkname " + rng.choice(["", " ", "\t"]) + local + rng.choice(seps) + ext + rng.choice(["", " ", "\t"])
    if r < 0.66:
        return "//go:linkname " + local                                   # one-argument form
    if r < 0.72:
        return "//go:linkname " + local + " " + local                      # self reference
    if r < 0.78:
        return "//go:linkname " + local + " " + ext + " extra" + rng.choice(["", " more"])
    if r < 0.82:
        return "//go:linkname " + rng.choice(["", " ", "  \t"])             # nothing after the prefix
    if r < 0.86:
        return "//go:linkname\t" + local + " " + ext                       # tab instead of blank after the keyword: not a directive
    if r < 0.90:
        return rng.choice(["// go:linkname ", "//go:linknamex ", "//go:Linkname ", "//go:linkname", "// //go:linkname "]) + local + " " + ext
    if r < 0.94:
        return "/*go:linkname " + local + " " + rng.choice(["pkg.name", "a/b.name", "name"]) + "*/"
    return "//go:linkname " + local + " " + ext                         # no-break space is a Fields separator


def gen_linkname_files(rng, n):
    """-> (jobs for gvh_c10 linkname, driver ops, kinds)"""
    jobs, ops, kinds = [], [], []
    for k in range(n):
        uns = rng.random() < 0.8
        pkg = rng.choice(["m/p", "p", "a.b/c", "main", "x/y/z"])
        ndir = rng.choice([1, 1, 1, 2, 3])
        body = []
        parts = []
        mit = rng.random() < 0.15
        for d in range(ndir):
            local = "sym%d" % d
            node = rng.choice(["func0", "func0", "func1", "type", "value", "missing"])
            if mit:
                pkg, local, node = rng.choice(MITIGATED)
                local = local if d == 0 else local + str(d)
            com = gen_directive(rng, local)
            decl = NODE_SRC[node] if rng.random() < 0.6 else rng.choice(NODE_ALT[node])
            decl = decl.replace("%s", local)
            place = rng.random()
            if place < 0.6:
                body.append(com + "\n" + decl)
            elif place < 0.8:
                body.append(decl + "\n" + com + "\n")
            else:
                body.insert(0, com + "\n\n")
                body.append(decl)
                # the comment now precedes every earlier comment: model order must follow source order
                parts.insert(0, (node, com))
                continue
            parts.append((node, com))
        imp = ""
        if uns:
            imp = rng.choice(['import _ "unsafe"\n', 'import "unsafe"\nvar _ unsafe.Pointer\n', 'import (\n\t"unsafe"\n)\nvar _ = unsafe.Sizeof(0)\n'])
        elif rng.random() < 0.3:
            imp = 'import _ "notunsafe"\n'
        src = "package p\n" + imp + "type recvT struct{}\n" + "\n".join(body)
        jobs.append(json.dumps({"pkg": pkg, "src": src}))
        ops.append("ln file %s %d %s" % (C.hexs(pkg.encode()), 1 if uns else 0,
                                         " ".join("%s %s" % (nd, C.hexs(cm.encode("utf-8"))) for nd, cm in parts)))
        kinds.append(parts)
    return jobs, ops, kinds


def ln_kind(op, ans):
    if ans == "-":
        return "ln:skip-only"
    cls = sorted(set(a.split(":")[0] + (":" + a.split(":")[1] if a.startswith("err") else "") for a in ans.split(" ")))
    return "ln:" + "+".join(cls)


# --------------------------------------------------------------------------------------
# (a) generated multi-package programs
# --------------------------------------------------------------------------------------

DIRS = ["pa", "pb", "pc", "x.y/pd", "d/e/pf", "zz/pg", "a.b/c.d/ph", "pi", "aa/pj", "pk.v2", "q.r/pl.v3.x"]


def gc_spelling(path):
    """the import path as the gc toolchain spells it inside a symbol name: dots of the LAST element are written %2e"""
    head, sep, last = path.rpartition("/")
    return head + sep + last.replace(".", "%2e")

FILES = ["a.go", "b.go", "m.go", "z.go", "aa.go", "k_1.go", "a_b.go", "zz.go", "b2.go", "c.go"]

HELPERS = """
func tr(n string, x int) int { println("B", n); println("E", n, x); return x }

func trb(n string, x int) int {
	println("B", n)
	ch := make(chan int)
	go func() { ch <- x }()
	y := <-ch
	println("E", n, y)
	return y
}

func trs(n string, x int) int {
	println("B", n)
	a := make(chan int)
	b := make(chan int)
	go func() { a <- x }()
	go func() { runtime.Gosched(); b <- 1 }()
	y := 0
	for i := 0; i < 2; i++ {
		select {
		case v := <-a:
			y += v
		case v := <-b:
			y += v - 1
		}
	}
	c := make(chan int)
	go func() { y2 := <-c; c <- y2 }()
	c <- y
	y = <-c
	println("E", n, y)
	return y
}

func trg(n string, x int) int {
	println("B", n)
	runtime.Gosched()
	done := make(chan bool)
	go func() { runtime.Gosched(); done <- true }()
	<-done
	println("E", n, x)
	return x
}
"""


class Pkg:
    def __init__(self, idx, path, name):
        self.idx, self.path, self.name = idx, path, name
        self.imports = []          # Pkg objects, in source order (shuffled)
        self.files = []            # [{"name":…, "decls":[…]}]
        self.vars = []             # names with initialiser in hidden dependency order
        self.links = []            # linkname references declared here


def many_file_names(rng, n):
    """n distinct file names whose byte order differs from their creation order: mixed prefixes, upper case, digits and
    underscores (no trailing _GOOS/_GOARCH/_test element), returned in shuffled creation order."""
    shapes = ["f%02d.go", "F%02d.go", "a_%d.go", "Zed%d.go", "x%dy.go", "m%d_k.go", "B_%d_1.go", "q%d.go", "%d.go", "_%d.go"]
    names, seen = [], set()
    while len(names) < n:
        nm = rng.choice(shapes[:-1]) % rng.randrange(0, 60)
        if nm.lower() not in seen:          # the go tool rejects case-insensitive collisions
            seen.add(nm.lower())
            names.append(nm)
    rng.shuffle(names)
    return names


def gen_program(rng, mod, size=None, edges=None, many=None, mainfiles=None, block=None):
    """Draw a term of the model's language (import DAG, files, declarations) and render it to Go source.
    With `edges` (pairs (i, j), i imports j, j < i, index size-1 = main) the import graph is exactly that one.
    `block`: the indices of the packages whose initialisers may SUSPEND (channel handshakes with goroutines they start,
    select, Gosched; each such package has at least one suspending initialiser); every other package initialises without
    any suspension. None = drawn per package.
    With `many` one package gets that many files (each with at least one init function); `mainfiles` fixes the number
    of files of the main package."""
    n = size or rng.choice([2, 3, 3, 4, 5, 6, 7])
    dirs = rng.sample(DIRS, n - 1)
    pkgs = [Pkg(i, mod + "/" + d, d.split("/")[-1].split(".")[0]) for i, d in enumerate(dirs)]
    mainp = Pkg(n - 1, mod, "main")
    pkgs.append(mainp)
    for i, p in enumerate(pkgs):
        cands = pkgs[:i]
        if cands:
            k = rng.choice([0, 1, 1, 2, 3]) if p is not mainp else rng.randrange(1, len(cands) + 1)
            p.imports = rng.sample(cands, min(k, len(cands)))
    if edges is not None:
        for p in pkgs:
            p.imports = [pkgs[j] for (i, j) in edges if i == p.idx]
            rng.shuffle(p.imports)
    else:
        imported = {q.idx for p in pkgs for q in p.imports}
        for p in pkgs[:-1]:
            if p.idx not in imported:
                mainp.imports.append(p)
        rng.shuffle(mainp.imports)
    ident = 0
    many_pkg = rng.choice(pkgs) if many else None
    if block is None:
        block = {p.idx for p in pkgs if rng.random() < 0.6}
    for p in pkgs:
        p.blocking = p.idx in block
        p.nblock = 0

    def tracer_for(p, choices):
        t = rng.choice(choices) if p.blocking else "tr"
        if p.blocking and p.nblock == 0 and t == "tr":
            t = rng.choice(["trb", "trs", "trg"])      # a blocking package does suspend at least once
        if t != "tr":
            p.nblock += 1
        return t
    # variables, functions, init functions
    for p in pkgs:
        nfiles = rng.choice([1, 2, 2, 3, 3])
        if p is mainp and mainfiles:
            nfiles = mainfiles
        names = ["main.go"] + rng.sample(FILES, nfiles - 1) if p is mainp and rng.random() < 0.5 else rng.sample(FILES, nfiles)
        if p is many_pkg:
            names = many_file_names(rng, many)
        p.files = [{"name": f, "decls": [], "src": [], "imports": set()} for f in names]
        nv = rng.randrange(1, 7) if p is not many_pkg else rng.randrange(many // 2, many + 1)
        hidden = ["v%d" % i for i in range(nv)]
        rng.shuffle(hidden)
        p.vars = hidden
        zeros = ["z%d" % i for i in range(rng.choice([0, 1, 2]))]
        p.zeros = zeros
        funcs = []
        vdecls = {}
        for hi, v in enumerate(hidden):
            deps = rng.sample(hidden[:hi], min(len(hidden[:hi]), rng.choice([0, 1, 1, 2])))
            terms = [str(rng.randrange(1, 50))]
            for d in deps:
                if rng.random() < 0.4:
                    fn = "g%s%s" % (v, d)
                    funcs.append("func %s() int { return %s + 1 }\n" % (fn, d))
                    terms.append(fn + "()")
                else:
                    terms.append(d)
            zdeps = []
            for z in zeros:
                if rng.random() < 0.3:
                    terms.append(z)
                    zdeps.append(z)
            ext = []
            for q in p.imports:
                if rng.random() < 0.6 or hi == 0:
                    terms.append(rng.choice(["%s.X", "%s.F()"]) % q.name)
                    ext.append(q)
            tracer = tracer_for(p, ["tr", "tr", "trb", "trg", "trs"])
            vdecls[v] = (deps, zdeps, "var %s = %s(\"V:%s.%s\", %s)\n" % (v, tracer, p.path, v, " + ".join(terms)), ext, tracer)
        decl_order = list(hidden)
        rng.shuffle(decl_order)
        for v in decl_order:
            f = rng.choice(p.files)
            deps, zd, src, ext, tracer = vdecls[v]
            f["decls"].append("v:%s:%s" % (v, "+".join(deps + zd) if deps + zd else "-"))
            f["src"].append(src)
            f["imports"].update(q.idx for q in ext)
        for z in zeros:
            f = rng.choice(p.files)
            f["decls"].append("z:%s" % z)
            f["src"].append("var %s int\n" % z)
        for fs in funcs:
            rng.choice(p.files)["src"].append(fs)
        for f in p.files:
            for k in range(rng.choice([0, 1, 1, 2, 3]) if p is not many_pkg else rng.choice([1, 1, 2])):
                tracer = tracer_for(p, ["tr", "trb", "trg", "trs"] if p is not many_pkg else ["tr", "tr", "tr", "trb"])
                stm = ""
                if zeros and rng.random() < 0.4:
                    stm = "\t%s += %d\n" % (rng.choice(zeros), rng.randrange(1, 9))
                f["decls"].append("i")
                ninit = sum(1 for d in f["decls"] if d == "i") - 1
                f["src"].append("func init() {\n%s\t%s(\"I:%s/%s#%d\", %s)\n}\n" % (
                    stm, tracer, p.path, f["name"], ninit, " + ".join([str(ident)] + hidden[:2])))
                ident += 1
        # exported surface
        f = rng.choice(p.files)
        if p is not mainp:
            f["src"].append("var X = tr(\"V:%s.X\", %s)\n" % (p.path, " + ".join(["1"] + hidden)))   # depends on every variable
            f["decls"].append("v:X:%s" % ("+".join(hidden) if hidden else "-"))
            p.vars = hidden + ["X"]
            rng.choice(p.files)["src"].append("func F() int { return %s }\n" % " + ".join(["2"] + hidden[:3] + zeros))
    # linkname edges: (reference package, implementation package, kind)
    nlinks = rng.choice([0, 1, 2, 3, 4]) if edges is None and len(pkgs) >= 2 else 0
    lid = 0
    for _ in range(nlinks):
        a, b = rng.sample(pkgs, 2)
        if b is mainp:           # gc names the main package's symbols `main.…`, GopherJS by its directory path: not comparable
            a, b = b, a
        kind = rng.choice(["func", "value", "pointer", "nvalue"])
        lid += 1
        ident = 100 + lid
        bf = rng.choice(b.files)
        af = rng.choice(a.files)
        b_imports_a = a in closure(b)
        a_imports_b = b in a.imports
        direction = "forward" if a_imports_b else ("reverse" if b_imports_a else "unrelated")
        if kind == "func":
            bf["src"].append("func impl%d(x int) int { return %d*1000 + x }\n" % (lid, ident))
            af["src"].append("//go:linkname ref%d %s.impl%d\nfunc ref%d(x int) int\n" % (lid, gc_spelling(b.path), lid, lid))
            call = "ref%d(34)" % lid
            sym = "%s.impl%d" % (b.path, lid)
        elif kind == "nvalue":
            bf["src"].append("type N%d int\n\nfunc (n N%d) m%d(x int) int { return %d*1000 + int(n)*10 + x }\n" % (lid, lid, lid, ident))
            af["src"].append("type RN%d int\n\n//go:linkname ref%d %s.N%d.m%d\nfunc ref%d(n RN%d, x int) int\n" % (lid, lid, gc_spelling(b.path), lid, lid, lid, lid))
            call = "ref%d(RN%d(3), 4)" % (lid, lid)
            sym = "%s.N%d.m%d" % (b.path, lid, lid)
        else:
            ptr = kind == "pointer"
            bf["src"].append("type T%d struct{ V int }\n\nfunc (t %sT%d) m%d(x int) int { return %d*1000 + t.V*10 + x }\n" % (
                lid, "*" if ptr else "", lid, lid, ident))
            if a_imports_b and rng.random() < 0.6:
                rt = "%s.T%d" % (b.name, lid)
                af["imports"].add(b.idx)
            else:
                rt = "R%d" % lid
                af["src"].append("type R%d struct{ V int }\n" % lid)
            tname = "(*T%d)" % lid if ptr else "T%d" % lid
            af["src"].append("//go:linkname ref%d %s.%s.m%d\nfunc ref%d(t %s%s, x int) int\n" % (
                lid, gc_spelling(b.path), tname, lid, lid, "*" if ptr else "", rt))
            call = "ref%d(%s%s{V: 3}, 4)" % (lid, "&" if ptr else "", rt)
            sym = "%s.%s.m%d" % (b.path, tname, lid)
        af["linkname"] = True
        # the call happens in an init function of the reference package (so possibly before the implementation's
        # package is initialised: implementations are pure)
        af["decls"].append("i")
        ninit = sum(1 for d in af["decls"] if d == "i") - 1
        af["src"].append("func init() {\n\tprintln(\"B\", \"I:%s/%s#%d\")\n\tprintln(\"L\", \"ref%d@%s\", %s)\n\tprintln(\"E\", \"I:%s/%s#%d\", 0)\n}\n" % (
            a.path, af["name"], ninit, lid, a.name, call, a.path, af["name"], ninit))
        a.links.append({"id": lid, "ref": "%s.ref%d" % (a.path, lid), "comment": "//go:linkname ref%d %s" % (lid, gc_spelling(b.path) + sym[len(b.path):]),
                        "sym": sym, "expect": ident * 1000 + 34, "key": "ref%d@%s" % (lid, a.name), "kind": kind, "dir": direction})
    # main function
    mf = rng.choice(mainp.files)
    mf["decls"].append("m")
    mf["src"].append("func main() {\n\t%s(\"M\", %s)\n}\n" % (rng.choice(["tr", "trb", "trg"]) if mainp.blocking else "tr", " + ".join(
        ["0"] + ["%s.F()" % q.name for q in mainp.imports] + mainp.vars[:2])))
    mf["imports"].update(q.idx for q in mainp.imports)
    # render
    files = {}
    byidx = {p.idx: p for p in pkgs}
    for p in pkgs:
        used = set()
        for f in p.files:
            used.update(i for i in f["imports"] if i != "runtime")
        helper_file = rng.choice(p.files)
        helper_file["imports"].add("runtime")
        helper_file["src"].append(HELPERS)
        first = p.files[0]
        needs_stub = False
        for f in p.files:
            imps = []
            for i in sorted(f["imports"], key=lambda _: rng.random()):
                imps.append('\t"runtime"\n' if i == "runtime" else '\t"%s"\n' % byidx[i].path)
            if f is first:
                for q in p.imports:
                    if q.idx not in used:
                        imps.append('\t_ "%s"\n' % q.path)
                rng.shuffle(imps)
            if f.get("linkname"):
                imps.append('\t_ "unsafe"\n')
                needs_stub = True
            body = list(f["src"])
            src = "package %s\n\n" % p.name
            if imps:
                src += "import (\n" + "".join(imps) + ")\n\n"
            src += "\n".join(body)
            rel = p.path[len(mod):].lstrip("/")
            files[os.path.join(rel, f["name"])] = src
        if needs_stub:
            rel = p.path[len(mod):].lstrip("/")
            files[os.path.join(rel, "stub.s")] = "// allows bodiless go:linkname declarations in the native build\n"
    desc = "|".join("%s;%s;%s" % (p.path, ",".join(q.path for q in p.imports) or "-",
                                  "&".join("%s^%s" % (f["name"], ",".join(f["decls"]) or "-") for f in p.files)) for p in pkgs)
    return {"mod": mod, "pkgs": pkgs, "files": files, "desc": desc}


def closure(p):
    seen, todo = [], list(p.imports)
    while todo:
        q = todo.pop()
        if q not in seen:
            seen.append(q)
            todo += q.imports
    return seen


def tokens(trace):
    """trace lines -> (tokens, values, link results, junk lines)"""
    toks, vals, links, junk = [], {}, {}, []
    for l in trace:
        p = l.split(" ")
        if p[0] == "B" and len(p) == 2:
            toks.append(p[1] + "<")
        elif p[0] == "E" and len(p) == 3:
            toks.append(p[1] + ">")
            vals[p[1]] = p[2]
        elif p[0] == "L" and len(p) == 3:
            links[p[1]] = p[2]
        else:
            junk.append(l)
    return toks, vals, links, junk


def project(toks, path):
    """tokens of the items of one package (exact path match)"""
    out = []
    for t in toks:
        body = t[2:-1]
        if t.startswith("V:%s." % path) and re.fullmatch(r"\w+", body[len(path) + 1:]):
            out.append(t)
        elif t.startswith("I:%s/" % path) and "/" not in body[len(path) + 1:]:
            out.append(t)
    return out


def all_dags(n):
    """every import DAG on n packages numbered in a topological order (edges i -> j with j < i)"""
    pairs = [(i, j) for i in range(n) for j in range(i)]
    for mask in range(1 << len(pairs)):
        yield [pr for b, pr in enumerate(pairs) if mask >> b & 1]


def chain(n):
    return [(i, i - 1) for i in range(1, n)]


# import DAGs of depth 2..4 in which the initialisers of the packages in `block` genuinely SUSPEND and every other package
# (in particular the packages between a suspending one and main) initialises without suspension; index size-1 = main
SUSPEND_SHAPES = [
    {"shape": "chain3-leaf", "size": 3, "edges": chain(3), "block": {0}},
    {"shape": "diamond-a-imports-b-blocking", "size": 3, "edges": [(2, 1), (2, 0), (1, 0)], "block": {0}},
    {"shape": "chain4-leaf", "size": 4, "edges": chain(4), "block": {0}},
    {"shape": "chain4-inner", "size": 4, "edges": chain(4), "block": {1}},
    {"shape": "chain5-leaf+inner", "size": 5, "edges": chain(5), "block": {0, 2}},
    {"shape": "diamond4-bottom", "size": 4, "edges": [(3, 2), (3, 1), (2, 0), (1, 0)], "block": {0}},
    {"shape": "fan5-deep-leaf", "size": 5, "edges": [(4, 3), (4, 1), (3, 2), (2, 0), (1, 0)], "block": {0}},
    {"shape": "chain4-leaf+main", "size": 4, "edges": chain(4), "block": {0, 3}},
]


def program_tie(chk, tier, scratch, nprog, targeted=False, dags=None, special=None):
    """special: list of generator settings {size, many, mainfiles, perms}: `many` = one package with that many files;
    `perms` = the (single-package) program is additionally built from explicit file lists in EVERY permutation
    (`gopherjs build a.go c.go b.go`), each of which must give the trace of the directory build."""
    gopath = os.path.join(scratch, "gopath")
    os.makedirs(gopath, exist_ok=True)
    progsl, jobs = [], []
    count = len(special) if special is not None else (nprog if dags is None else len(dags))
    for k in range(count):
        mod = "gvq%dx%d%s" % (chk.seed, k, "s" if special is not None else ("t" if targeted else ("e" if dags is not None else "")))
        job_extra = {}
        if special is not None:
            sp = special[k]
            g = gen_program(chk.rng, mod, size=sp.get("size"), many=sp.get("many"), mainfiles=sp.get("mainfiles"),
                            edges=sp.get("edges"), block=sp.get("block"))
            g["shape"] = sp.get("shape")
            if sp.get("perms"):
                names = [f["name"] for f in g["pkgs"][-1].files]
                job_extra["file_args"] = [list(x) for x in itertools.permutations(names)]
        else:
            g = gen_program(chk.rng, mod) if dags is None else gen_program(chk.rng, mod, size=dags[k][0], edges=dags[k][1])
        progsl.append(g)
        variants = ["plain"] + (["minify"] if k % 5 == 0 else [])
        job = {"id": "p%d" % k, "mod": mod, "files": g["files"], "variants": variants, "native": True, "timeout": 300}
        job.update(job_extra)
        jobs.append(job)
    res = run_prog_jobs(jobs, gopath)
    ops_model, ops_allowed = [], []
    for g, j, r in zip(progsl, jobs, res):
        mainpath = g["mod"]
        nat_run = r["runs"].get("native", {})
        nat = progs.observe_native(nat_run)
        if nat[1] != "exit0":
            raise RuntimeError("generated program %s does not build/run natively: %s\n%s" % (j["id"], nat[1], json.dumps(g["files"])[:3000]))
        ntoks, nvals, nlinks, njunk = tokens(nat[0])
        if njunk:
            raise RuntimeError("native trace of %s has unexpected lines: %s" % (j["id"], njunk[:3]))
        # model validation against the reference toolchain (never a VIOLATION)
        mv = C.run_driver("C10", ["link allowed go %s %s" % (g["desc"], ",".join(ntoks) or "-"), "link prog go %s" % g["desc"]])
        if mv[0] != "ok":
            raise RuntimeError("MODEL-MISMATCH: native Go trace of %s is outside the model's allowed set (%s)\n%s" % (j["id"], mv[0], g["desc"]))
        gotoks = mv[1].split(",") if mv[1] != "-" else []
        for p in g["pkgs"]:
            if project(gotoks, p.path) != project(ntoks, p.path):
                raise RuntimeError("MODEL-MISMATCH: per-package order of %s in native Go differs from the specification's rule: %s vs %s\n%s" % (
                    p.path, project(ntoks, p.path), project(gotoks, p.path), g["desc"]))
        for l in [l for p in g["pkgs"] for l in p.links]:
            if nlinks.get(l["key"]) != str(l["expect"]):
                raise RuntimeError("native Go disagrees with the generator about linkname %s: %s" % (l, nlinks.get(l["key"])))
        nfiles = sum(len(p.files) for p in g["pkgs"])
        nblock = sum(s.count("trb(\"") + s.count("trg(\"") + s.count("trs(\"") for s in g["files"].values())
        nlinks_total = sum(len(p.links) for p in g["pkgs"])
        maxfiles = max(len(p.files) for p in g["pkgs"])
        for v in j["variants"] + ["args%d" % i for i in range(len(j.get("file_args", [])))]:
            tv = "file-args" if v.startswith("args") else v
            run = r["runs"][v]
            obs = progs.observe_js(run)
            jt, jv, jl, jjunk = tokens(obs[0])
            op = json.dumps({"id": j["id"], "variant": v, "desc": g["desc"], "files": g["files"],
                             "file_args": j["file_args"][int(v[4:])] if v.startswith("args") else None})
            if g.get("shape"):
                chk.count("program:suspend-shape:" + g["shape"])
            if maxfiles >= 13:
                chk.count("program:many-files:%s" % ("13-25" if maxfiles <= 25 else "26-40"))
            chk.add_case("program:" + tv, g["desc"] + v, kindkey="program:%s:pkgs=%d" % ("file-args" if v.startswith("args") else v, len(g["pkgs"])),
                         sample={"tie": "program", "op": g["desc"][:400], "impl": ",".join(jt)[:400]})
            chk.count("program:files", nfiles)
            chk.count("program:blocking-items", nblock)
            chk.count("program:linkname-edges", nlinks_total)
            for p in g["pkgs"]:
                for l in p.links:
                    chk.count("linkname:%s:%s" % (l["kind"], l["dir"]))
            # the model's prediction and the property's allowed set
            ops = ["link prog js %s" % g["desc"], "link allowed js %s %s" % (g["desc"], ",".join(jt) or "-")]
            pred, okay = C.run_driver("C10", ops)
            impl_line = ",".join(jt) or "-"
            if obs[1] != "exit0" or jjunk:
                chk.add_mismatch("program:" + tv, op, impl=json.dumps([obs[1], jjunk[:3], run.get("stderr", "")[:300]]), spec="exit0 with trace lines only",
                                 signature=None, model=pred[:300])
                continue
            if okay != "ok":
                chk.add_mismatch("program:" + tv, op, impl=impl_line, spec="a trace in the allowed set; rule broken: " + okay, signature="C10 order " + okay, model=pred)
            elif impl_line != pred:
                chk.add_tie_break("program-trace:" + tv, op, impl_line, pred)
            # parts fixed by Go: per file init order, values, linkname results
            for p in g["pkgs"]:
                for f in p.files:
                    pre = "I:%s/%s#" % (p.path, f["name"])
                    a = [t for t in jt if t.startswith(pre)]
                    b = [t for t in ntoks if t.startswith(pre)]
                    if a != b:
                        chk.add_mismatch("program:" + tv, op, impl=",".join(a), spec=",".join(b), signature="C10 init order within file")
            if jv != nvals:
                diff = sorted(k for k in set(jv) | set(nvals) if jv.get(k) != nvals.get(k))[:5]
                chk.add_mismatch("program:" + tv, op, impl=json.dumps({k: jv.get(k) for k in diff}), spec=json.dumps({k: nvals.get(k) for k in diff}),
                                 signature="C10 initial values")
            for p in g["pkgs"]:
                for l in p.links:
                    if jl.get(l["key"]) != nlinks.get(l["key"]):
                        chk.add_mismatch("program:" + tv, op, impl="%s -> %s" % (l["comment"], jl.get(l["key"])), spec=str(nlinks.get(l["key"])),
                                         signature="C10 linkname %s %s wrong-implementation" % (l["kind"], l["dir"]))
            if v == "plain":
                structure_tie(chk, g, r, op)
    return len(jobs)


def structure_tie(chk, g, r, op):
    """(c) emitted structure vs the model: package order, init call order, self replacement, blocking checks, boot tail,
    symbol names, resolution of the directives."""
    pk = r.get("pkgs") or []
    graph = ";".join("%s=%s" % (p["path"], ",".join(p["imports"] or [])) for p in pk)
    user = {p.path: p for p in g["pkgs"]}
    ops = ["link deps runtime %s %s" % (g["mod"], graph), "link boot"]
    impl = [",".join(r.get("js_order") or []), ",".join(r.get("tail") or [])]
    for p in pk:
        src_imports = list(p["imports"] or [])
        if p["path"] in user:
            # the generator's (unsorted) import list; runtime is imported when a helper needs it
            gi = [q.path for q in user[p["path"]].imports]
            if "runtime" in src_imports:
                gi.append("runtime")
            if sorted(gi) != sorted(src_imports):
                raise RuntimeError("generator/import mismatch for %s: %s vs %s" % (p["path"], gi, src_imports))
            chk.rng.shuffle(gi)
            src_imports = gi
        ops.append("link imports %s" % (",".join(src_imports) or "-"))
        impl.append(",".join(p["init_calls"] or []))
    model = C.run_driver("C10", ops)
    for o, a, b in zip(ops, impl, model):
        chk.add_case("structure", o, nontrivial=True, kindkey="structure:" + o.split()[1])
        if a != b:
            chk.add_tie_break("emitted-structure", json.dumps({"op": o[:2000], "prog": json.loads(op)["desc"]}), a, b)
    closure = C.run_driver("C10", ["link closure runtime %s" % graph])[0].split(",")
    for p in pk:
        if p["path"] in closure and p.get("blocking_inits", 0) != 0:
            chk.add_tie_break("runtime-closure-nonblocking", p["path"], "%d suspending initialisers" % p["blocking_inits"], "0")
    for p in pk:
        chk.add_case("structure", "reset:" + p["path"] + g["mod"], nontrivial=False, kindkey="structure:self-reset")
        if not p["self_reset"]:
            chk.add_tie_break("emitted-structure", "self replacement of $init in " + p["path"], "absent", "$pkg.$init = function() {}; first")
        if p["blk_checks"] != len(p["init_calls"] or []):
            chk.add_tie_break("emitted-structure", "blocking check after import initialisers in " + p["path"],
                              "%d of %d" % (p["blk_checks"], len(p["init_calls"] or [])), "all")
    # symbol names of the linkname implementations and resolution of every directive
    allsyms = [s for p in pk for s in (p["syms"] or [])]
    sops, simpl = [], []
    for p in g["pkgs"]:
        for l in p.links:
            m = re.match(r"^(.*)\.(\(\*(\w+)\)|(\w+))\.(\w+)$", l["sym"][len(g["mod"]):])
            if l["kind"] == "func":
                pkgpath, nm = l["sym"].rsplit(".", 1)
                sops.append("ln sym %s none - %s" % (C.hexs(pkgpath.encode()), C.hexs(nm.encode())))
            else:
                pkgpath = g["mod"] + m.group(1)
                typ = m.group(3) or m.group(4)
                sops.append("ln sym %s %s %s %s" % (C.hexs(pkgpath.encode()), "pointer" if m.group(3) else "value",
                                                   C.hexs(typ.encode()), C.hexs(m.group(5).encode())))
            simpl.append(C.hexs(l["sym"].encode()) if l["sym"] in allsyms else "missing-in-archive")
            sops.append("ln file %s 1 func0 %s" % (C.hexs(p.path.encode()), C.hexs(l["comment"].encode())))
            real = [x for q in pk for x in (q["links"] or []) if x.startswith(l["ref"] + "|")]
            if real:
                refs, impls = real[0].split("|")
                # canonical accept line from the archive's GoLinknames (strings; the split point is checked through the symbol)
                simpl.append("accept:%s" % C.hexs((refs + "|" + impls).encode()))
            else:
                simpl.append("-")
    if sops:
        smodel = C.run_driver("C10", sops)
        smodel2 = []
        for o, b in zip(sops, smodel):
            if o.startswith("ln file") and b.startswith("accept:"):
                f = b.split(":")[1:]
                dec = [bytes.fromhex(x).decode() if x != "-" else "" for x in f]
                b = "accept:%s" % C.hexs(("%s.%s|%s.%s" % tuple(dec)).encode())
            smodel2.append(b)
        for o, a, b in zip(sops, simpl, smodel2):
            chk.add_case("structure", o, kindkey="structure:" + ("symbol" if " sym " in o else "archive-linkname"))
            if a != b:
                chk.add_tie_break("emitted-structure", o, a, b)


def run_prog_jobs(jobs, gopath, par=8):
    p = C.run_gvh(["prog", "-j", str(par)], [json.dumps(j) for j in jobs], name="gvh_c10", timeout=7200,
                  extra_env={"GOPATH": gopath, "GO111MODULE": "off", "GOFLAGS": ""})
    if p.returncode != 0:
        raise RuntimeError("gvh_c10 prog failed: " + p.stderr[-3000:])
    out = [json.loads(l) for l in p.stdout.split("\n") if l.strip()]
    if len(out) != len(jobs):
        raise RuntimeError("gvh_c10 prog answered %d results for %d jobs" % (len(out), len(jobs)))
    # a timed-out job is re-run alone before it is treated as anything
    for i, (j, r) in enumerate(zip(jobs, out)):
        if any(v.get("class") == "timeout" for v in r["runs"].values()):
            j2 = dict(j)
            j2["timeout"] = 900
            out[i] = run_prog_jobs([j2], gopath, par=1)[0] if j.get("timeout", 0) < 900 else r
    return out


# --------------------------------------------------------------------------------------
# build errors and the recorded finding
# --------------------------------------------------------------------------------------

def invalid_programs(mod):
    """(kind, comment text, node, unsafe, files)"""
    lib = "package lib\n\nfunc Hidden(x int) int { return x + 1 }\n\nfunc hidden(x int) int { return x + 2 }\n\nvar V = 3\n"
    out = []

    def main_src(uns, decl, use="", extra_imp=""):
        return ("package main\n\nimport (\n\t\"%s/lib\"\n%s%s)\n\n%s\nfunc main() { println(lib.Hidden(1)%s) }\n" % (
            mod, '\t_ "unsafe"\n' if uns else "", extra_imp, decl, use))
    out.append(("var", "//go:linkname v %s/lib.V" % mod, "value", True, main_src(True, "//go:linkname v %s/lib.V\nvar v int\n" % mod, ", v")))
    out.append(("no-unsafe", "//go:linkname f %s/lib.hidden" % mod, "func0", False, main_src(False, "//go:linkname f %s/lib.hidden\nfunc f(x int) int\n" % mod, ", f(1)")))
    out.append(("body", "//go:linkname f %s/lib.pushed" % mod, "func1", True, main_src(True, "//go:linkname f %s/lib.pushed\nfunc f(x int) int { return x }\n" % mod, ", f(1)")))
    out.append(("type", "//go:linkname T %s/lib.T" % mod, "type", True, main_src(True, "//go:linkname T %s/lib.T\ntype T int\n" % mod, ", int(T(1))")))
    out.append(("three-args", "//go:linkname f %s/lib.hidden extra" % mod, "func0", True, main_src(True, "//go:linkname f %s/lib.hidden extra\nfunc f(x int) int\n" % mod, ", f(1)")))
    out.append(("not-found", "//go:linkname g %s/lib.hidden" % mod, "missing", True, main_src(True, "//go:linkname g %s/lib.hidden\nfunc f(x int) int { return x }\n" % mod, ", f(1)")))
    out.append(("valid", "//go:linkname f %s/lib.hidden" % mod, "func0", True, main_src(True, "//go:linkname f %s/lib.hidden\nfunc f(x int) int\n" % mod, ", f(1)")))
    return [(k, c, n, u, {"main.go": s, "lib/lib.go": lib, "stub.s": ""}) for k, c, n, u, s in out]


ERR_CLASS = [("usage requires 2 arguments", "err:usage"), ('only allowed in Go files that import "unsafe"', "err:unsafe"),
             ("is not found in the current source file", "err:notfound"), ("only supported for functions", "err:notfunc"),
             ("can not insert local implementation", "err:insert")]


def build_error_tie(chk, scratch):
    gopath = os.path.join(scratch, "gopath")
    cases, jobs = [], []
    for i, proto in enumerate(invalid_programs("MOD")):
        mod = "gvq%dinv%d" % (chk.seed, i)
        k, c, n, u, files = proto
        files = {f: s.replace("MOD", mod) for f, s in files.items()}
        cases.append((k, c.replace("MOD", mod), n, u, mod))
        jobs.append({"id": "inv%d" % i, "mod": mod, "files": files, "variants": ["plain"], "native": False, "timeout": 300})
    res = run_prog_jobs(jobs, gopath, par=4)
    ops, impl = [], []
    for (k, c, n, u, mod), r in zip(cases, res):
        run = r["runs"]["plain"]
        ops.append("ln file %s %d %s %s" % (C.hexs(mod.encode()), 1 if u else 0, n, C.hexs(c.encode())))
        if run.get("class") == "compile-error":
            cls = [cl for pat, cl in ERR_CLASS if pat in run.get("err", "")]
            impl.append(cls[0] if cls else "err:other:" + run.get("err", "")[:200])
        else:
            obs = progs.observe_js(run)
            impl.append("built:" + obs[1])
    model = C.run_driver("C10", ops)
    model = ["built:exit0" if m.startswith("accept:") else m for m in model]
    chk.compare("build-errors", ops, impl, model, kind=lambda o, a: "build:" + a.split(":")[0] + ":" + a.split(":")[1])


UNSUPPORTED = {   # class -> (declaration with directive, node kind for the model, file imports unsafe)
    "var": ("//go:linkname v%(i)d %(m)s/lib.V\nvar v%(i)d int\n", "value", True),
    "no-unsafe": ("//go:linkname f%(i)d %(m)s/lib.hidden\nfunc f%(i)d(x int) int\n", "func0", False),
    "body": ("//go:linkname f%(i)d %(m)s/lib.pushed\nfunc f%(i)d(x int) int { return x }\n", "func1", True),
    "type": ("//go:linkname T%(i)d %(m)s/lib.T\ntype T%(i)d int\n", "type", True),
    "three-args": ("//go:linkname f%(i)d %(m)s/lib.hidden extra\nfunc f%(i)d(x int) int\n", "func0", True),
    "not-found": ("//go:linkname g%(i)d %(m)s/lib.hidden\nfunc f%(i)d(x int) int { return x }\n", "missing", True),
}
VALID_OTHER = ("//go:linkname ok%(i)d %(m)s/lib.hidden\nfunc ok%(i)d(x int) int\n", "func0", True)
POS_FILES = ["a_helper.go", "b.go", "main.go", "zz.go", "k_1.go", "M.go", "lib_use.go"]


def unsupported_package(rng, mod, nfiles, offenders):
    """A main package of `nfiles` files; offenders = {position in ascending name order: class}; the other files are clean
    or carry a valid directive. -> (files, model tokens)"""
    names = sorted(rng.sample(POS_FILES, nfiles))
    mainfile = rng.randrange(nfiles)
    files, toks = {}, []
    for i, name in enumerate(names):
        if i in offenders:
            decl, node, uns = UNSUPPORTED[offenders[i]]
        elif rng.random() < 0.5:
            decl, node, uns = VALID_OTHER
        else:
            decl, node, uns = "func h%(i)d() int { return %(i)d }\n", "none", rng.random() < 0.3
        decl = decl % {"i": i, "m": mod}
        imps = []
        if uns:
            imps.append('\t_ "unsafe"\n')
        body = decl
        if i == mainfile:
            imps.append('\t"%s/lib"\n' % mod)
            body += "\nfunc main() { println(lib.Hidden(1)) }\n"
        files[name] = "package main\n\n" + ("import (\n" + "".join(imps) + ")\n\n" if imps else "") + body
        com = decl.split("\n")[0] if node != "none" else ""
        toks.append("%s|%d|%s|%s" % (name, 1 if uns else 0, node, C.hexs(com.encode()) if com else "-"))
    files["lib/lib.go"] = "package lib\n\nfunc Hidden(x int) int { return x + 1 }\n\nfunc hidden(x int) int { return x + 2 }\n\nvar V = 3\n"
    files["stub.s"] = ""
    return files, toks


def unsupported_position_tie(chk, tier, scratch):
    """Every unsupported use of the directive, in packages of 1..4 files, at EVERY position of the offending file in the file
    order (the other files clean or with a valid directive), plus packages with two offending files: the build must be
    rejected, with the error of the first offending file in processing order, whatever the position."""
    gopath = os.path.join(scratch, "gopath")
    rng = chk.rng
    cases = []
    for cls in UNSUPPORTED:
        for nfiles in (1, 2, 3, 4):
            positions = range(nfiles) if (tier == "thorough" or nfiles <= 3) else [rng.randrange(nfiles)]
            for pos in positions:
                cases.append((nfiles, {pos: cls}))
    classes = list(UNSUPPORTED)
    for _ in range(24 if tier == "thorough" else 6):
        nfiles = rng.choice([2, 3, 4])
        a, b = rng.sample(range(nfiles), 2)
        cases.append((nfiles, {a: rng.choice(classes), b: rng.choice(classes)}))
    for _ in range(6 if tier == "thorough" else 2):       # nothing wrong: must build
        cases.append((rng.choice([2, 3, 4]), {}))
    jobs, ops = [], []
    for k, (nfiles, off) in enumerate(cases):
        mod = "gvq%dpos%d" % (chk.seed, k)
        files, toks = unsupported_package(rng, mod, nfiles, off)
        jobs.append({"id": "pos%d" % k, "mod": mod, "files": files, "variants": ["plain"], "native": False, "timeout": 300})
        ops.append("ln pkg %s %s" % (C.hexs(mod.encode()), " ".join(toks)))
    res = run_prog_jobs(jobs, gopath, par=8)
    impl = []
    for r in res:
        run = r["runs"]["plain"]
        if run.get("class") == "compile-error":
            err = run.get("err", "")
            cls = [cl for pat, cl in ERR_CLASS if pat in err]
            fm = re.search(r"([^/\s:]+\.go):\d+:\d+", err)
            nm = re.search(r"\(and (\d+) more errors\)", err)
            impl.append("%s@%s n=%d" % (cls[0] if cls else "err:other:" + err[:120], fm.group(1) if fm else "?", int(nm.group(1)) + 1 if nm else 1))
        else:
            obs = progs.observe_js(run)
            impl.append("built" if obs[1] == "exit0" else "built:" + obs[1])
    model = C.run_driver("C10", ops)

    def kind(o, a):
        n = len(o.split(" ")) - 3
        return "unsupported-use:files=%d:%s" % (n, "built" if a == "built" else a.split("@")[0])
    chk.compare("build-errors-by-position", ops, impl, model, kind=kind,
                signature=lambda o, a, c: "C10 unsupported linkname use not rejected" if a.startswith("built") else "C10 linkname build error differs")
    chk.extra["unsupported_use_packages"] = len(cases)


def finding_exported(chk, scratch):
    """Regression witness of a repaired defect: an EXPORTED bodyless function declared through go:linkname was never
    assigned to `$pkg`, so a call from another package failed (`pa.Rev is not a function`), whereas Go calls the
    implementation."""
    gopath = os.path.join(scratch, "gopath")
    mod = "gvq%dexp" % chk.seed
    files = {
        "main.go": "package main\n\nimport (\n\t\"%s/pa\"\n\t_ \"%s/pb\"\n)\n\nfunc main() {\n\tprintln(\"L\", \"local\", pa.Local(5))\n\tprintln(\"L\", \"Rev\", pa.Rev(5))\n}\n" % (mod, mod),
        "pa/a.go": "package pa\n\nimport _ \"unsafe\"\n\n//go:linkname Rev %s/pb.revimpl\nfunc Rev(x int) int\n\nfunc Local(x int) int { return Rev(x) }\n" % mod,
        "pa/stub.s": "",
        "pb/b.go": "package pb\n\nfunc revimpl(x int) int { return x + 9000 }\n",
    }
    r = run_prog_jobs([{"id": "exported", "mod": mod, "files": files, "variants": ["plain"], "native": True, "timeout": 300}], gopath, par=1)[0]
    nat = progs.observe_native(r["runs"]["native"])
    js = progs.observe_js(r["runs"]["plain"])
    op = json.dumps({"witness": "exported linkname reference called from another package", "files": files})
    chk.add_case("finding", "exported-linkname", kindkey="finding:exported-linkname")
    # model: both calls resolve (Lean: linkname_resolves)
    model = C.run_driver("C10", ["ln call same", "ln call cross"])
    impl = ["resolved" if "L local 9005" in js[0] else "unresolved", "resolved" if "L Rev 9005" in js[0] else "unresolved"]
    spec = ["resolved" if "L local 9005" in nat[0] else "unresolved", "resolved" if "L Rev 9005" in nat[0] else "unresolved"]
    chk.compare("linkname-call", ["ln call same", "ln call cross"], impl, model, spec=spec,
                signature=lambda o, a, c: SIG_EXPORTED if o == "ln call cross" and a == "unresolved" and "is not a function" in r["runs"]["plain"].get("stderr", "") else None,
                kind=lambda o, a: "linkname-call:" + o.split()[2])


def finding_dotted(chk, scratch):
    """Regression witness of the second repaired defect: the implementation lives in a package whose LAST path element contains a
    dot (`<mod>/pk.v2`). gc requires the escaped spelling `pk%2ev2` in the directive; GopherJS does not unescape it (and
    splits the plain spelling at the wrong dot), so the reference stays undefined and the call fails at run time."""
    gopath = os.path.join(scratch, "gopath")
    mod = "gvq%ddot" % chk.seed
    files = {
        "main.go": "package main\n\nimport (\n\t_ \"%s/pk.v2\"\n\t_ \"unsafe\"\n)\n\n//go:linkname f %s/pk%%2ev2.impl\nfunc f(x int) int\n\nfunc main() { println(\"L\", \"f\", f(5)) }\n" % (mod, mod),
        "stub.s": "",
        "pk.v2/p.go": "package pk\n\nfunc impl(x int) int { return x + 9000 }\n",
    }
    r = run_prog_jobs([{"id": "dotted", "mod": mod, "files": files, "variants": ["plain"], "native": True, "timeout": 300}], gopath, par=1)[0]
    nat = progs.observe_native(r["runs"]["native"])
    js = progs.observe_js(r["runs"]["plain"])
    chk.add_case("finding", "dotted-last-element", kindkey="finding:dotted-last-element")
    ops = ["ln dotted esc"]
    impl = ["resolved" if "L f 9005" in js[0] else "unresolved"]
    spec = ["resolved" if "L f 9005" in nat[0] else "unresolved:" + nat[1][:100]]
    chk.compare("linkname-call", ops, impl, C.run_driver("C10", ops), spec=spec,
                signature=lambda o, a, c: SIG_DOTTED if a == "unresolved" and "is not a function" in r["runs"]["plain"].get("stderr", "") else None,
                kind=lambda o, a: "linkname-call:dotted-package")


def conflict_tie(chk, scratch):
    """`GoLinknameSet.Add` with two directives for one reference (gc rejects the duplicate; here the error is discarded by
    WriteProgramCode): the model says the first directive stays in force and the later directives of the package are not
    recorded. Tie only (model vs code), not a clause of the property."""
    gopath = os.path.join(scratch, "gopath")
    mod = "gvq%dcfl" % chk.seed
    files = {
        "main.go": ("package main\n\nimport (\n\t_ \"%s/lib\"\n\t_ \"unsafe\"\n)\n\n//go:linkname f %s/lib.impl1\n//go:linkname f %s/lib.impl2\nfunc f(x int) int\n\n"
                    "//go:linkname g %s/lib.impl3\nfunc g(x int) int\n\nfunc main() {\n\tprintln(\"L\", \"f\", f(1))\n\tdefer func() {\n\t\tif recover() != nil {\n"
                    "\t\t\tprintln(\"L\", \"g\", 0)\n\t\t}\n\t}()\n\tprintln(\"L\", \"g\", g(1))\n}\n") % (mod, mod, mod, mod),
        "lib/lib.go": "package lib\n\nfunc impl1(x int) int { return 1000 + x }\n\nfunc impl2(x int) int { return 2000 + x }\n\nfunc impl3(x int) int { return 3000 + x }\n",
    }
    r = run_prog_jobs([{"id": "conflict", "mod": mod, "files": files, "variants": ["plain"], "native": False, "timeout": 300}], gopath, par=1)[0]
    js = progs.observe_js(r["runs"]["plain"])
    names = {"1001": "impl1", "2001": "impl2", "3001": "impl3", "0": "unresolved"}
    got = {l.split(" ")[1]: names.get(l.split(" ")[2], l.split(" ")[2]) for l in js[0] if l.startswith("L ")}
    impl = "f=%s g=%s" % (got.get("f", js[1][:80]), got.get("g", js[1][:80]))
    model = C.run_driver("C10", ["ln conflict"])[0]
    chk.add_case("linkset-conflict", "ln conflict", kindkey="linkset:conflict", sample={"tie": "linkset-conflict", "op": "ln conflict", "impl": impl, "model": model})
    if impl != model:
        chk.add_tie_break("linkset-conflict", json.dumps({"op": "ln conflict", "files": files}), impl, model)


def sort_tie(chk, tier):
    """The REAL `sources.Sources.Sort` (one parsed file per name, handed over in the given order) vs the model's `sortFiles`
    (proved: permutation, sorted by name, independent of the input order). Lists of 0..60 distinct names; input orders:
    ascending (a directory listing), descending, single swaps, rotations, random shuffles."""
    rng = chk.rng
    lines = []
    for _ in range(6000 if tier == "thorough" else 700):
        n = rng.choice([0, 1, 2, 3, 3, 4, 5, 8, 12, 13, 14, 20, 33, 60, rng.randrange(0, 61)])
        names = sorted(many_file_names(rng, n)) if n else []
        how = rng.randrange(6)
        if how == 1:
            names.reverse()
        elif how == 2 and n >= 2:
            i, k = rng.sample(range(n), 2)
            names[i], names[k] = names[k], names[i]
        elif how == 3 and n >= 2:
            r = rng.randrange(n)
            names = names[r:] + names[:r]
        elif how >= 4:
            rng.shuffle(names)
        lines.append(",".join(names) or "-")
    for perm in itertools.permutations(["a.go", "b.go", "c.go"]):
        lines.append(",".join(perm))
    for perm in itertools.permutations(["a.go", "B.go", "a_1.go", "z9.go"]):
        lines.append(",".join(perm))
    impl = C.run_gvh_lines(["sort"], lines, name="gvh_c10")
    ops = ["link files " + l for l in lines]
    model = [m or "-" for m in C.run_driver("C10", ops)]

    def kind(o, a):
        n = 0 if o.endswith(" -") else o.count(",") + 1
        return "sort:files=%s" % ("0-2" if n <= 2 else "3-12" if n <= 12 else "13-60")
    chk.compare("Sources.Sort", ops, impl, model, kind=kind, signature=lambda o, a, c: "C10 Sources.Sort order-not-by-name")


def runtime_closure_facts(chk, scratch):
    """Regenerated fact behind the hypothesis `hsync` of init_once_after_imports: compile a program with the real compiler,
    take the import lists of the linked archives, let the MODEL compute the dependency closure of `runtime`, and record for
    each of its packages how many initialisers exist and how many contain a suspension point. Written to
    lean/GV/Generated/RuntimeInit.lean; GV.Props.C10Env proves `all zero` by `decide` on every run."""
    gopath = os.path.join(scratch, "gopath")
    mod = "gvq%dfacts" % chk.seed
    files = {"main.go": "package main\n\nimport \"runtime\"\n\nvar v = f()\n\nfunc f() int { runtime.Gosched(); return 1 }\n\nfunc main() { println(v) }\n"}
    r = run_prog_jobs([{"id": "facts", "mod": mod, "files": files, "variants": ["plain"], "native": False, "timeout": 300}], gopath, par=1)[0]
    pk = r.get("pkgs") or []
    if not pk:
        raise RuntimeError("facts program did not compile: %s" % json.dumps(r["runs"])[:1000])
    graph = ";".join("%s=%s" % (p["path"], ",".join(p["imports"] or [])) for p in pk)
    closure = C.run_driver("C10", ["link closure runtime %s" % graph])[0].split(",")
    by = {p["path"]: p for p in pk}
    facts = [(c, by[c]["init_items"], by[c]["blocking_inits"]) for c in closure if c in by]
    # the probe program's own blocking initialiser must be seen by the extraction (sanity of the criterion)
    if by[mod]["blocking_inits"] < 1:
        raise RuntimeError("extraction does not recognise a blocking initialiser: %s" % by[mod])
    gdir = os.path.join(C.LEAN, "GV", "Generated")
    os.makedirs(gdir, exist_ok=True)
    src = ("/-! GENERATED by checks/c10.py from the archives of a program compiled from the working tree; do not edit. -/\n"
           "namespace GV.Generated.RuntimeInit\n"
           "/-- (package in the dependency closure of `runtime`, number of its initialisers, number of them that contain a suspension point) -/\n"
           "def facts : List (String × Nat × Nat) := [%s]\n"
           "end GV.Generated.RuntimeInit\n") % ", ".join('("%s", %d, %d)' % f for f in facts)
    path = os.path.join(gdir, "RuntimeInit.lean")
    if not os.path.exists(path) or open(path).read() != src:
        with C.Lock("lake"):
            open(path, "w").write(src)
    chk.extra["runtime_closure_facts"] = [{"package": a, "initialisers": b, "suspending": c} for a, b, c in facts]
    return facts


def env_proofs(chk, tier, facts):
    envp = C.check_proofs("C10", ENV_THEOREMS, tier, module="GV.Props.C10Env")
    chk.proof.obligations += envp.obligations
    chk.proof.forbidden += envp.forbidden
    if envp.build_ok and not envp.failed:
        chk.proof.discharged += envp.discharged
        chk.proof.axioms.update(envp.axioms)
    else:
        for t in envp.obligations:
            chk.proof.failed.append((t, "GV.Props.C10Env does not check against the regenerated facts %s: %s" % (
                json.dumps(facts)[:400], [f for f in envp.failed][:2])))
        chk.proof.build_log = envp.build_log
        chk.notes.append("an initialiser in the dependency closure of `runtime` can suspend (or the extraction changed): the synchronous "
                         "`$packages[\"runtime\"].$init()` of the emitted program is no longer justified")


# --------------------------------------------------------------------------------------

def sym_tie(chk, tier):
    """symbol.Name.IsMethod of the real type vs the model"""
    rng = chk.rng
    names = ["f", "T.m", "(*T).m", "(*T)", "(T).m", "().m", "(a).m", "(ab).m", ".m", "T.", "a.b.c", "(*T).m.n", "(.x", "(", ")", "(*).m", "(x", "x)", "(a)b.c"]
    for _ in range(3000 if tier == "thorough" else 400):
        names.append("".join(rng.choice("ab.()*T") for _ in range(rng.randrange(0, 9))))
    lines = ["%s %s" % (C.hexs(b"p/q"), C.hexs(n.encode())) for n in names]
    impl = C.run_gvh_lines(["sym"], lines, name="gvh_c10")
    ops = ["ln ismethod " + l for l in lines]
    chk.compare("symbol-ismethod", ops, impl, C.run_driver("C10", ops), kind=lambda o, a: "ismethod:" + ("none" if a == "none" else "method"))


def graph_selftest(chk, tier):
    """The small-step machine and the direct-style trace agree on random DAGs under suspension schedules (a run-time
    echo of the theorem `machine_eq_direct`, exercised through the compiled driver)."""
    rng = chk.rng
    ops_a, ops_b = [], []
    for _ in range(300 if tier == "thorough" else 60):
        n = rng.randrange(1, 8)
        names = ["runtime"] + ["p" * (i + 1) for i in range(n)]
        g = ["runtime="]
        for i in range(1, len(names)):
            imps = rng.sample(names[:i], rng.randrange(0, i + 1))
            g.append("%s=%s" % (names[i], ",".join(imps)))
        k = rng.randrange(0, 3)
        gs = ";".join(g)
        ops_a.append("link machine runtime %s %s %d" % (names[-1], gs, k))
        ops_b.append("link direct runtime %s %s %d" % (names[-1], gs, k))
    a, b = C.run_driver("C10", ops_a), C.run_driver("C10", ops_b)
    if a != b:
        raise RuntimeError("model self-test failed: machine and direct-style traces differ")
    chk.extra["machine_selftest_graphs"] = len(ops_a)


def run(tier, seed):
    chk = C.Check("C10", tier, seed)
    chk.rule = ("(a) programs: a term of the model's language is drawn (import DAG of 2..7 packages with dotted/nested paths, 1..3 files per "
                "package with names whose ascending and descending orders differ, 1..6 variables per package with a hidden acyclic "
                "dependency order placed randomly across files, dependencies direct or through functions and on imported packages, "
                "variables without initialiser, 0..3 init functions per file, blocking tracers (channel round trip / Gosched), 0..4 "
                "linkname edges func/value method/pointer method/named-int method in forward, reverse and unrelated import direction) and "
                "rendered to Go; GopherJS+Node trace vs the Lean model's predicted trace (tie), vs the Lean allowed-set predicate "
                "(property), vs native Go per file / values / linkname results; a program is non-trivial when its description is "
                "distinct. (b) files with 1..3 generated directive comments x node kinds x unsafe import through the REAL "
                "linkname.ParseGoLinknames vs the Lean decision table; invalid forms through the real compiler. (c) emitted JS "
                "structure vs importDependencies / sortImports / boot sequence.")
    chk.trusted = ["Lean 4.33 kernel", "axioms: propext, Classical.choice, Quot.sound at most (listed per theorem)",
                   "go/types Info.InitOrder (the model uses the Go specification's selection rule; validated against native Go on every program)",
                   "hand-written models GV.Model.Link / GV.Model.Linkname tied to the code by the runs below",
                   "native Go 1.23 as the reference for values, per-file init order and linkname targets"]
    chk.assumptions = ["the hypothesis `hsync` of init_once_after_imports (no initialiser in the dependency closure of `runtime` suspends; the emitted "
                       "program calls runtime.$init() synchronously) is NOT assumed: it is a regenerated fact (GV/Generated/RuntimeInit.lean, from "
                       "the compiled archives: `$blk` in InitCode / Decl.Blocking per initialiser) proved all-zero by GV.Props.C10Env on every run, "
                       "and re-checked on the archives of every generated program",
                       "url.PathUnescape is modelled for escapes of ASCII bytes only (the generator emits no %80..%ff)",
                       "import graphs are acyclic (go/build rejects cycles)",
                       "unicode.IsSpace is modelled on Latin-1 only",
                       "cross-package order is compared with native Go only as the partial order `after imports` (Go >= 1.21 sorts by path)"]
    chk.proof = C.check_proofs("C10", THEOREMS, tier)
    C.log("[C10] proofs checked %.0fs" % (time.time() - chk.t0))
    C.build_gvh("gvh_c10")
    scratch = C.scratch("c10")
    try:
        facts = runtime_closure_facts(chk, scratch)
        env_proofs(chk, tier, facts)
        C.log("[C10] regenerated facts checked %.0fs" % (time.time() - chk.t0))
        # (b) directives
        n = 60000 if tier == "thorough" else 4000
        jobs, ops, _ = gen_linkname_files(chk.rng, n)
        p = C.run_gvh(["linkname"], jobs, name="gvh_c10")
        if p.returncode != 0:
            raise RuntimeError("gvh_c10 linkname failed: " + p.stderr[-2000:])
        impl = p.stdout.split("\n")[:-1]
        if len(impl) != len(ops):
            raise RuntimeError("gvh_c10 linkname answered %d lines for %d files" % (len(impl), len(ops)))
        bad = [(j, a) for j, a in zip(jobs, impl) if a.startswith("parse-error") or a.startswith("panic")]
        if bad:
            raise RuntimeError("generated linkname file does not parse: %s" % (bad[0],))
        chk.compare("ParseGoLinknames", ops, impl, C.run_driver("C10", ops), kind=ln_kind)
        sym_tie(chk, tier)
        sort_tie(chk, tier)
        graph_selftest(chk, tier)
        C.log("[C10] directive ties done %.0fs" % (time.time() - chk.t0))
        build_error_tie(chk, scratch)
        unsupported_position_tie(chk, tier, scratch)
        finding_exported(chk, scratch)
        finding_dotted(chk, scratch)
        conflict_tie(chk, scratch)
        C.log("[C10] build errors / witness done %.0fs" % (time.time() - chk.t0))
        # (a)+(c) programs
        nprog = 60 if tier == "thorough" else 8
        total = program_tie(chk, tier, scratch, nprog)
        # packages with MANY files (sort.Slice leaves insertion sort at 13 elements) and explicit file lists in every permutation
        nmany = 8 if tier == "thorough" else 2
        special = [{"size": chk.rng.choice([1, 2, 3]), "many": chk.rng.choice([13, 14, 15, 17, 20, 26, 33, 40])} for _ in range(nmany)]
        special += [{"size": 1, "mainfiles": 3, "perms": True}]
        # suspension deep in the import DAG with non-suspending packages in between
        special += SUSPEND_SHAPES[:2] + (SUSPEND_SHAPES[2:] * 2 + SUSPEND_SHAPES[:2] if tier == "thorough" else chk.rng.sample(SUSPEND_SHAPES[2:], 2))
        if tier == "thorough":
            special += [{"size": 1, "mainfiles": 3, "perms": True}, {"size": 1, "mainfiles": 4, "perms": True}, {"size": 1, "mainfiles": 4, "perms": True}]
        total += program_tie(chk, tier, scratch, 0, special=special)
        if chk.tie_breaks and not [m for m in chk.mismatches if not chk.known_match(m.get("signature"))]:
            # a tie broke and no failing input is known yet: search harder for an input on which the property itself fails
            total += program_tie(chk, tier, scratch, 16, targeted=True)
            total += program_tie(chk, tier, scratch, 0, special=SUSPEND_SHAPES + [{"size": 2, "many": 14}, {"size": 1, "mainfiles": 3, "perms": True}])
        if tier == "thorough":
            # exhaustive sub-space: every import DAG on up to 4 packages (3 libraries + main)
            dags = [(n, e) for n in (2, 3, 4) for e in all_dags(n)]
            total += program_tie(chk, tier, scratch, 0, dags=dags)
            chk.extra["exhaustive_subspace"] = "all %d import DAGs on 2..4 packages (topologically numbered, main last)" % len(dags)
        chk.extra["programs"] = total
    finally:
        shutil.rmtree(scratch, ignore_errors=True)
    return chk.finish()


def replay(path):
    rep = json.load(open(path))
    print(json.dumps({"failing_inputs": rep.get("failing_inputs", [])[:3], "breaks": rep.get("correspondence_breaks"),
                      "broken": rep.get("broken_obligations")}, indent=1)[:6000])
    fails = rep.get("failing_inputs", [])
    C.build_gvh("gvh_c10")
    scratch = C.scratch("c10r")
    bad = 0
    try:
        for i, m in enumerate(fails[:5]):
            try:
                op = json.loads(m["op"])
            except Exception:
                continue
            if "files" not in op:
                continue
            mod = [k for k in [op.get("desc", "").split("|")[-1].split(";")[0]] if k] or ["gvqreplay%d" % i]
            r = run_prog_jobs([{"id": "r%d" % i, "mod": mod[0], "files": op["files"], "variants": [op.get("variant", "plain")], "native": True,
                                "timeout": 300}], os.path.join(scratch, "gopath"), par=1)[0]
            js = progs.observe_js(r["runs"][op.get("variant", "plain")])
            nat = progs.observe_native(r["runs"]["native"])
            print("replay %d: js=%s\n  native=%s" % (i, js, nat))
            if "desc" in op:
                jt = tokens(js[0])[0]
                ans = C.run_driver("C10", ["link allowed js %s %s" % (op["desc"], ",".join(jt) or "-")])[0]
                print("  allowed:", ans)
                bad += ans != "ok" or js[1] != "exit0"
            else:
                bad += js != nat
    finally:
        shutil.rmtree(scratch, ignore_errors=True)
    return 1 if bad or not fails else 0
