"""Program-level tie: compile generated Go programs with the real GopherJS pipeline (in process,
from /repo's working tree, through harness/bin/gvh prog), run them under Node and natively,
and canonicalise what was observed.

Observation of one run = (trace lines, ending) with ending in
  exit0 | deadlock | panic:<normalised message> | timeout | compile-error:<msg> | jserror:<msg>
Programs must print with println of strings / small ints / bools only (identical rendering in
both toolchains); native println goes to stderr, GopherJS println to stdout.
"""
import json
import re

from . import common as C

_built = False


def ensure_gvh():
    global _built
    if not _built:
        C.build_gvh("gvh")
        _built = True


def run_jobs(jobs, par=12, timeout=3600):
    """jobs: list of dicts {id, files:{name:src}, variants:[...], native:bool, env:[...], tags:[...], timeout, keep_js}.
    Returns list of result dicts {id, runs:{variant: {...}}} in the same order."""
    ensure_gvh()
    if not jobs:
        return []
    p = C.run_gvh(["prog", "-j", str(par)], [json.dumps(j) for j in jobs], timeout=timeout)
    if p.returncode != 0:
        raise RuntimeError("gvh prog failed: " + p.stderr[-3000:])
    out = [json.loads(l) for l in p.stdout.split("\n") if l.strip()]
    if len(out) != len(jobs):
        raise RuntimeError("gvh prog answered %d results for %d jobs" % (len(out), len(jobs)))
    return out


_PANIC_DETAIL = [
    (re.compile(r"index out of range \[.*"), "index out of range"),
    (re.compile(r"slice bounds out of range \[.*"), "slice bounds out of range"),
    (re.compile(r"interface conversion: .*"), "interface conversion"),
    (re.compile(r"makeslice: .*"), "makeslice"),
    (re.compile(r"cannot convert slice with length.*"), "cannot convert slice"),
    (re.compile(r"hash of unhashable type.*"), "unhashable type"),
    (re.compile(r"comparing uncomparable type.*"), "comparing uncomparable type"),
    (re.compile(r"invalid memory address or nil pointer dereference.*"), "nil pointer dereference"),
]


def norm_panic(msg):
    msg = msg.strip()
    msg = re.sub(r" \[recovered\]$", "", msg)
    msg = re.sub(r"^runtime error: ", "runtime error: ", msg)
    for rx, rep in _PANIC_DETAIL:
        msg = rx.sub(rep, msg)
    # Go prints error values as "main.E{...}" / with type info for non-string panics; keep the head only
    return msg[:120]


def observe_js(run):
    if run.get("class") == "compile-error" or (run.get("err") and not run.get("stdout")):
        return ([], "compile-error:" + (run.get("err") or "")[:200])
    if run.get("class") == "timeout":
        return (run.get("stdout", "").split("\n")[:-1], "timeout")
    trace = run.get("stdout", "").split("\n")
    if trace and trace[-1] == "":
        trace.pop()
    se = run.get("stderr", "")
    ex = run.get("exit", 0)
    if ex == 0:
        return (trace, "exit0")
    if ex == 2 and re.search(r"^fatal error: all goroutines are asleep - deadlock!", se, re.M):
        return (trace, "deadlock")
    m = re.search(r"^(?:Uncaught )?(\w*Error): ?(.*)$", se, re.M)
    if m:
        kind, msg = m.group(1), m.group(2)
        if kind == "Error":
            return (trace, "panic:" + norm_panic(msg))
        return (trace, "jserror:%s: %s" % (kind, msg[:160]))
    return (trace, "exit%d:%s" % (ex, se[-160:].replace("\n", " ")))


def observe_native(run):
    if run.get("class") == "compile-error" or run.get("err"):
        return ([], "compile-error:" + (run.get("err") or "")[:300])
    if run.get("class") == "timeout":
        return ([], "timeout")
    se = run.get("stderr", "")
    lines = se.split("\n")
    trace = []
    ending = "exit0" if run.get("exit", 0) == 0 else "exit%d" % run.get("exit")
    for i, l in enumerate(lines):
        if l.startswith("panic: "):
            msg = l[len("panic: "):]
            # chained panics: "panic: a [recovered]\n\tpanic: b" -> last one decides
            j = i + 1
            while j < len(lines) and lines[j].startswith("\tpanic: "):
                msg = lines[j][len("\tpanic: "):]
                j += 1
            # error values print as e.g. main.E{} (types vary) -> Go prints Error() result for error values
            ending = "panic:" + norm_panic(msg)
            break
        if l.startswith("fatal error: all goroutines are asleep - deadlock!"):
            ending = "deadlock"
            break
        if l.startswith("fatal error: "):
            ending = "fatal:" + l[13:100]
            break
        trace.append(l)
    else:
        if trace and trace[-1] == "":
            trace.pop()
    # native stdout (os.Stdout writes) is not used by generated programs
    return (trace, ending)


def same(o1, o2, panic_prefix_only=False):
    t1, e1 = o1
    t2, e2 = o2
    if t1 != t2:
        return False
    if e1 == e2:
        return True
    if panic_prefix_only and e1.startswith("panic:") and e2.startswith("panic:"):
        return True
    return False
