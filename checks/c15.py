"""C15 — maps use Go key equality for every comparable key type.

Proof:  GV.Props.C15 (join/escape injectivity, keyFor a = keyFor b <-> Go == at full strength given the stated
        hypothesis on Number::toString, JS-Map encoding refines the abstract map for every history, range-loop rule).
        The model mirrors the prelude as repaired by fixes/C15-{complex-nan,float-array-nan,iface-type-id}-key.patch.
Tie a:  the REAL keyFor functions of compiler/prelude/types.js under Node (types built with the real prelude
        constructors) vs the Lean transcription (key strings, I-tie) and vs Go == (Lean spec) on generated pairs.
Tie b:  compiled Go programs running generated map histories (incl. range with deletion/insertion) —
        GopherJS under Node vs the Lean model of the emitted operations vs the native Go binary.
"""
import json

from . import common as C
from . import progs

THEOREMS = [
    "esc_single_pass", "join_esc_injective", "decNat_injective", "decInt_injective", "numStr_injective", "toStringOK_halfFs",
    "key_injective", "key_injective_halfFs", "key_injective_former_witnesses",
    "old_complex_nan_collides", "old_float_array_nan_collides", "old_iface_type_string_collides",
    "idKey_injective", "keyFor_state_mono", "state_inv_init",
    "map_refines", "map_refines_from", "map_refines_nil",
    "range_visits_increasing", "range_visits_nodup", "range_skips_deleted", "range_visit_live", "range_spec", "range_readonly",
    "range_forms_same_walk", "range_spec_forms", "range_forms_skip_deleted", "seeded_unbound_counterexample",
    "typComparable_eq_spec", "unhashable_iff_some_field_unhashable", "unhashable_array_iff", "keyFor_ignores_blank_values_only",
    "seeded_comparable_counterexample", "lookup_panics_iff_unhashable", "nil_map_read_misses", "seeded_nil_read_counterexample",
]

INT_KINDS = {
    "int": (-2 ** 31, 2 ** 31 - 1), "int8": (-128, 127), "int16": (-2 ** 15, 2 ** 15 - 1), "int32": (-2 ** 31, 2 ** 31 - 1),
    "uint": (0, 2 ** 32 - 1), "uint8": (0, 255), "uint16": (0, 65535), "uint32": (0, 2 ** 32 - 1), "uintptr": (0, 2 ** 32 - 1),
}
STR_PIECES = [b"", b"$", b"\\", b"\\$", b"$$", b"a", b"$a", b"a$", b"\\\\", b"NaN", b"nil", b"0", b"true", b"$\\", b"b", b"\xff", b"\x00"]
FLT_TOKS = ["fn", "fz+", "fz-", "fi+", "fi-", "fh1", "fh-1", "fh2", "fh3", "fh-3", "fh10", "fh2000001", "fh-16777215"]


# --------------------------------------------------------------------------------------
# types: ('B',) ('I',kind) ('L',) ('U',) ('F',bits) ('C',bits) ('S',) ('P',elem) ('H',elem) ('E',)
#        ('A',n,elem) ('T',[fields]) ('N',tid)
# --------------------------------------------------------------------------------------

class World:
    """registry of dynamic types (tid -> (string, named, underlying type)) and object ids"""

    def __init__(self):
        self.defs = {}
        self.next_obj = 1
        self.pools = {}     # type string -> {"objs":[ids], "nil":id}

    def deftype(self, tid, string, named, under):
        self.defs[tid] = (string, named, under)

    def under(self, t):
        while t[0] == "N":
            t = self.defs[t[1]][2]
        return t

    def tstr(self, t):
        k = t[0]
        if k == "B": return "bool"
        if k == "I": return t[1]
        if k == "L": return "int64"
        if k == "U": return "uint64"
        if k == "F": return "float%d" % t[1]
        if k == "C": return "complex%d" % t[1]
        if k == "S": return "string"
        if k == "P": return "*" + self.tstr(t[1])
        if k == "H": return "chan " + self.tstr(t[1])
        if k == "E": return "interface {}"
        if k == "A": return "[%d]%s" % (t[1], self.tstr(t[2]))
        if k == "T":
            if not t[1]: return "struct {}"
            return "struct { " + "; ".join("F%d %s" % (i, self.tstr(f)) for i, f in enumerate(t[1])) + " }"
        if k == "N": return self.defs[t[1]][0]
        raise ValueError(t)

    def ttok(self, t):
        k = t[0]
        if k in "BLUSE": return k
        if k == "I": return "I:" + t[1]
        if k == "F": return "F%d" % t[1]
        if k == "C": return "C%d" % t[1]
        if k == "P": return "P," + self.ttok(t[1])
        if k == "H": return "H," + self.ttok(t[1])
        if k == "A": return "A%d,%s" % (t[1], self.ttok(t[2]))
        if k == "T": return ",".join(["T%d" % len(t[1])] + [self.ttok(f) for f in t[1]])
        if k == "N": return "N%d" % t[1]
        raise ValueError(t)

    def pool(self, t):
        """object ids usable for pointer / channel type t: one nil object (shared by all channel types: $chanNil) + 3 objects"""
        key = self.tstr(t)
        p = self.pools.get(key)
        if p is None:
            if self.under(t)[0] == "H":
                if "chan-nil" not in self.pools:
                    self.pools["chan-nil"] = self.next_obj
                    self.next_obj += 1
                nil = self.pools["chan-nil"]
            else:
                nil = self.next_obj
                self.next_obj += 1
            p = {"nil": nil, "objs": [self.next_obj, self.next_obj + 1, self.next_obj + 2]}
            self.next_obj += 3
            self.pools[key] = p
        return p


def vtok(v):
    k = v[0]
    if k == "b": return "b1" if v[1] else "b0"
    if k == "i": return "i%d" % v[1]
    if k == "l": return "l%d:%d" % (v[1], v[2])
    if k == "f": return v[1]
    if k == "c": return "c,%s,%s" % (v[1], v[2])
    if k == "s": return "s" + (bytes(v[1]).hex() if v[1] else "-")
    if k == "r": return ("z%d" if v[2] else "r%d") % v[1]
    if k == "n": return "n"
    if k == "e": return "e%d,%s" % (v[1], vtok(v[2]))
    if k == "a": return ",".join(["a%d" % len(v[1])] + [vtok(x) for x in v[1]])
    if k == "t": return ",".join(["t%d" % len(v[1])] + [vtok(x) for x in v[1]])
    raise ValueError(v)


def flt_eq(a, b):
    if a == "fn" or b == "fn": return False
    if a[:2] == "fz" and b[:2] == "fz": return True
    return a == b


def go_eq(w, a, b, relax=None):
    """Go == (my reading of the spec, same as GV.Spec.MapKey.goEq). With relax = a set, inequalities that one of the
    three recorded defects turns into a key collision are tolerated and their class is added to the set."""
    k = a[0]
    if k != b[0]:
        return False
    if k == "f":
        return flt_eq(a[1], b[1])
    if k == "c":
        ok = True
        for x, y in ((a[1], b[1]), (a[2], b[2])):
            if flt_eq(x, y):
                continue
            if relax is not None and x == "fn" and y == "fn":
                relax.add("complex-nan")
                continue
            ok = False
        return ok
    if k == "r": return a[1] == b[1]
    if k == "n": return True
    if k == "e":
        if a[1] != b[1]:
            if relax is not None and w.defs[a[1]][0] == w.defs[b[1]][0]:
                relax.add("iface-typestring")
                return go_eq(w, a[2], b[2], relax)
            return False
        return go_eq(w, a[2], b[2], relax)
    if k == "a":
        if len(a[1]) != len(b[1]): return False
        ok = True
        for x, y in zip(a[1], b[1]):
            if relax is not None and x[0] == "f" and y[0] == "f" and x[1] == "fn" and y[1] == "fn":
                relax.add("floatarray-nan")
                continue
            if not go_eq(w, x, y, relax):
                ok = False
        return ok
    if k == "t":
        if len(a[1]) != len(b[1]): return False
        ok = True
        for x, y in zip(a[1], b[1]):
            if not go_eq(w, x, y, relax):
                ok = False
        return ok
    return a == b


# --------------------------------------------------------------------------------------
# generators
# --------------------------------------------------------------------------------------

def make_world(rng):
    w = World()
    basics = [("B",), ("I", "int"), ("I", "int8"), ("I", "uint8"), ("I", "int32"), ("I", "uint16"), ("L",), ("U",), ("F", 64), ("F", 32),
              ("C", 128), ("S",), ("A", 2, ("S",)), ("T", [("S",), ("S",)]), ("P", ("I", "int")), ("A", 1, ("F", 64)),
              ("T", [("I", "int"), ("S",)]), ("H", ("I", "int"))]
    tid = 1
    for t in basics:
        w.deftype(tid, w.tstr(t), False, t)
        tid += 1
    named = [("main.MyInt", ("I", "int")), ("main.MyStr", ("S",)), ("main.MyF", ("F", 64)), ("main.Pair", ("T", [("S",), ("I", "int")])),
             ("main.Arr", ("A", 2, ("S",))), ("main.My64", ("L",)), ("main.MyC", ("C", 128)), ("main.MyB", ("B",)),
             ("main.MyP", ("P", ("I", "int")))]
    for s, t in named:
        w.deftype(tid, s, True, t)
        tid += 1
    w.clean_tids = list(range(1, tid))
    w.named_tids = w.clean_tids[len(basics):]
    # equally named distinct types (local types of two functions, or package `util` under two import paths)
    w.clash = []
    for s, t in [("main.T", ("I", "int")), ("main.T", ("I", "int")), ("util.K", ("S",)), ("util.K", ("S",)),
                 ("main.L", ("T", [("S",)])), ("main.L", ("T", [("S",)]))]:
        w.deftype(tid, s, True, t)
        w.clash.append(tid)
        tid += 1
    return w


def gen_type(rng, w, depth, feat):
    leafs = [("B",), ("I", rng.choice(list(INT_KINDS))), ("L",), ("U",), ("F", rng.choice([32, 64])), ("C", rng.choice([64, 128])), ("S",), ("S",),
             ("P", ("I", "int")), ("P", ("T", [("S",)])), ("H", ("I", "int")), ("E",), ("N", rng.choice(w.named_tids))]
    if depth <= 0 or rng.random() < 0.25:
        return rng.choice(leafs)
    if rng.random() < 0.5:
        return ("A", rng.choice([0, 1, 2, 2, 3]), gen_type(rng, w, depth - 1, feat))
    return ("T", [gen_type(rng, w, depth - 1, feat) for _ in range(rng.choice([0, 1, 2, 2, 3]))])


def gen_str(rng):
    return b"".join(rng.choice(STR_PIECES) for _ in range(rng.choice([0, 1, 1, 2, 2, 3])))


def gen_flt(rng, allow_nan=True):
    while True:
        t = rng.choice(FLT_TOKS) if rng.random() < 0.8 else "fh%d" % rng.choice([rng.randrange(-50, 50), rng.randrange(-2 ** 24 + 1, 2 ** 24)])
        if t == "fh0":
            continue
        if t == "fn" and not allow_nan:
            continue
        return t


def gen_value(rng, w, t, feat, in_float_array=False, depth=0):
    u = w.under(t)
    k = u[0]
    if k == "B": return ("b", rng.random() < 0.5)
    if k == "I":
        lo, hi = INT_KINDS[u[1]]
        return ("i", rng.choice([lo, hi, 0, 1, 5, rng.randrange(lo, hi + 1), max(lo, -1), min(hi, 36), min(hi, 92)]))
    if k == "L":
        return ("l", rng.choice([0, -1, 1, -2 ** 31, 2 ** 31 - 1, rng.randrange(-2 ** 31, 2 ** 31)]), rng.choice([0, 1, 2 ** 32 - 1, rng.randrange(2 ** 32)]))
    if k == "U":
        return ("l", rng.choice([0, 1, 2 ** 32 - 1, rng.randrange(2 ** 32)]), rng.choice([0, 1, 2 ** 32 - 1, rng.randrange(2 ** 32)]))
    if k == "F":
        return ("f", gen_flt(rng, allow_nan=(not in_float_array) or feat == "floatarray-nan"))
    if k == "C":
        return ("c", gen_flt(rng, feat == "complex-nan"), gen_flt(rng, feat == "complex-nan"))
    if k == "S": return ("s", gen_str(rng))
    if k in "PH":
        p = w.pool(t)
        if rng.random() < 0.25:
            return ("r", p["nil"], True)
        return ("r", rng.choice(p["objs"]), False)
    if k == "E":
        if rng.random() < 0.12 or depth > 3:
            return ("n",)
        tids = list(w.clean_tids)
        if feat == "iface-typestring":
            tids = w.clash + tids[:4]
        tid = rng.choice(tids)
        return ("e", tid, gen_value(rng, w, ("N", tid), feat, depth=depth + 1))
    if k == "A":
        isf = w.under(u[2])[0] == "F"
        return ("a", [gen_value(rng, w, u[2], feat, in_float_array=isf, depth=depth + 1) for _ in range(u[1])])
    if k == "T":
        return ("t", [gen_value(rng, w, f, feat, depth=depth + 1) for f in u[1]])
    raise ValueError(t)


def has_ref(v):
    if v[0] == "r": return True
    if v[0] == "e": return has_ref(v[2])
    if v[0] in "at": return any(has_ref(x) for x in v[1])
    return False


def mutate(rng, w, t, v, feat, in_float_array=False):
    """a value of type t that differs from v in (about) one leaf, preferring near-collisions"""
    u = w.under(t)
    k = u[0]
    if k == "A" and v[1]:
        i = rng.randrange(len(v[1]))
        isf = w.under(u[2])[0] == "F"
        return ("a", [mutate(rng, w, u[2], x, feat, isf) if j == i else x for j, x in enumerate(v[1])])
    if k == "T" and v[1]:
        i = rng.randrange(len(v[1]))
        vs = list(v[1])
        if rng.random() < 0.3 and len(vs) >= 2 and all(w.under(f)[0] == "S" for f in u[1]):
            # move the boundary between two neighbouring string fields
            j = rng.randrange(len(vs) - 1)
            s = bytes(vs[j][1]) + b"$" + bytes(vs[j + 1][1])
            cut = rng.randrange(len(s) + 1)
            vs[j], vs[j + 1] = ("s", s[:cut]), ("s", s[cut:])
            return ("t", vs)
        vs[i] = mutate(rng, w, u[1][i], vs[i], feat)
        return ("t", vs)
    if k == "E" and v[0] == "e":
        r = rng.random()
        if r < 0.4:      # same representation, other dynamic type
            ut = w.under(("N", v[1]))
            cands = [tid for tid in (w.clean_tids + (w.clash if feat == "iface-typestring" else [])) if tid != v[1] and w.under(("N", tid)) == ut]
            if cands and not has_ref(v[2]):      # an object (pointer/channel) has one type only
                return ("e", rng.choice(cands), v[2])
        if r < 0.8:
            return ("e", v[1], mutate(rng, w, ("N", v[1]), v[2], feat))
    if k == "F" and rng.random() < 0.3 and v[1][:2] == "fz":
        return ("f", "fz-" if v[1] == "fz+" else "fz+")
    if k == "S" and rng.random() < 0.6:
        s = bytes(v[1])
        r = rng.random()
        if r < 0.3: return ("s", s + rng.choice([b"$", b"\\", b"a"]))
        if r < 0.6: return ("s", rng.choice([b"$", b"\\", b"\\$"]) + s)
        return ("s", s.replace(b"\\$", b"$") if b"\\$" in s else s.replace(b"$", b"\\$"))
    return gen_value(rng, w, t, feat, in_float_array=in_float_array)


def gen_pair_ops(rng, tier):
    """returns (ops, meta) where meta[i] = (world, v1, v2) for pair ops (None for others)"""
    w = make_world(rng)
    ops, meta = [], []

    def emit(op, m=None):
        ops.append(op)
        meta.append(m)

    emit("mapkey reset")
    for tid, (s, named, under) in sorted(w.defs.items()):
        emit("mapkey deftype %d %s %d %s" % (tid, s.encode().hex(), 1 if named else 0, w.ttok(under)), ("deftype", s))

    def pair(t, a, b):
        emit("mapkey pair %s %s %s" % (w.ttok(t), vtok(a), vtok(b)), ("pair", w, a, b))

    # --- witnesses of the recorded defects (replayed against the real code on every run)
    pair(("C", 128), ("c", "fn", "fh2"), ("c", "fn", "fh2"))
    pair(("C", 64), ("c", "fh2", "fn"), ("c", "fh2", "fn"))
    pair(("A", 1, ("F", 64)), ("a", [("f", "fn")]), ("a", [("f", "fn")]))
    pair(("A", 2, ("F", 32)), ("a", [("f", "fh3"), ("f", "fn")]), ("a", [("f", "fh3"), ("f", "fn")]))
    pair(("E",), ("e", w.clash[0], ("i", 5)), ("e", w.clash[1], ("i", 5)))
    pair(("E",), ("e", w.clash[2], ("s", b"x")), ("e", w.clash[3], ("s", b"x")))
    # --- things that look alike but are different / equal
    t_int = [tid for tid in w.clean_tids if w.under(("N", tid))[0] == "I"]
    for a in t_int:
        for b in t_int:
            pair(("E",), ("e", a, ("i", 5)), ("e", b, ("i", 5)))
    s_tid = [tid for tid in w.clean_tids if w.under(("N", tid)) == ("S",)]
    f_tid = [tid for tid in w.clean_tids if w.under(("N", tid)) == ("F", 64)]
    pair(("E",), ("e", s_tid[0], ("s", b"5")), ("e", t_int[0], ("i", 5)))
    pair(("E",), ("e", f_tid[0], ("f", "fh10")), ("e", t_int[0], ("i", 5)))
    pair(("E",), ("e", s_tid[0], ("s", b"nil")), ("n",))
    pair(("E",), ("n",), ("n",))
    # separators matter: digit strings that shift across a dropped `$`
    tid_of = {w.defs[tid][0]: tid for tid in w.clean_tids}
    pair(("E",), ("e", tid_of["int"], ("i", 85)), ("e", tid_of["int8"], ("i", 5)))
    pair(("E",), ("e", tid_of["int"], ("i", 325)), ("e", tid_of["int32"], ("i", 5)))
    pair(("E",), ("e", tid_of["main.MyInt"], ("i", 5)), ("e", tid_of["main.MyStr"], ("s", b"5")))
    pair(("L",), ("l", 1, 23), ("l", 12, 3))
    pair(("U",), ("l", 1, 23), ("l", 12, 3))
    pair(("L",), ("l", -1, 1), ("l", 0, 11))
    pair(("C", 128), ("c", "fh2", "fh46"), ("c", "fh24", "fh6"))
    pair(("C", 64), ("c", "fh2", "fh46"), ("c", "fh24", "fh6"))
    pair(("A", 2, ("I", "int")), ("a", [("i", 1), ("i", 23)]), ("a", [("i", 12), ("i", 3)]))
    pair(("T", [("I", "int"), ("I", "int")]), ("t", [("i", 1), ("i", 23)]), ("t", [("i", 12), ("i", 3)]))
    pair(("A", 2, ("B",)), ("a", [("b", True), ("b", False)]), ("a", [("b", True), ("b", False)]))
    pair(("T", [("S",), ("I", "int")]), ("t", [("s", b"1"), ("i", 23)]), ("t", [("s", b"1$2"), ("i", 3)]))
    pair(("T", [("F", 64), ("F", 64)]), ("t", [("f", "fn"), ("f", "fh2")]), ("t", [("f", "fn"), ("f", "fh2")]))
    pair(("F", 64), ("f", "fz+"), ("f", "fz-"))
    pair(("F", 64), ("f", "fn"), ("f", "fn"))
    pair(("T", [("F", 64)]), ("t", [("f", "fn")]), ("t", [("f", "fn")]))
    pair(("T", []), ("t", []), ("t", []))
    pair(("A", 0, ("S",)), ("a", []), ("a", []))
    # --- all pairs over a small adversarial string universe, for the composite string key types
    su = [b"", b"$", b"\\", b"\\$", b"$$", b"a", b"$\\", b"\\\\"]
    if tier == "thorough":
        su += [b"a$", b"$a", b"\\a", b"\\$\\"]
    two = [(x, y) for x in su for y in su]
    step = 1 if tier == "thorough" else 3
    sel = two[::step]
    for t, mk in ((("A", 2, ("S",)), lambda x, y: ("a", [("s", x), ("s", y)])),
                  (("T", [("S",), ("S",)]), lambda x, y: ("t", [("s", x), ("s", y)])),
                  (("T", [("S",), ("A", 1, ("S",))]), lambda x, y: ("t", [("s", x), ("a", [("s", y)])]))):
        for (x1, y1) in sel:
            for (x2, y2) in sel:
                pair(t, mk(x1, y1), mk(x2, y2))
    for x in su:
        for y in su:
            pair(("S",), ("s", x), ("s", y))
    # --- random typed pairs, nesting <= 3
    n = 30000 if tier == "thorough" else 3500
    for i in range(n):
        r = rng.random()
        feat = None if r < 0.85 else ("complex-nan" if r < 0.9 else "floatarray-nan" if r < 0.95 else "iface-typestring")
        t = gen_type(rng, w, 3, feat)
        if feat == "complex-nan" and rng.random() < 0.5:
            t = ("T", [("C", 128), t])
        if feat == "floatarray-nan" and rng.random() < 0.5:
            t = ("T", [("A", 2, ("F", 64)), t])
        if feat == "iface-typestring" and rng.random() < 0.7:
            t = ("A", 2, ("E",)) if rng.random() < 0.5 else ("E",)
        a = gen_value(rng, w, t, feat)
        r = rng.random()
        if r < 0.3:
            b = a
        elif r < 0.8:
            b = mutate(rng, w, t, a, feat)
        else:
            b = gen_value(rng, w, t, feat)
        pair(t, a, b)
        if i % 50 == 0:
            emit("mapkey key %s %s" % (w.ttok(t), vtok(a)))
    return ops, meta


# --------------------------------------------------------------------------------------
# tie b: compiled programs
# --------------------------------------------------------------------------------------

GO_HEAD = r'''package main

import "math"

var _ = math.NaN

func itoa(n int) string {
	if n == 0 {
		return "0"
	}
	neg := n < 0
	if neg {
		n = -n
	}
	s := ""
	for n > 0 {
		s = string(rune('0'+n%10)) + s
		n /= 10
	}
	if neg {
		s = "-" + s
	}
	return s
}

func perr(r interface{}) string {
	if e, ok := r.(error); ok {
		msg := e.Error()
		if msg == "assignment to entry in nil map" || msg == "runtime error: assignment to entry in nil map" {
			return "PN"
		}
	}
	return "P?"
}

func clashA(v int) interface{}    { type T int; return T(v) }
func clashB(v int) interface{}    { type T int; return T(v) }
func clashSA(v string) interface{} { type K string; return K(v) }
func clashSB(v string) interface{} { type K string; return K(v) }
'''

GO_CASE = r'''
func case%(n)d() {
	keys := []K%(n)d{%(keys)s}
	var m map[K%(n)d]int
	find := func(k K%(n)d) int {
		for j := range keys {
			if keys[j] == k {
				return j
			}
		}
		return -1
	}
	dig := func() string {
		s := itoa(len(m)) + " "
		look := ""
		for i := range keys {
			v, ok := m[keys[i]]
			if ok {
				look += itoa(i) + "=" + itoa(v) + ";"
			}
		}
		if look == "" {
			look = "-"
		}
		cnt, un, sum, ws := 0, 0, 0, 0
		for k, v := range m {
			cnt++
			j := find(k)
			if j < 0 {
				un++
			}
			sum += v
			ws += (j + 2) * v
		}
		return s + look + " " + itoa(cnt) + " " + itoa(un) + " " + itoa(sum) + " " + itoa(ws)
	}
	set := func(i, v int) (p string) {
		defer func() {
			if r := recover(); r != nil {
				p = perr(r)
			}
		}()
		m[keys[i]] = v
		return "S"
	}
	rng := func(t int, del, ins []int, w int) string {
		n := len(keys)
		was := make([]bool, n)
		rep := make([]int, n)
		for i := range keys {
			_, was[i] = m[keys[i]]
			rep[i] = find(keys[i])
		}
		if m == nil {
			return "R 0 0 0"
		}
		nanInit := 0
		for k := range m {
			if find(k) < 0 {
				nanInit++
			}
		}
		visits := make([]int, n)
		dead := make([]bool, n)
		gone := make([]bool, n)
		nanVisits, viol, step := 0, 0, 0
		for k := range m {
			j := find(k)
			if j < 0 {
				nanVisits++
			} else {
				visits[j]++
				if dead[j] {
					viol++
				}
			}
			if step == t {
				for _, d := range del {
					delete(m, keys[d])
					r := rep[d]
					if r >= 0 {
						gone[r] = true
						if visits[r] == 0 {
							dead[r] = true
						}
					}
				}
				for _, i := range ins {
					m[keys[i]] = w
				}
			}
			step++
		}
		need, once := 0, 0
		for i := 0; i < n; i++ {
			if was[i] && rep[i] == i && !gone[i] {
				need++
				if visits[i] == 1 {
					once++
				}
			}
		}
		for i := 0; i < n; i++ {
			if visits[i] > 1 {
				viol++
			}
		}
		nanIns := 0
		for _, i := range ins {
			if rep[i] < 0 {
				nanIns++
			}
		}
		if nanVisits < nanInit || nanVisits > nanInit+nanIns {
			viol++
		}
		return "R " + itoa(need) + " " + itoa(once) + " " + itoa(viol)
	}
	_, _, _ = set, rng, find
%(rngc)s%(steps)s}
'''


RANGE_FORMS = {
    "kv": ("for k, v := range m", "_, _ = k, v"),
    "k": ("for k := range m", "_ = k"),
    "v": ("for _, v := range m", "_ = v"),
    "bk": ("for _ = range m", ""),
    "bb": ("for _, _ = range m", ""),
    "none": ("for range m", ""),
}

GO_RNGC = r'''
	rngc_%(form)s := func(del, ins []int, w int) string {
		n := len(keys)
		rep := make([]int, n)
		for i := range keys {
			rep[i] = find(keys[i])
		}
		n0 := len(m)
		mark := make([]bool, n)
		nd := 0
		for _, d := range del {
			r := rep[d]
			if r >= 0 && !mark[r] {
				mark[r] = true
				if _, ok := m[keys[r]]; ok {
					nd++
				}
			}
		}
		mark2 := make([]bool, n)
		ni := 0
		for _, i := range ins {
			r := rep[i]
			if r < 0 {
				ni++
			} else if !mark2[r] {
				mark2[r] = true
				if _, ok := m[keys[r]]; !ok {
					ni++
				}
			}
		}
		cnt := 0
		%(header)s {
			%(use)s
			if cnt == 0 {
				for _, d := range del {
					delete(m, keys[d])
				}
				for _, i := range ins {
					m[keys[i]] = w
				}
			}
			cnt++
		}
		lo, hi := 0, 0
		if n0 > 0 {
			rem := n0 - nd
			lo = rem
			if lo < 1 {
				lo = 1
			}
			hi = rem + ni
			if nd >= 1 {
				hi++
			}
		}
		ok := "0"
		if lo <= cnt && cnt <= hi {
			ok = "1"
		}
		ex := "-"
		if lo == hi {
			ex = itoa(cnt)
		}
		return "C " + itoa(lo) + " " + itoa(hi) + " " + ok + " " + ex
	}
'''


class ProgWorld:
    """Go-source side of the types/values of one program"""

    def __init__(self, rng):
        self.rng = rng
        self.decls = []
        self.named = {}      # tid -> go name
        self.w = World()
        self.tid = 1
        self.nobj = 1
        self.objs = {}       # obj id -> go var name

    def define(self, goname, under):
        tid = self.tid
        self.tid += 1
        self.w.deftype(tid, "main." + goname, True, under)
        self.named[tid] = goname
        self.decls.append("type %s %s" % (goname, self.gotype(under)))
        return tid

    def basic_tid(self, t):
        for tid, (s, named, u) in self.w.defs.items():
            if not named and u == t:
                return tid
        tid = self.tid
        self.tid += 1
        self.w.deftype(tid, self.w.tstr(t), False, t)
        return tid

    def gotype(self, t):
        k = t[0]
        if k == "N": return self.named[t[1]]
        if k == "P": return "*" + self.gotype(t[1])
        if k == "H": return "chan " + self.gotype(t[1])
        if k == "E": return "interface{}"
        if k == "A": return "[%d]%s" % (t[1], self.gotype(t[2]))
        if k == "T": return "struct{" + "; ".join("F%d %s" % (i, self.gotype(f)) for i, f in enumerate(t[1])) + "}"
        return self.w.tstr(t)

    def goflt(self, tok, bits):
        e = {"fn": "math.NaN()", "fz+": "0.0", "fz-": "math.Copysign(0, -1)", "fi+": "math.Inf(1)", "fi-": "math.Inf(-1)"}.get(tok)
        if e is None:
            n = int(tok[2:])
            e = "%d.0" % (n // 2) if n % 2 == 0 else "%s.5" % (("-" if n < 0 else "") + str(abs(n) // 2))
        return "float%d(%s)" % (bits, e)

    def goval(self, t, v):
        u = self.w.under(t)
        k = u[0]
        ty = self.gotype(t)
        if k == "B": return "%s(%s)" % (ty, "true" if v[1] else "false")
        if k == "I": return "%s(%d)" % (ty, v[1])
        if k == "L": return "%s(%d)" % (ty, v[1] * 2 ** 32 + v[2])
        if k == "U": return "%s(%d)" % (ty, v[1] * 2 ** 32 + v[2])
        if k == "F": return "%s(%s)" % (ty, self.goflt(v[1], u[1]))
        if k == "C": return "%s(complex(%s, %s))" % (ty, self.goflt(v[1], u[1] // 2), self.goflt(v[2], u[1] // 2))
        if k == "S": return "%s(\"%s\")" % (ty, "".join("\\x%02x" % b for b in v[1]))
        if k in "PH":
            if v[2]:
                return "(%s)(nil)" % ty
            name = self.objs.get(v[1])
            if name is None:
                name = "obj%d" % v[1]
                self.objs[v[1]] = name
                if k == "P":
                    self.decls.append("var %s = new(%s)" % (name, self.gotype(u[1])))
                else:
                    self.decls.append("var %s = make(%s)" % (name, self.gotype(u)))
            return "%s(%s)" % ("(" + ty + ")", name)
        if k == "E":
            if v[0] == "n":
                return "%s(nil)" % ("(" + ty + ")")
            tid = v[1]
            if tid in self.clash:
                fn = self.clash[tid]
                inner = v[2]
                arg = "%d" % inner[1] if inner[0] == "i" else "\"%s\"" % "".join("\\x%02x" % b for b in inner[1])
                return "%s(%s)" % (fn, arg)
            return "interface{}(%s)" % self.goval(("N", tid) if tid in self.named else self.w.defs[tid][2], v[2])
        if k == "A": return "%s{%s}" % (ty, ", ".join(self.goval(u[2], x) for x in v[1]))
        if k == "T": return "%s{%s}" % (ty, ", ".join(self.goval(f, x) for f, x in zip(u[1], v[1])))
        raise ValueError(t)

    clash = {}


KEY_TYPES = [
    ("B",), ("I", "int"), ("I", "int8"), ("I", "uint8"), ("I", "int16"), ("I", "uint16"), ("I", "int32"), ("I", "uint32"), ("I", "uint"),
    ("I", "uintptr"), ("L",), ("U",), ("F", 64), ("F", 32), ("C", 128), ("C", 64), ("S",), ("P", ("I", "int")), ("H", ("I", "int")), ("E",),
    ("A", 2, ("S",)), ("T", [("S",), ("S",)]), ("A", 2, ("I", "int8")), ("T", [("F", 64), ("S",)]), ("A", 2, ("E",)),
    ("T", [("A", 2, ("S",)), ("E",)]), ("A", 2, ("T", [("S",), ("L",)])), ("T", [("P", ("I", "int")), ("B",)]),
    ("A", 2, ("A", 2, ("T", [("S",)]))), ("T", [("T", [("A", 1, ("S",)), ("S",)]), ("S",)]), ("A", 2, ("F", 64)), ("T", []), ("A", 0, ("S",)),
]


def named_pointer_conversion_repaired():
    """Extracted fact: does the tree convert pointers through the identity-preserving `$pointerConversion` helper
    (fixes/C15-named-pointer-conversion.patch)? The program tie mirrors the code that is there; whether the old
    behaviour is acceptable is decided by the known-findings list alone."""
    import os
    try:
        pre = open(os.path.join(C.REPO, "compiler", "prelude", "prelude.js")).read()
        exp = open(os.path.join(C.REPO, "compiler", "expressions.go")).read()
    except OSError:
        return False
    return "var $pointerConversion" in pre and "$pointerConversion(" in exp


def gen_case(rng, pw, n, feat, tier):
    w = pw.w
    # key type
    r = rng.random()
    if feat == "complex-nan":
        t = rng.choice([("C", 128), ("C", 64), ("T", [("C", 128), ("S",)])])
    elif feat == "floatarray-nan":
        t = rng.choice([("A", 1, ("F", 64)), ("A", 2, ("F", 32)), ("T", [("A", 1, ("F", 64)), ("I", "int")])])
    elif feat == "iface-typestring":
        t = rng.choice([("E",), ("A", 2, ("E",))])
    elif r < 0.6:
        t = rng.choice(KEY_TYPES)
    else:
        t = gen_type(rng, w, 3, None)
    named_key = rng.random() < 0.2 and t[0] != "N"
    if named_key:
        if feat is None and t[0] == "P" and w.under(t[1])[0] != "T" and not named_pointer_conversion_repaired():
            # `NK(p)` allocates a new pointer object on every conversion (recorded finding): the model gives every
            # universe slot its own object
            feat = "named-pointer-conversion"
        t = ("N", pw.define("NK%d" % n, t))
    # universe: values plus near-collisions and ==-duplicates
    univ = []
    size = rng.choice([3, 4, 5, 6, 7, 8])
    if feat == "complex-nan":
        univ.append(gen_value(rng, w, t, None) if w.under(t)[0] == "T" else ("c", "fn", "fh2"))
        if w.under(t)[0] == "T":
            univ[0] = ("t", [("c", "fn", "fh2"), univ[0][1][1]])
    if feat == "floatarray-nan":
        ut = w.under(t)
        if ut[0] == "A":
            univ.append(("a", [("f", "fn")] * ut[1]))
        else:
            univ.append(("t", [("a", [("f", "fn")]), ("i", 3)]))
    if feat == "iface-typestring":
        ca, cb = sorted(pw.clash)[:2]
        one = lambda tid: ("e", tid, ("i", 5))
        if w.under(t)[0] == "A":
            univ += [("a", [one(ca), ("n",)]), ("a", [one(cb), ("n",)])]
        else:
            univ += [one(ca), one(cb)]
    while len(univ) < size:
        r = rng.random()
        if univ and r < 0.25:
            univ.append(rng.choice(univ))
        elif univ and r < 0.6:
            univ.append(mutate(rng, w, t, rng.choice(univ), feat))
        else:
            univ.append(gen_value(rng, w, t, feat))
    rng.shuffle(univ)
    cls = []
    for i, v in enumerate(univ):
        c = None
        for j in range(i):
            if go_eq(w, univ[j], v):
                c = cls[j]
                break
        cls.append(i if c is None else c)
    # history
    steps = []
    nsteps = rng.choice([8, 12, 16, 24]) if tier == "quick" else rng.choice([12, 20, 30, 40])
    has_iface = w.under(t)[0] == "E"
    for s in range(nsteps):
        r = rng.random()
        i = rng.randrange(len(univ))
        if s == 0 and r < 0.5:
            steps.append(("set", i, rng.randrange(1, 50)))     # store into the nil map
        elif s <= 1:
            steps.append(("make",) if rng.random() < 0.7 else ("lit", [(rng.randrange(len(univ)), rng.randrange(1, 50)) for _ in range(rng.randrange(0, 6))]))
        elif r < 0.4:
            steps.append(("set", i, rng.randrange(1, 50)))
        elif r < 0.55:
            steps.append(("del", i))
        elif r < 0.65:
            steps.append(("get", i))
        elif r < 0.85:
            classes = sorted(set(cls))
            rng.shuffle(classes)
            first = []
            if rng.random() < 0.6:
                # fill the map first; the keys inserted first are the ones a loop has already visited when it mutates at
                # visit t >= 1, so deleting them shrinks the map below the number of `next()` calls still needed
                idx = list(range(len(univ)))
                rng.shuffle(idx)
                ents = [(j, rng.randrange(1, 50)) for j in idx[:rng.randrange(3, 9)]]
                steps.append(("lit", ents))
                first = [cls[j] for j, _ in ents[:2]]
            cut = rng.randrange(0, len(classes) + 1)
            dcl, icl = set(classes[:cut][:rng.randrange(0, 4)]), set(classes[cut:][:rng.randrange(0, 4)])
            if first and rng.random() < 0.8:
                dcl.add(rng.choice(first))
                icl -= dcl
            dels = [j for j in range(len(univ)) if cls[j] in dcl and rng.random() < 0.8]
            inss = [j for j in range(len(univ)) if cls[j] in icl and rng.random() < 0.8]
            steps.append(("rng", rng.randrange(0, 4), dels, inss, rng.randrange(50, 60)))
        elif r < 0.9 and rng.random() < 0.7:
            # a range of one of the six binding forms whose body, in its first run, deletes entries it has not reached yet
            # (a whole set of keys: no key need be bound) and inserts others; observable = number of runs of the body
            classes = sorted(set(cls))
            rng.shuffle(classes)
            if rng.random() < 0.6:
                idx = list(range(len(univ)))
                rng.shuffle(idx)
                steps.append(("lit", [(j, rng.randrange(1, 50)) for j in idx[:rng.randrange(2, 9)]]))
            if rng.random() < 0.5:
                dcl, icl = set(classes), set()
            else:
                cut = rng.randrange(1, len(classes) + 1)
                dcl, icl = set(classes[:cut]), set(classes[cut:][:rng.randrange(0, 3)])
            dels = [j for j in range(len(univ)) if cls[j] in dcl]
            inss = [j for j in range(len(univ)) if cls[j] in icl and rng.random() < 0.8]
            steps.append(("rngc", rng.choice(sorted(RANGE_FORMS)), dels, inss, rng.randrange(60, 70)))
        elif r < 0.9:
            steps.append(("lit", [(rng.randrange(len(univ)), rng.randrange(1, 50)) for _ in range(rng.randrange(0, 6))]))
        elif r < 0.93:
            steps.append(("nil",))
        elif r < 0.96:
            steps.append(("make",))
        elif has_iface:
            steps.append(("unh",))
        else:
            steps.append(("get", i))
    return {"n": n, "type": t, "univ": univ, "steps": steps, "feat": feat, "cls": cls}


def lst(xs):
    return ",".join(map(str, xs)) if xs else "-"


def case_ops(pw, case):
    """driver lines of one case; one answer line per step"""
    ops = ["gomap begin"]
    for tid, (s, named, under) in sorted(pw.w.defs.items()):
        ops.append("gomap reg %d %s" % (tid, s.encode().hex()))
    for i, v in enumerate(case["univ"]):
        if case["feat"] == "named-pointer-conversion" and v[0] == "r" and not v[2]:
            v = ("r", 100000 + i, False)      # a fresh object per evaluated conversion
        ops.append("gomap key %s" % vtok(v))
    nsetup = len(ops)
    for st in case["steps"]:
        k = st[0]
        if k == "set": ops.append("gomap op set %d %d" % (st[1], st[2]))
        elif k == "del": ops.append("gomap op del %d" % st[1])
        elif k == "get": ops.append("gomap op get %d" % st[1])
        elif k in ("make", "nil", "unh"): ops.append("gomap op " + k)
        elif k == "lit": ops.append("gomap op lit %s" % (",".join("%d=%d" % p for p in st[1]) or "-"))
        elif k == "rng": ops.append("gomap op rng %d %s %s %d" % (st[1], lst(st[2]), lst(st[3]), st[4]))
        elif k == "rngc": ops.append("gomap op rngc %s %s %s %d" % (st[1], lst(st[2]), lst(st[3]), st[4]))
    return ops, nsetup


def case_go(pw, case):
    n = case["n"]
    t = case["type"]
    lines = []
    for si, st in enumerate(case["steps"]):
        k = st[0]
        pre = "\tprintln(\"c%d %d \" + " % (n, si)
        if k == "set": lines.append(pre + "set(%d, %d) + \" \" + dig())" % (st[1], st[2]))
        elif k == "del": lines.append("\tdelete(m, keys[%d])\n" % st[1] + pre + "\"X \" + dig())")
        elif k == "get": lines.append(pre + "\"G\" + itoa(m[keys[%d]]) + \" \" + dig())" % st[1])
        elif k == "make": lines.append("\tm = make(map[K%d]int)\n" % n + pre + "\"M \" + dig())")
        elif k == "nil": lines.append("\tm = nil\n" + pre + "\"N \" + dig())")
        elif k == "lit":
            lines.append("\tm = map[K%d]int{%s}\n" % (n, ", ".join("keys[%d]: %d" % p for p in st[1])) + pre + "\"L \" + dig())")
        elif k == "unh":
            lines.append("\t{\n\t\tu := func() (p string) {\n\t\t\tdefer func() {\n\t\t\t\tif recover() != nil {\n\t\t\t\t\tp = \"U1\"\n\t\t\t\t}\n\t\t\t}()\n"
                         "\t\t\tvar bad interface{} = []int{1}\n\t\t\tm[bad] = 1\n\t\t\treturn \"U0\"\n\t\t}()\n\t" + pre + "u + \" \" + dig())\n\t}")
        elif k == "rngc":
            lines.append(pre + "rngc_%s([]int{%s}, []int{%s}, %d) + \" \" + dig())" % (
                st[1], ", ".join(map(str, st[2])), ", ".join(map(str, st[3])), st[4]))
        elif k == "rng":
            lines.append(pre + "rng(%d, []int{%s}, []int{%s}, %d) + \" \" + dig())" % (
                st[1], ", ".join(map(str, st[2])), ", ".join(map(str, st[3])), st[4]))
    keys = ", ".join(pw.goval(t, v) for v in case["univ"])
    forms = sorted(set(st[1] for st in case["steps"] if st[0] == "rngc"))
    rngc = "".join(GO_RNGC % {"form": f, "header": RANGE_FORMS[f][0], "use": RANGE_FORMS[f][1]} for f in forms)
    body = GO_CASE % {"n": n, "keys": keys, "steps": "\n".join(lines) + "\n", "rngc": rngc}
    return "type K%d = %s\n" % (n, pw.gotype(t)) + body


def gen_program(rng, pid, ncases, tier, feats):
    pw = ProgWorld(rng)
    w = pw.w
    # dynamic types available to interface keys
    basics = [("B",), ("I", "int"), ("I", "int8"), ("I", "int32"), ("L",), ("F", 64), ("S",), ("A", 2, ("S",)), ("T", [("S",), ("S",)]),
              ("P", ("I", "int")), ("C", 128)]
    for t in basics:
        pw.basic_tid(t)
    for i, t in enumerate([("I", "int"), ("S",), ("F", 64), ("T", [("S",), ("I", "int")]), ("A", 2, ("S",)), ("L",)]):
        pw.define("D%d" % i, t)
    w.clean_tids = list(w.defs)
    w.named_tids = [tid for tid in w.defs if w.defs[tid][1]]
    pw.clash = {}
    for fn, s, t in [("clashA", "main.T", ("I", "int")), ("clashB", "main.T", ("I", "int")), ("clashSA", "main.K", ("S",)), ("clashSB", "main.K", ("S",))]:
        tid = pw.tid
        pw.tid += 1
        w.deftype(tid, s, True, t)
        pw.clash[tid] = fn
    w.clash = sorted(pw.clash)
    cases = []
    for n in range(ncases):
        cases.append(gen_case(rng, pw, n, feats[n] if n < len(feats) else None, tier))
    body = "".join(case_go(pw, c) for c in cases)
    src = GO_HEAD + "\n" + "\n".join(pw.decls) + "\n" + body + "\nfunc main() {\n" + "".join("\tcase%d()\n" % c["n"] for c in cases) + "}\n"
    return {"id": pid, "src": src, "cases": cases, "pw": pw}


def split_cases(trace):
    res = {}
    rest = []
    for l in trace:
        p = l.split(" ", 2)
        if len(p) == 3 and p[0].startswith("c") and p[0][1:].isdigit():
            res.setdefault(int(p[0][1:]), []).append(p[2])
        else:
            rest.append(l)
    return res, rest


BLANK_SRC = r"""package main

type K struct {
	_ int
	a int
}

func main() {
	m := map[K]int{}
	m[K{5, 1}] = 1
	m[K{6, 1}] = 2
	println("blank-named", len(m), m[K{7, 1}])
	n := map[struct {
		_ int
		a int
	}]int{}
	n[struct {
		_ int
		a int
	}{5, 1}] = 1
	n[struct {
		_ int
		a int
	}{6, 1}] = 2
	println("blank-anon", len(n))
}
"""


def run_blank_witness(chk):
    """Blank struct fields are not modelled in Lean; the witness of the recorded defect is replayed GopherJS vs native Go."""
    res = progs.run_jobs([{"id": "c15blank", "files": {"main.go": BLANK_SRC}, "variants": ["plain"], "native": True, "timeout": 600}])[0]
    nat = progs.observe_native(res["runs"]["native"])
    js = progs.observe_js(res["runs"]["plain"])
    if nat[1] != "exit0":
        raise RuntimeError("blank-field witness does not run natively: %r" % (nat,))
    chk.add_case("programs", "c15blank", True, "prog-case:blank-witness")
    if js != nat:
        sig = "C15 program blank-field-key gopherjs!=go" if js[1] == "exit0" and js[0][1:] == nat[0][1:] and js[0][:1] == ["blank-named 2 0"] else None
        chk.add_mismatch("programs", "c15blank (struct key with a blank field set by a positional literal)", js[0], nat[0], signature=sig)


NP_SRC = r"""package main

type NP *int
type NP2 *int

func main() {
	p := new(int)
	m := map[NP]int{}
	m[NP(p)] = 1
	m[NP(p)] = 2
	println("np len", len(m), NP(p) == NP(p))
	v, ok := m[NP(p)]
	println("np lookup", v, ok)
	delete(m, NP(p))
	println("np delete", len(m))
	println("np reverse", (*int)(NP(p)) == p, NP2(NP(p)) == NP2(p), NP((*int)(NP(p))) == NP(p))
	var q *int
	println("np nil", NP(q) == nil, NP(q) == NP(q))
	mi := map[interface{}]int{}
	mi[NP(p)] = 1
	mi[NP(p)] = 2
	mi[p] = 3
	mi[NP2(p)] = 4
	println("np iface", len(mi), mi[NP(p)], mi[p], mi[NP2(NP(p))])
	*(NP(p)) = 7
	println("np deref", *p, *(NP2(NP(p))))
}
"""

NP_OLD = ["np len 2 false", "np lookup 0 false", "np delete 2"]      # what the unrepaired compiler prints for the first three lines


def run_named_pointer_witness(chk):
    """Fixed witness of the listed finding C15-prog-named-pointer-conversion, compiled and run in every run: a conversion
    NP(p) to a named pointer type allocates a new pointer object, so converted pointers lose identity as map keys and for ==."""
    res = progs.run_jobs([{"id": "c15np", "files": {"main.go": NP_SRC}, "variants": ["plain", "minify"], "native": True, "timeout": 600}])[0]
    nat = progs.observe_native(res["runs"]["native"])
    if nat[1] != "exit0":
        raise RuntimeError("named-pointer witness does not run natively: %r" % (nat,))
    for variant in ("plain", "minify"):
        js = progs.observe_js(res["runs"][variant])
        chk.add_case("programs", "c15np/" + variant, True, "prog-case:named-pointer-witness")
        if js != nat:
            sig = None
            if js[1] == "exit0" and js[0][:3] == NP_OLD and nat[0][:3] == ["np len 1 true", "np lookup 2 true", "np delete 0"]:
                sig = "C15 program keytype-feature=named-pointer-conversion gopherjs=model!=go"
            d = [i for i in range(max(len(js[0]), len(nat[0]))) if i >= len(js[0]) or i >= len(nat[0]) or js[0][i] != nat[0][i]]
            chk.add_mismatch("programs", "c15np/%s (type NP *int; m[NP(p)] = 1; m[NP(p)] = 2; NP(p) == NP(p))" % variant,
                             [js[0][i] for i in d if i < len(js[0])] + [js[1]], [nat[0][i] for i in d if i < len(nat[0])] + [nat[1]], signature=sig)


SKELETON_SRC = "package main\n\n" + "".join(
    "func f_%s(m map[string]int) int {\n\tn := 0\n\t%s {\n\t\t%s\n\t\tn++\n\t\tdelete(m, \"a\")\n\t\tdelete(m, \"b\")\n\t\tdelete(m, \"c\")\n\t}\n\treturn n\n}\n\n" % (f, h, u)
    for f, (h, u) in sorted(RANGE_FORMS.items())) + (
    "func main() {\n" + "".join("\tprintln(\"%s\", f_%s(map[string]int{\"a\": 1, \"b\": 2, \"c\": 3}))\n" % (f, f) for f in sorted(RANGE_FORMS)) + "}\n")

SKELETON_PARTS = [("_keys", r"_keys\w* = \w+ \? \w+\.keys\(\) : undefined"), ("_size", r"_size\w* = \w+ \? \w+\.size : 0"),
                  ("next", r"_key\w* = _keys\w*\.next\(\)\.value"), ("get", r"_entry\w* = \w+\.get\(_key\w*\)"),
                  ("recheck", r"if \(_entry\w* === undefined\)"), ("bound", r"_i\w* < _size")]


def run_range_skeleton(chk):
    """Structural tie: the loop skeleton emitted for `range <map>` (statements.go:211-236) must contain the key walk, the
    _size snapshot and the `get` re-check for EVERY binding form — that is what GV.Model.GoMap.rangeForm assumes."""
    import re
    res = progs.run_jobs([{"id": "c15skel", "files": {"main.go": SKELETON_SRC}, "variants": ["plain"], "native": True, "keep_js": True,
                           "timeout": 600}])[0]
    js = res["runs"]["plain"].get("js", "")
    nat = progs.observe_native(res["runs"]["native"])
    out = progs.observe_js(res["runs"]["plain"])
    if nat[1] != "exit0" or not js:
        raise RuntimeError("range skeleton program failed: %r %r" % (nat, res["runs"]["plain"].get("err")))
    for f in sorted(RANGE_FORMS):
        m = re.search(r"f_%s = function[^(]*\(m\) \{(.*?)\n\t*\};" % f, js, re.S)
        body = m.group(1) if m else ""
        have = [name for name, rx in SKELETON_PARTS if re.search(rx, body)]
        want = [name for name, _ in SKELETON_PARTS]
        chk.add_case("range-skeleton", "form=" + f, True, "skeleton:" + f)
        if have != want:
            chk.add_tie_break("range-skeleton", "range clause form=%s (%s)" % (f, RANGE_FORMS[f][0]), "parts present: %s" % have, "parts expected: %s" % want)
    chk.extra["range_skeleton_forms"] = sorted(RANGE_FORMS)
    if out != nat:      # every form: exactly one run of the body (it empties the map)
        chk.add_mismatch("programs", "c15skel: " + SKELETON_SRC[:0] + "for <form> range m { n++; delete a, b, c } on {a,b,c}", out[0], nat[0])


def run_programs(chk, tier):
    chk.extra["named_pointer_conversion_repaired"] = named_pointer_conversion_repaired()
    run_blank_witness(chk)
    run_named_pointer_witness(chk)
    run_range_skeleton(chk)
    rng = chk.rng
    nprog = 30 if tier == "thorough" else 8
    ncases = 10 if tier == "thorough" else 7
    progs_ = []
    for p in range(nprog):
        feats = [None] * ncases
        if p == 0:
            feats[:3] = ["complex-nan", "floatarray-nan", "iface-typestring"]      # witnesses, every run
        elif p % 4 == 1:
            feats[rng.randrange(ncases)] = rng.choice(["complex-nan", "floatarray-nan", "iface-typestring"])
        progs_.append(gen_program(rng, "c15p%d" % p, ncases, tier, feats))
    jobs = [{"id": g["id"], "files": {"main.go": g["src"]}, "variants": ["plain", "minify"] if i % 3 == 0 else ["plain"], "native": True,
             "timeout": 300}
            for i, g in enumerate(progs_)]
    results = progs.run_jobs(jobs)
    # a loaded machine can push a run over its time limit: re-run such programs alone before believing a timeout
    for i, res in enumerate(results):
        if any(r.get("class") == "timeout" for r in res["runs"].values()):
            chk.notes.append("program %s timed out; re-run alone" % jobs[i]["id"])
            results[i] = progs.run_jobs([dict(jobs[i], timeout=900)], par=1)[0]
    # model
    all_ops, spans = [], []
    for g in progs_:
        for c in g["cases"]:
            ops, nsetup = case_ops(g["pw"], c)
            spans.append((len(all_ops) + nsetup, len(all_ops) + len(ops)))
            all_ops += ops
    answers = C.run_driver("C15", all_ops)
    bad = [(o, a) for o, a in zip(all_ops, answers) if a.startswith("bad")]
    if bad:
        raise RuntimeError("C15 driver rejected ops: %r" % bad[:3])
    si = 0
    nsteps = 0
    for g, res in zip(progs_, results):
        nat = progs.observe_native(res["runs"]["native"])
        if nat[1] != "exit0":
            raise RuntimeError("generated program %s does not run natively: %s\n%s" % (g["id"], nat[1], res["runs"]["native"].get("stderr", "")[-800:]))
        nat_cases, nat_rest = split_cases(nat[0])
        for variant, run in res["runs"].items():
            if variant == "native":
                continue
            js = progs.observe_js(run)
            js_cases, js_rest = split_cases(js[0])
            si_v = si
            for c in g["cases"]:
                lo, hi = spans[si_v]
                si_v += 1
                model = answers[lo:hi]
                impl = js_cases.get(c["n"], [])
                spec = nat_cases.get(c["n"], [])
                opid = "%s/%s/case%d keytype=%s feat=%s" % (g["id"], variant, c["n"], g["pw"].w.tstr(c["type"]), c["feat"])
                nsteps += len(model)
                kinds = sorted(set(s[0] for s in c["steps"]))
                chk.add_case("programs", opid + json.dumps(c["steps"])[:200], True, "prog-case:%s" % g["pw"].w.under(c["type"])[0],
                             sample={"tie": "programs", "op": opid, "impl": impl[:3], "model": model[:3], "spec": spec[:3]})
                for k in kinds:
                    chk.count("prog-step:" + k)
                for st in c["steps"]:
                    if st[0] == "rngc":
                        chk.count("prog-range-form:" + st[1])
                if model != spec and c["feat"] is None:
                    # the Lean model and native Go disagree on a case without a recorded defect: either a new
                    # defect of the transcribed code (then impl == model != spec is reported below) or a model bug
                    pass
                if impl != spec:
                    first = next((i for i in range(max(len(impl), len(spec))) if i >= len(impl) or i >= len(spec) or impl[i] != spec[i]), 0)
                    sig = None
                    if c["feat"] == "named-pointer-conversion" and impl == model:
                        sig = "C15 program keytype-feature=%s gopherjs=model!=go" % c["feat"]
                    chk.add_mismatch("programs", opid + " step=%d %r" % (first, c["steps"][first] if first < len(c["steps"]) else None),
                                     impl[first:first + 2], spec[first:first + 2], signature=sig, model=model[first:first + 2])
                    chk.extra.setdefault("program_sources", {})[opid] = g["src"] if len(chk.extra.get("program_sources", {})) < 2 else "(omitted)"
                if impl != model:
                    first = next((i for i in range(max(len(impl), len(model))) if i >= len(impl) or i >= len(model) or impl[i] != model[i]), 0)
                    chk.add_tie_break("programs", opid + " step=%d" % first, impl[first:first + 2], model[first:first + 2])
            if js[1] != "exit0" or js_rest:
                chk.add_mismatch("programs", "%s/%s ending" % (g["id"], variant), js[1] + " " + " | ".join(js_rest[:3]), "exit0")
        si += len(g["cases"])
    chk.extra["programs"] = {"programs": len(progs_), "cases": sum(len(g["cases"]) for g in progs_), "steps_compared": nsteps}


# --------------------------------------------------------------------------------------

def pair_signature(meta):
    def sig(op, impl, spec):
        m = meta.get(op)
        if not m:
            return None
        _, w, a, b = m
        relax = set()
        if impl == "1" and spec == "0" and go_eq(w, a, b, relax) and len(relax) == 1:
            # the three classes repaired by fixes/C15-*.patch; no longer listed, so they are violations if they come back
            return "C15 keyFor collide class=%s (repaired defect is back)" % sorted(relax)[0]
        return None
    return sig


def pair_kind(meta):
    def kind(op, ans):
        m = meta.get(op)
        if not m:
            return "other"
        return "pair:%s:%s" % (m[2][0], "eq" if ans == "1" else "ne")
    return kind


def run_pairs(chk, tier):
    ops, meta = gen_pair_ops(chk.rng, tier)
    # pre-pass: the prelude's typ.id of every registered type (the repaired $ifaceKeyFor puts it into the key);
    # the same deftype sequence gives the same ids in the main pass
    defs = [o for o, m in zip(ops, meta) if m and m[0] == "deftype"]
    tids = [o.split()[2] for o in defs]
    pre = C.run_node(["mapkey reset"] + defs + ["mapkey typeid %s" % t for t in tids])
    jsid = dict(zip(tids, pre[1 + len(defs):]))
    if not all(v.isdigit() for v in jsid.values()):
        raise RuntimeError("C15 harness failure: typeid pre-pass answered %r" % (pre[-3:],))
    ops = [o + " " + jsid[o.split()[2]] if (m and m[0] == "deftype") else o for o, m in zip(ops, meta)]
    impl = C.run_node(ops)
    model = C.run_driver("C15", ops)
    bad = [(o, a, b) for o, a, b in zip(ops, impl, model) if a.startswith("runner-error") or a.startswith("bad") or b.startswith("bad")]
    if bad:
        raise RuntimeError("C15 harness failure: %r" % (bad[:3],))
    pops, pimpl, pmodel, pspec, pmeta = [], [], [], [], {}
    for o, m, a, b in zip(ops, meta, impl, model):
        if m and m[0] == "deftype":
            if a != b:
                raise RuntimeError("type string expected %s, prelude says %s (%s)" % (b, a, o))
        elif m and m[0] == "pair":
            ja, jb = a.split(" "), b.split(" ")
            pops.append(o)
            pimpl.append(ja[2])
            pmodel.append(jb[2])
            pspec.append(jb[3])
            pmeta[o] = m
            if ja[:2] != jb[:2]:
                chk.add_tie_break("keyfor-strings", o, " ".join(ja[:2]), " ".join(jb[:2]))
        elif o.startswith("mapkey key"):
            chk.add_case("keyfor-strings", o, True, "key")
            if a != b:
                chk.add_tie_break("keyfor-strings", o, a, b)
    chk.compare("keyfor-pairs", pops, pimpl, pmodel, spec=pspec, signature=pair_signature(pmeta), kind=pair_kind(pmeta))
    chk.extra["pairs"] = len(pops)


def run_enum(chk, tier):
    """Exhaustive search for a collision of the escape/join scheme on the REAL keys: all tuples of 2..4 strings over {$,\\,a}
    (as [n]string / struct / interface-wrapped keys) bucketed by the implementation's key string on the Node side."""
    broken = bool(chk.tie_breaks)
    grid = [(2, 2), (3, 2)]
    if tier == "thorough":
        grid = [(2, 3), (3, 3), (4, 2)]
    elif broken:
        grid += [(3, 3), (4, 2)]   # the model no longer describes the code: search harder
    ops = ["mapkey enum %d %d %s" % (ar, ml, shape) for (ar, ml) in grid for shape in ("arr", "struct", "iface-arr", "iface-struct")]
    impl = C.run_node(ops)
    model = C.run_driver("C15", ops)
    bad = [(o, a, b) for o, a, b in zip(ops, impl, model) if a.startswith("runner-error") or a.startswith("bad") or b.startswith("bad")]
    if bad:
        raise RuntimeError("C15 harness failure: %r" % (bad[:2],))
    chk.compare("keyfor-enum", ops, impl, model, kind=lambda o, a: "enum:" + o.split()[4])
    chk.extra["enum_tuples"] = sum(int(b.split()[1]) for b in model)
    chk.extra["exhaustive_subspace"] = "all tuples of arity/maxlen %s of strings over {$,\\,a} x {array, struct, interface-wrapped}" % (grid,)
    # every reported collision again as an ordinary typed pair (concrete failing input, also seen by the Lean spec)
    pairs = []
    for o, a in zip(ops, impl):
        if a.startswith("collide"):
            for pr in a.split()[2:]:
                v1, v2 = pr.split("|")
                ar = int(v1.split(",")[0][1:])
                t = ("A%d,S" % ar) if v1[0] == "a" else ",".join(["T%d" % ar] + ["S"] * ar)
                pairs.append("mapkey pair %s %s %s" % (t, v1, v2))
    pairs = sorted(set(pairs))[:16]
    if pairs:
        ji = C.run_node(["mapkey reset"] + pairs)[1:]
        jm = C.run_driver("C15", ["mapkey reset"] + pairs)[1:]
        chk.compare("keyfor-pairs-targeted", pairs, [x.split(" ")[2] for x in ji], [x.split(" ")[2] for x in jm],
                    spec=[x.split(" ")[3] for x in jm])


# --------------------------------------------------------------------------------------
# unhashable dynamic key types: grid of types with the unhashable component in a named / blank / embedded field or in an
# array element, nested to depth 3.  Grid type = tuple: ("i",) ("s",) ("e",) ("sl",) ("mp",) ("fn",) ("a", n, t) ("st", [(kind, t)])
# --------------------------------------------------------------------------------------

def grid_tok(t):
    if t[0] == "a":
        return "a%d,%s" % (t[1], grid_tok(t[2]))
    if t[0] == "st":
        return ",".join(["st%d" % len(t[1])] + ["%s,%s" % (k, grid_tok(f)) for k, f in t[1]])
    return t[0]


def grid_comparable(t):
    """Go spec, my reading (same as GV.Spec.GoComparable.comparable)"""
    if t[0] in ("sl", "mp", "fn"):
        return False
    if t[0] == "a":
        return grid_comparable(t[2])
    if t[0] == "st":
        return all(grid_comparable(f) for _, f in t[1])
    return True


def grid_wraps(t):
    I, S = ("i",), ("s",)
    return [("a", 1, t), ("a", 0, t), ("st", [("N", t)]), ("st", [("B", t)]), ("st", [("M", t)]),
            ("st", [("B", t), ("N", I)]), ("st", [("N", S), ("N", t)]), ("st", [("N", I), ("B", t)])]


def grid_levels(rng, tier):
    l0 = [("i",), ("s",), ("sl",), ("mp",), ("fn",)]
    l1 = [w for t in l0 + [("e",)] for w in grid_wraps(t)]
    l2 = [w for t in l1 for w in grid_wraps(t)]
    l3 = [w for t in l2 for w in grid_wraps(t)]
    if tier != "thorough":
        l3 = rng.sample(l3, 600)
    return l0, l1, l2, l3


class GoGrid:
    """Go source for grid types (embedded fields need named types)"""

    def __init__(self):
        self.decls = []

    def gotype(self, t):
        k = t[0]
        if k == "i": return "int"
        if k == "s": return "string"
        if k == "e": return "interface{}"
        if k == "sl": return "[]int"
        if k == "mp": return "map[string]int"
        if k == "fn": return "func()"
        if k == "a": return "[%d]%s" % (t[1], self.gotype(t[2]))
        fs = []
        for i, (kind, f) in enumerate(t[1]):
            ty = self.gotype(f)
            if kind == "B":
                fs.append("_ " + ty)
            elif kind == "M":
                name = "Em%d" % len(self.decls)
                self.decls.append("type %s %s" % (name, ty))
                fs.append(name)
            else:
                fs.append("F%d %s" % (i, ty))
        return "struct{ " + "; ".join(fs) + " }" if fs else "struct{}"


HASH_OPS = ["insert", "lookup", "commaok", "delete", "literal", "rangedel", "emptylookup", "nested-struct", "nested-array",
            "nil-lookup", "nil-commaok", "nil-delete", "empty-commaok", "empty-delete",
            "nil-nested-struct-lookup", "nil-nested-struct-commaok", "nil-nested-struct-delete",
            "nil-nested-array-lookup", "nil-nested-array-delete", "empty-nested-struct-lookup", "empty-nested-array-delete"]

HASH_HEAD = r"""package main

func try(name string, f func()) {
	defer func() {
		r := recover()
		if r == nil {
			println(name, "ok")
			return
		}
		if e, ok := r.(interface{ Error() string }); ok {
			msg := e.Error()
			pre := "runtime error: hash of unhashable type "
			if len(msg) >= len(pre) && msg[:len(pre)] == pre {
				println(name, "panic:unhashable")
				return
			}
			println(name, "panic:other:"+msg)
			return
		}
		println(name, "panic:non-error")
	}()
	f()
}

type sk struct{ k interface{} }

// emitted shape of reads and deletes (structural tie): the key is hashed at the call site
func shapeIndex(m map[interface{}]int, k interface{}) int { return m[k] }
func shapeCommaOk(m map[interface{}]int, k interface{}) bool {
	_, ok := m[k]
	return ok
}
func shapeDelete(m map[interface{}]int, k interface{}) { delete(m, k) }
"""

MAPOP_SHAPES = [("index", r"shapeIndex = function[^{]*\{.*?\$mapIndex\(m, *\$emptyInterface\.keyFor\(k\)\)"),
                ("comma-ok", r"shapeCommaOk = function[^{]*\{.*?\$mapIndex\(m, *\$emptyInterface\.keyFor\(k\)\)"),
                ("delete", r"shapeDelete = function[^{]*\{.*?\$mapDelete\(m, *\$emptyInterface\.keyFor\(k\)\)")]

HASH_CASE = r"""
type H%(n)d = %(ty)s

func h%(n)d() {
	var z H%(n)d
	m := map[interface{}]int{1: 1, "x": 2}
	try("h%(n)d insert", func() { m[z] = 1 })
	try("h%(n)d lookup", func() { _ = m[z] })
	try("h%(n)d commaok", func() { _, ok := m[z]; _ = ok })
	try("h%(n)d delete", func() { delete(m, z) })
	try("h%(n)d literal", func() { _ = map[interface{}]bool{z: true} })
	try("h%(n)d rangedel", func() {
		for range m {
			delete(m, z)
		}
	})
	try("h%(n)d emptylookup", func() { _ = map[interface{}]int{}[z] })
	ms := map[sk]int{}
	try("h%(n)d nested-struct", func() { ms[sk{z}] = 1 })
	ma := map[[1]interface{}]int{}
	try("h%(n)d nested-array", func() { ma[[1]interface{}{z}] = 1 })
	// reads and deletes hash the key BEFORE looking at the map: nil and empty maps panic on unhashable keys too
	var mn map[interface{}]int
	try("h%(n)d nil-lookup", func() { _ = mn[z] })
	try("h%(n)d nil-commaok", func() { _, ok := mn[z]; _ = ok })
	try("h%(n)d nil-delete", func() { delete(mn, z) })
	me := map[interface{}]int{}
	try("h%(n)d empty-commaok", func() { _, ok := me[z]; _ = ok })
	try("h%(n)d empty-delete", func() { delete(me, z) })
	var msn map[sk]int
	try("h%(n)d nil-nested-struct-lookup", func() { _ = msn[sk{z}] })
	try("h%(n)d nil-nested-struct-commaok", func() { _, ok := msn[sk{z}]; _ = ok })
	try("h%(n)d nil-nested-struct-delete", func() { delete(msn, sk{z}) })
	var man map[[1]interface{}]int
	try("h%(n)d nil-nested-array-lookup", func() { _ = man[[1]interface{}{z}] })
	try("h%(n)d nil-nested-array-delete", func() { delete(man, [1]interface{}{z}) })
	try("h%(n)d empty-nested-struct-lookup", func() { _ = map[sk]int{}[sk{z}] })
	try("h%(n)d empty-nested-array-delete", func() { delete(map[[1]interface{}]int{}, [1]interface{}{z}) })
}
"""


def run_hash(chk, tier):
    """(1) the real `typ.comparable` getter and `$ifaceKeyFor` on the whole type grid (prelude runner) vs the Lean model
    (= Go spec, proved); (2) compiled programs: every map operation with such dynamic keys, GopherJS vs model vs native Go."""
    rng = chk.rng
    l0, l1, l2, l3 = grid_levels(rng, tier)
    grid = l0 + l1 + l2 + l3
    ops = ["mapkey hash " + grid_tok(t) for t in grid]
    impl = C.run_node(ops)
    model = C.run_driver("C15", ops)
    bad = [(o, a, b) for o, a, b in zip(ops, impl, model) if a.startswith("runner-error") or a.startswith("bad") or b.startswith("bad") or "err:" in a]
    if bad:
        raise RuntimeError("C15 harness failure (hash grid): %r" % (bad[:2],))
    for t, b in zip(grid, model):
        if (b[0] == "1") != grid_comparable(t):
            raise RuntimeError("C15 model bug: comparable(%s) = %s" % (grid_tok(t), b))

    def kind(o, a):
        tk = o.split()[2]
        return "hash:%s%s%s:%s" % ("blank" if ",B," in "," + tk else "", "+emb" if ",M," in "," + tk else "", "+arr" if tk.startswith("a") or ",a" in tk else "",
                                   "comparable" if a[0] == "1" else "unhashable")
    chk.compare("hash-grid", ops, impl, model, kind=kind)
    chk.extra["hash_grid_types"] = len(grid)
    # programs: unhashable only through a blank field (the interesting class), through embedded / named fields, arrays, plus controls
    def pick(pool, pred, n):
        c = [t for t in pool if pred(t)]
        return rng.sample(c, min(n, len(c)))
    blank_only = lambda t: (not grid_comparable(t)) and ",B," in "," + grid_tok(t) and ",M," not in "," + grid_tok(t)
    sel = []
    nq = 2 if tier != "thorough" else 6
    for pool in (l1, l2, l3):
        sel += pick(pool, blank_only, 3 * nq) + pick(pool, lambda t: not grid_comparable(t) and not blank_only(t), 2 * nq) + pick(pool, grid_comparable, nq)
    sel += [("st", [("B", ("sl",)), ("N", ("i",))]), ("st", [("B", ("a", 0, ("fn",))), ("N", ("i",))]),
            ("st", [("N", ("s",)), ("N", ("st", [("B", ("sl",)), ("N", ("i",))]))]), ("a", 1, ("st", [("B", ("sl",)), ("N", ("i",))])),
            ("st", [("B", ("i",)), ("N", ("i",))]), ("sl",), ("i",)]
    gg = GoGrid()
    body = "".join(HASH_CASE % {"n": n, "ty": gg.gotype(t)} for n, t in enumerate(sel))
    src = HASH_HEAD + "\n".join(gg.decls) + "\n" + body + "\nfunc main() {\n" + "".join("\th%d()\n" % n for n in range(len(sel))) + (
        "\tprintln(\"shape\", shapeIndex(nil, 1), shapeCommaOk(nil, 1))\n\tshapeDelete(nil, 1)\n}\n")
    res = progs.run_jobs([{"id": "c15hash", "files": {"main.go": src}, "variants": ["plain", "minify"], "native": True, "timeout": 900, "keep_js": True}])[0]
    import re
    jsrc = res["runs"]["plain"].get("js", "")
    for name, rx in MAPOP_SHAPES:
        chk.add_case("mapop-shape", name, True, "shape:" + name)
        m = re.search(rx, jsrc, re.S)
        if not m or m.group(0).count("function") > 1:
            near = re.search(r"shape%s = function.{0,300}" % {"index": "Index", "comma-ok": "CommaOk", "delete": "Delete"}[name], jsrc, re.S)
            chk.add_tie_break("mapop-shape", "emitted %s on map[interface{}]int" % name, (near.group(0) if near else "(function not found)")[:300],
                              "$mapIndex/$mapDelete(m, $emptyInterface.keyFor(k)): key hashed at the call site, before the nil test")
    nat = progs.observe_native(res["runs"]["native"])
    if nat[1] != "exit0":
        raise RuntimeError("hash-grid program does not run natively: %s\n%s" % (nat[1], res["runs"]["native"].get("stderr", res["runs"]["native"].get("err", ""))[-1500:]))
    manswers = C.run_driver("C15", ["mapkey hash " + grid_tok(t) for t in sel])
    for variant in ("plain", "minify"):
        js = progs.observe_js(res["runs"][variant])
        for n, (t, ma) in enumerate(zip(sel, manswers)):
            exp = "ok" if ma.split()[1] == "key" else "panic:unhashable"
            model_l = ["h%d %s %s" % (n, op, exp) for op in HASH_OPS]
            impl_l = [l for l in js[0] if l.startswith("h%d " % n)]
            spec_l = [l for l in nat[0] if l.startswith("h%d " % n)]
            opid = "c15hash/%s dynamic key type %s (%s)" % (variant, gg.gotype(t), grid_tok(t))
            chk.add_case("hash-programs", opid, True, "hashprog:" + ("comparable" if exp == "ok" else "unhashable"),
                         sample={"tie": "hash-programs", "op": opid, "impl": impl_l[:2], "model": model_l[:2], "spec": spec_l[:2]})
            if impl_l != spec_l:
                d = [i for i in range(max(len(impl_l), len(spec_l))) if i >= len(impl_l) or i >= len(spec_l) or impl_l[i] != spec_l[i]]
                chk.add_mismatch("hash-programs", opid, [impl_l[i] for i in d[:3] if i < len(impl_l)], [spec_l[i] for i in d[:3] if i < len(spec_l)], model=model_l[:1])
            if impl_l != model_l:
                chk.add_tie_break("hash-programs", opid, impl_l[:3], model_l[:3])
        if js[1] != "exit0":
            chk.add_mismatch("hash-programs", "c15hash/%s ending" % variant, js[1], "exit0")
    chk.extra["hash_program_types"] = len(sel)


def run(tier, seed):
    chk = C.Check("C15", tier, seed)
    chk.rule = ("(a) pairs of typed key values: key types generated from the comparable kinds nested to depth 3 (type objects built with the "
                "real prelude constructors), values incl. adversarial strings over {$,\\,\\$,$$,empty,...}, NaN/+-0/Inf, equal-looking values of "
                "different dynamic types and equally named distinct types; second value = same / one-leaf mutation / fresh; all pairs over a small "
                "string universe for [2]string, struct{string;string}, struct{string;[1]string}; the REAL keyFor under Node decides `same Map entry`, "
                "compared with the Lean transcription (key strings too) and with Go == (Lean spec). (b) compiled programs: per case a key type, a "
                "universe of 3-8 keys with ==-duplicates and near-collisions, a history of store/delete/index/comma-ok/len/literal/make/nil/"
                "range-with-deletion-and-insertion, an order-insensitive digest printed after every step; GopherJS(Node) vs Lean model vs native Go. "
                "A case is non-trivial when its op line is distinct.")
    chk.trusted = ["Lean 4.33 kernel", "axioms: propext, Classical.choice, Quot.sound at most (listed per theorem)",
                   "GV.Model.MapKey / GV.Model.GoMap are hand transcriptions of types.js / numeric.js / statements.go / expressions.go, tied by these runs",
                   "GV.Spec.MapKey.goEq = my reading of the Go spec (validated against native Go by the compiled programs)",
                   "ECMAScript Map semantics (insertion order, live iterator, SameValueZero) as modelled in GV.Model.GoMap.JMap"]
    chk.assumptions = ["Number::toString on finite non-zero doubles is injective, prints no `$` and none of NaN/Infinity/-Infinity/0: explicit hypothesis "
                       "ToStringOK of key_injective / map_refines (proved for the driver's instance halfFs: multiples of 1/2)",
                       "the dynamic type of an interface value is identified by typ.id (unique per $newType call); struct types without blank fields "
                       "(blank-field witness replayed against native Go instead)",
                       "a loop body changes the ranged map only through store/delete (no reassignment is visible to the loop: `_ref` snapshot)",
                       "== on keys inside the generated programs (`$equal`) is correct (C06/C09 territory)"]
    chk.proof = C.check_proofs("C15", THEOREMS, tier)
    run_pairs(chk, tier)
    run_programs(chk, tier)
    run_enum(chk, tier)
    run_hash(chk, tier)
    return chk.finish()


def replay(path):
    rep = json.load(open(path))
    print(json.dumps(rep.get("failing_inputs", [])[:5], indent=1))
    print(json.dumps(rep.get("broken_obligations", [])[:5], indent=1))
    ops = [m["op"] for m in rep.get("failing_inputs", []) if m.get("op", "").startswith("mapkey ")]
    if not ops:
        return 1
    # pair ops need the registry: regenerate the deftype prefix (deterministic)
    import random
    pre, meta = gen_pair_ops(random.Random(0), "quick")
    pre = [o for o, m in zip(pre, meta) if m and m[0] == "deftype"]
    full = ["mapkey reset"] + pre + ops
    impl = C.run_node(full)
    model = C.run_driver("C15", full)
    bad = 0
    for o, a, b in list(zip(full, impl, model))[len(pre) + 1:]:
        print("%s\n  impl : %s\n  model: %s" % (o, a, b))
        bad += a.split(" ")[2:3] != b.split(" ")[3:4]
    return 1 if bad else 0
