"""C07 — arrays and structs are values; pointers, slices and maps alias.
Proof: GV.Props.C07 (slice helpers = Go spec; $clone copies exactly the array/struct spine; ownership invariant and
value semantics of the copy-context language given the translator's clone table).
Ties: (a) the REAL $subslice/$append/$appendSlice/$copySlice/$makeSlice/$sliceToGoArray/$clone under Node vs the Lean
driver (model) vs the Lean spec; (b) generated alias-probe Go programs: GopherJS (plain+minify) vs native Go vs the
model's prediction (Lean driver running the copy-context program / the slice program); (c) clone emission sites of the
compiler sources vs the anchors of `cloneAt`."""
import json
import os
import re

from . import common as C

THEOREMS = ["subslice_spec", "subslice_wf", "copy_spec", "copyArray_memmove", "append_spec", "appendSlice_spec",
            "append_fresh_elems",
            "clone_deep", "copy_in_place", "no_sharing", "value_semantics_partial", "cloneAt_newLocation",
            "value_semantics", "no_sharing_cloneAt", "after_repair_witnesses",
            "ptr_identity", "ptr_eq_iff", "ptr_wf_preserved", "alias_semantics", "inplace_assignment_keeps_pointers",
            "bound_receiver_rule", "arg_passing_copies", "before_repair_growslice", "before_repair_box", "before_repair_range", "before_repair_boundCall",
            "before_repair_ifaceCall"]

SIG_GROW = "C07 append-realloc elem=struct|array element-objects-shared-with-old-array"
SIG_BOX = "C07 box-into-interface array|struct value not-cloned"
SIG_RANGE = "C07 range-over-array-value operand-not-copied"
SIG_BOUND = "C07 method-value invocation value-receiver not-copied-per-call"
SIG_IFACE = "C07 interface-dispatch value-receiver not-copied"


# ------------------------------------------------------------------------------------------
# (a) unit level: slice helpers and $clone
# ------------------------------------------------------------------------------------------

def ilist(xs):
    return ",".join(map(str, xs)) if xs else "-"


def gen_slice_ops(tier, rng):
    """returns list of (op, specop or None)"""
    ops = []
    opt = lambda v: "_" if v is None else str(v)
    # subslice: exhaustive grid over small headers and ALL index triples around the bounds
    maxcap = 4 if tier == "thorough" else 3
    for off in (0, 2):
        for cap in range(0, maxcap + 1):
            for ln in range(0, cap + 1):
                idx = list(range(-1, cap + 2))
                for lo in idx:
                    for hi in idx + [None]:
                        for mx in idx + [None]:
                            if hi is None and mx is not None:
                                continue        # a[lo::max] is not Go syntax
                            ops.append("subslice %d %d %d 0 %d %s %s" % (off, ln, cap, lo, opt(hi), opt(mx)))
    for lo in (-1, 0, 1):
        for hi in (-1, 0, 1, None):
            for mx in (-1, 0, 1, None):
                if hi is None and mx is not None:
                    continue
                ops.append("subslice 0 0 0 1 %d %s %s" % (lo, opt(hi), opt(mx)))
    for _ in range(20000 if tier == "thorough" else 1500):
        cap = rng.randrange(0, 2000)
        ln = rng.randrange(0, cap + 1)
        pick = lambda: rng.choice([rng.randrange(-2, cap + 3), ln, cap, 0, ln + 1, cap + 1])
        hi = rng.choice([None, pick(), pick()])
        mx = None if hi is None else rng.choice([None, pick(), pick()])
        ops.append("subslice %d %d %d 0 %d %s %s" % (rng.randrange(0, 50), ln, cap, pick(), opt(hi), opt(mx)))
    res = [("slice " + o, "slice s" + o) for o in ops]

    def rand_hdr(n):
        off = rng.randrange(0, n + 1)
        cap = rng.randrange(0, n - off + 1)
        ln = rng.choice([cap, rng.randrange(0, cap + 1)])
        return off, ln, cap

    # append / appendSlice
    cnt = 0
    for _ in range(12000 if tier == "thorough" else 1200):
        k = rng.choice("tps")
        n = rng.choice([0, 1, 2, 3, 5, 8, 12])
        cells = [rng.randrange(1, 1000) for _ in range(n)]
        off, ln, cap = rand_hdr(n)
        nv = rng.choice([0, 1, 1, 2, 3, max(0, cap - ln), max(0, cap - ln) + 1, 6])
        vals = [rng.randrange(1000, 2000) for _ in range(nv)]
        o = "append %s %s %d %d %d 0 %s" % (k, ilist(cells), off, ln, cap, ilist(vals))
        res.append(("slice " + o, "slice s" + o))
        res.append(("slice appendcap " + o[len("append "):], None))
        # appendSlice: source in the same array (any window, overlapping the written region) or another array
        same = rng.random() < 0.6
        if same:
            so, sl, _ = rand_hdr(n)
            sl = rng.randrange(0, n - so + 1)
            o = "appendslice %s %s %d %d %d 0 1 - %d %d" % (k, ilist(cells), off, ln, cap, so, sl)
        else:
            m = rng.randrange(0, 7)
            sc = [rng.randrange(2000, 3000) for _ in range(m)]
            so = rng.randrange(0, m + 1)
            sl = rng.randrange(0, m - so + 1)
            o = "appendslice %s %s %d %d %d 0 0 %s %d %d" % (k, ilist(cells), off, ln, cap, ilist(sc), so, sl)
        res.append(("slice " + o, "slice s" + o))
        cnt += 1
    # growth rule around the 1024 threshold
    for old in list(range(0, 20)) + [255, 256, 511, 512, 1022, 1023, 1024, 1025, 1026, 2047, 2048, 4096, 5000, 99999]:
        for mn in (old + 1, old + 2, 2 * old - 1, 2 * old, 2 * old + 1, old * 5 // 4, old * 5 // 4 + 1, 3 * old + 7):
            if mn > old:
                res.append(("slice growcap %d %d" % (mn, old), None))
    for k in "tps":
        for ln, cap, add in ((1023, 1023, 1), (1024, 1024, 1), (1025, 1025, 1), (1024, 1024, 300), (1000, 1024, 24), (1000, 1024, 25)):
            o = "append %s %s 0 %d %d 0 %s" % (k, ilist([7] * cap), ln, cap, ilist([9] * add))
            res.append(("slice " + o, "slice s" + o))
            res.append(("slice appendcap " + o[len("append "):], None))
    # copy: EVERY pair of windows of a 5-cell array (both overlap directions), all representations; plus other arrays
    N = 5 if tier == "thorough" else 4
    base = list(range(1, N + 1))
    wins = [(o, l) for o in range(N + 1) for l in range(N + 1 - o)]
    for k in "tps":
        for (do, dl) in wins:
            for (so, sl) in wins:
                o = "copy %s %s %d %d 1 - %d %d" % (k, ilist(base), do, dl, so, sl)
                res.append(("slice " + o, "slice s" + o))
    for _ in range(6000 if tier == "thorough" else 600):
        k = rng.choice("tps")
        n = rng.randrange(0, 14)
        cells = [rng.randrange(1, 1000) for _ in range(n)]
        do = rng.randrange(0, n + 1)
        dl = rng.randrange(0, n - do + 1)
        if rng.random() < 0.6:
            so = rng.randrange(0, n + 1)
            sl = rng.randrange(0, n - so + 1)
            o = "copy %s %s %d %d 1 - %d %d" % (k, ilist(cells), do, dl, so, sl)
        else:
            m = rng.randrange(0, 10)
            sc = [rng.randrange(2000, 3000) for _ in range(m)]
            so = rng.randrange(0, m + 1)
            sl = rng.randrange(0, m - so + 1)
            o = "copy %s %s %d %d 0 %s %d %d" % (k, ilist(cells), do, dl, ilist(sc), so, sl)
        res.append(("slice " + o, "slice s" + o))
    # make
    for ln in (-2, -1, 0, 1, 5, 2147483648, 4294967296):
        for cp in (None, -1, 0, 1, 4, 5, 6, 2147483648):
            if ln > 100 or (cp is not None and cp > 100 and ln >= 0 and cp >= ln):
                if not (ln > 2147483647 or ln < 0 or (cp is not None and (cp > 2147483647))):
                    continue
            o = "make %d %s" % (ln, opt(cp))
            res.append(("slice " + o, "slice s" + o))
    # slice -> array pointer
    for k in "tps":
        for off in (0, 1):
            for cap in range(0, 4):
                for ln in range(0, cap + 1):
                    for n in range(0, 5):
                        res.append(("slice toarray %s %d %d %d 0 %d" % (k, off, ln, cap, n), None))
        for n in (0, 1):
            res.append(("slice toarray %s 0 0 0 1 %d" % (k, n), None))
    return res


def slice_kind(op, ans):
    p = op.split()
    if p[1] in ("subslice",):
        form = "2idx" if p[8] == "_" else "3idx"
        if p[7] == "_":
            form = "lowonly"
        return "subslice:%s:%s" % (form, "panic" if ans.startswith("panic") else ("nil" if ans.endswith(" 1") else "ok"))
    if p[1] in ("append", "appendslice"):
        m = re.match(r"realloc=(\d) .* reused=(\d)", ans)
        extra = ""
        if p[1] == "appendslice":
            extra = ":same" if p[8] == "1" else ":other"
        return "%s:%s%s:%s" % (p[1], p[2], extra, ("realloc" if m and m.group(1) == "1" else "inplace") + (":reused" if m and m.group(2) == "1" else ""))
    if p[1] == "copy":
        do, so = int(p[4]), int(p[8])
        n = ans.split()[0]
        if p[6] != "1":
            d = "other"
        else:
            d = "same-bwd" if do > so else ("same-fwd" if do < so else "same-eq")
        return "copy:%s:%s:%s" % (p[2], d, "n0" if n == "0" else "n+")
    if p[1] == "toarray":
        return "toarray:%s:%s" % (p[2], ans.split()[0])
    if p[1] == "make":
        return "make:" + ("panic" if ans.startswith("panic") else "ok")
    return p[1]


def grow_sig(op, impl, spec):
    p = op.split()
    if p[1] in ("append", "appendslice") and p[2] == "s" and "reused=1" in impl and impl.replace("reused=1", "reused=0") == spec:
        return SIG_GROW
    return None


# ------------------------------------------------------------------------------------------
# type shapes
# ------------------------------------------------------------------------------------------

class Types:
    """random Go type shapes for one program; named struct/array types are declared at package level"""

    def __init__(self, rng, prefix):
        self.rng = rng
        self.prefix = prefix
        self.decls = []
        self.count = 0

    def fresh(self, kind):
        self.count += 1
        return "%s%s%d" % (kind, self.prefix, self.count)

    def leaf(self):
        k = self.rng.choice("iiiiiplmf")
        return {"k": k, "go": {"i": "int", "p": "*int", "l": "[]int", "m": "map[int]int", "f": "interface{}"}[k], "named": False}

    def gen(self, depth, spine=False):
        r = self.rng
        if depth <= 0 or (not spine and r.random() < 0.45):
            if not spine:
                return self.leaf()
        if r.random() < 0.55:
            nf = r.choice([1, 2, 2, 3])
            fields = [self.gen(depth - 1) for _ in range(nf)]
            name = self.fresh("T")
            names, parts, used = [], [], set()
            for i, f in enumerate(fields):
                if f["named"] and f["go"] not in used and r.random() < 0.4:
                    names.append(f["go"])      # embedded field
                    used.add(f["go"])
                    parts.append(f["go"])
                else:
                    names.append("F%d" % i)
                    parts.append("F%d %s" % (i, f["go"]))
            self.decls.append("type %s struct { %s }" % (name, "; ".join(parts)))
            return {"k": "s", "fields": fields, "fnames": names, "go": name, "named": True}
        n = r.choice([1, 2, 2, 3])
        elem = self.gen(depth - 1)
        t = {"k": "a", "n": n, "elem": elem, "go": "[%d]%s" % (n, elem["go"]), "named": False}
        if r.random() < 0.5:
            name = self.fresh("A")
            self.decls.append("type %s %s" % (name, t["go"]))
            t["go"] = name
            t["named"] = True
        return t


def is_spine(t):
    return t["k"] in "sa"


def token(t):
    if t["k"] == "s":
        return ".".join(["s%d" % len(t["fields"])] + [token(f) for f in t["fields"]])
    if t["k"] == "a":
        return "a%d.%s" % (t["n"], token(t["elem"]))
    if t["k"] in "pl":
        return t["k"] + ".i"
    return t["k"]


def leaves(t):
    """[(path, leaftype)] in memory order"""
    if t["k"] == "s":
        return [([i] + p, lt) for i, f in enumerate(t["fields"]) for p, lt in leaves(f)]
    if t["k"] == "a":
        sub = leaves(t["elem"])
        return [([i] + p, lt) for i in range(t["n"]) for p, lt in sub]
    return [([], t)]


def subtype(t, path):
    for i in path:
        t = t["fields"][i] if t["k"] == "s" else t["elem"]
    return t


def sel(t, path):
    out = ""
    for i in path:
        if t["k"] == "s":
            out += "." + t["fnames"][i]
            t = t["fields"][i]
        else:
            out += "[%d]" % i
            t = t["elem"]
    return out


def spine_paths(t, path=()):
    """paths of all array/struct typed sub-values (including the root)"""
    res = []
    if is_spine(t):
        res.append(list(path))
        if t["k"] == "s":
            for i, f in enumerate(t["fields"]):
                res += spine_paths(f, path + (i,))
        else:
            for i in range(t["n"]):
                res += spine_paths(t["elem"], path + (i,))
    return res


def pstr(path):
    return ".".join(map(str, path)) if path else "_"


def golit(t, base, counter=None):
    """Go composite literal of type t whose k-th leaf cell (memory order) holds base+k+1"""
    counter = counter if counter is not None else [0]
    if t["k"] == "s":
        parts = ["%s: %s" % (t["fnames"][i], golit(f, base, counter)) for i, f in enumerate(t["fields"])]
        return "%s{%s}" % (t["go"], ", ".join(parts))
    if t["k"] == "a":
        return "%s{%s}" % (t["go"], ", ".join(golit(t["elem"], base, counter) for _ in range(t["n"])))
    counter[0] += 1
    return setv(t, base + counter[0])


def setv(lt, n):
    return {"i": "%d" % n, "p": "&cells[%d]" % n, "l": "mkl(%d)" % n, "m": "mkm(%d)" % n, "f": "interface{}(%d)" % n}[lt["k"]]


def getv(lt, e):
    return {"i": e, "p": "dp(%s)" % e, "l": "dl(%s)" % e, "m": "dm(%s)" % e, "f": "df(%s)" % e}[lt["k"]]


HELPERS = r"""
var cells [1000]int

func init() {
	for i := range cells {
		cells[i] = i
	}
}
func mkl(n int) []int       { return []int{n} }
func mkm(n int) map[int]int { return map[int]int{0: n} }
func dp(p *int) int {
	if p == nil {
		return -1
	}
	return *p
}
func dl(s []int) int {
	if s == nil {
		return -1
	}
	return s[0]
}
func dm(m map[int]int) int {
	if m == nil {
		return -1
	}
	return m[0]
}
func df(i interface{}) int {
	if i == nil {
		return -1
	}
	return i.(int)
}
"""


class Probe:
    """one probe = Go statements + (optionally) the program of the Lean copy-context language that predicts its output"""

    def __init__(self, pid, rng, types):
        self.id = pid
        self.rng = rng
        self.types = types
        self.top = []       # package-level declarations
        self.body = []      # statements of func probeN()
        self.model = []     # statements of the Lean language (None when not modelled)
        self.ndump = 0
        self.ctx = ""
        self.sigs = {}      # dump number -> signature explaining a js!=go difference in that dump

    def dump(self, t, expr, out=None, base=0):
        d = self.ndump
        self.ndump += 1
        lines = ["println(%d, %d, %d, %s)" % (self.id, d, base + i, getv(lt, expr + sel(t, p))) for i, (p, lt) in enumerate(leaves(t))]
        (self.body if out is None else out).extend(lines)
        return d

    def fill(self, t, expr, slot):
        for i, (p, lt) in enumerate(leaves(t)):
            self.body.append("%s%s = %s" % (expr, sel(t, p), setv(lt, i + 1)))
            self.model.append("set:%d:%s:%d" % (slot, pstr(p), i + 1))

    def rand_leaf(self, t):
        ls = leaves(t)
        return self.rng.choice(ls)


def gen_probe(pid, rng, types, forced=None):
    pr = Probe(pid, rng, types)
    ctx = forced or rng.choice(CONTEXTS)
    for _ in range(12):
        T = types.gen(rng.choice([1, 2, 3, 4]), spine=True)
        sps0 = spine_paths(T)
        if ctx in ("rangeValue", "rangeOperand"):
            if any(q and subtype(T, q[:-1])["k"] == "a" and (ctx == "rangeValue" or subtype(T, q[:-1])["n"] >= 2) for q in sps0):
                break
        elif ctx in ("recvValue", "methodValue", "ifaceCall", "boundRecv"):
            if any(subtype(T, q)["named"] for q in sps0):
                break
        else:
            break
    # where x lives: local, package level, or accessed through a pointer
    place = rng.choice(["local", "local", "global", "ptr"])
    if place == "global":
        pr.top.append("var gx%d %s" % (pid, T["go"]))
        x = "gx%d" % pid
    elif place == "ptr":
        pr.body.append("px := new(%s)" % T["go"])
        x = "px"
    else:
        pr.body.append("var x %s" % T["go"])
        x = "x"
    pr.model.append("decl:" + token(T))
    pr.fill(T, x, 0)
    xval = "(*px)" if place == "ptr" else x
    sps = spine_paths(T)
    # source sub-value
    p = rng.choice(sps)
    if ctx in ("rangeValue", "rangeOperand"):
        cands = [q for q in sps if q and subtype(T, q[:-1])["k"] == "a" and (ctx == "rangeValue" or subtype(T, q[:-1])["n"] >= 2)]
        if not cands:
            ctx = "define"
        else:
            p = rng.choice(cands)
    U = subtype(T, p)
    if ctx in ("recvValue", "methodValue", "ifaceCall", "boundRecv") and not U["named"]:
        named = [q for q in sps if subtype(T, q)["named"]]
        p = rng.choice(named) if named else []
        U = subtype(T, p)
        if not U["named"]:
            ctx = "define"
    xs = (xval if not p else x) + sel(T, p)
    if not p:
        xs = xval
    q1, l1 = pr.rand_leaf(U)
    q2, l2 = pr.rand_leaf(U)
    mutx = "%s%s = %s" % (x, sel(T, p + q1), setv(l1, 100))
    mutx_m = "set:0:%s:100" % pstr(p + q1)
    pr.ctx = ctx
    B, M = pr.body, pr.model
    Ugo = U["go"]

    def muty(expr, slot, val=200):
        B.append("%s%s = %s" % (expr, sel(U, q2), setv(l2, val)))
        M.append("set:%d:%s:%d" % (slot, pstr(q2), val))

    if ctx == "define":
        via = rng.choice(["", "result", "ptrload"])
        if via == "result":
            B.append("y := func() %s { return %s }()" % (Ugo, xs))
            M.append("bind:define:result>0/%s" % pstr(p))
        elif via == "ptrload":
            B.append("py := &%s" % (x + sel(T, p) if p else xval))
            B.append("y := *py")
            M.append("bind:define:0/%s" % pstr(p))
        else:
            B.append(rng.choice(["y := %s", "var y = %s", "var y %s = %%s" % Ugo]) % xs)
            M.append("bind:define:0/%s" % pstr(p))
        B.append(mutx); M.append(mutx_m)
        muty("y", 1)
        pr.dump(T, xval); M.append("dump:0")
        pr.dump(U, "y"); M.append("dump:1")
    elif ctx == "arg":
        # parameter passing copies for EVERY syntactic form of the argument expression and every kind of callee
        Tgo = T["go"]
        pxe = "px" if place == "ptr" else "&" + x
        sx = (x + sel(T, p)) if p else xval
        forms = ["plain", "paren", "deref", "conv", "convnamed", "closure-result", "func-result-ptr", "id-result", "generic-id", "lit"]
        if place == "global":
            forms.append("func-result-global")
        if T["named"]:
            forms.append("method-result")
        form = rng.choice(forms)
        PT = Ugo
        pre, mexpr, yslot = [], "0/%s" % pstr(p), 1
        if form == "plain":
            A = sx
        elif form == "paren":
            A = "(%s)" % sx
        elif form == "deref":
            B.append("qa := &%s" % sx)
            A, mexpr = "*qa", "deref>0/%s" % pstr(p)
        elif form == "conv":
            A = "%s(%s)" % (Ugo if U["named"] else "(" + Ugo + ")", sx)
            if rng.random() < 0.5:
                A = "(%s)(%s)" % (Ugo, sx)
            mexpr = "conv>0/%s" % pstr(p)
        elif form == "convnamed":
            pr.top.append("type C%d %s" % (pid, Ugo))
            PT = "C%d" % pid
            A, mexpr = "C%d(%s)" % (pid, sx), "conv>0/%s" % pstr(p)
        elif form == "closure-result":
            A, mexpr = "func() %s { return %s }()" % (Ugo, sx), "result>0/%s" % pstr(p)
        elif form == "func-result-global":
            pr.top.append("func retg%d() %s { return %s }" % (pid, Ugo, sx))
            A, mexpr = "retg%d()" % pid, "result>0/%s" % pstr(p)
        elif form == "func-result-ptr":
            pr.top.append("func fld%d(q *%s) %s { return %s }" % (pid, Tgo, Ugo, ("q" + sel(T, p)) if p else "*q"))
            A, mexpr = "fld%d(%s)" % (pid, pxe), "result>0/%s" % pstr(p)
        elif form == "method-result":
            pr.top.append("func (q *%s) get%d() %s { return %s }" % (Tgo, pid, Ugo, ("q" + sel(T, p)) if p else "*q"))
            A, mexpr = "(%s).get%d()" % (pxe, pid), "result>0/%s" % pstr(p)
        elif form == "id-result":
            pr.top.append("func idr%d(v %s) %s { return v }" % (pid, Ugo, Ugo))
            A, mexpr = "idr%d(%s)" % (pid, sx), "result>arg>0/%s" % pstr(p)
        elif form == "generic-id":
            pr.top.append("func gid%d[V any](v V) V { return v }" % pid)
            A, mexpr = "gid%d(%s)" % (pid, sx), "result>arg>0/%s" % pstr(p)
        else:
            A = golit(U, 500)
            pre.append("decl:" + token(U))
            for i2, (lp, lt) in enumerate(leaves(U)):
                pre.append("set:1:%s:%d" % (pstr(lp), 500 + i2 + 1))
            mexpr, yslot = "1/_", 2
        M.extend(pre)
        M.append("bind:arg:" + mexpr)
        callee = rng.choice(["closure", "func", "method", "variadic", "defer", "go"])
        pr.ctx = "arg"
        mutx_px = "px%s = %s" % (sel(T, p + q1), setv(l1, 100))
        if callee in ("defer", "go"):
            body = []
            pr.dump(U, "y", out=body)
            body.append("y%s = %s" % (sel(U, q2), setv(l2, 200)))
            body.append("done <- true")
            pr.top.append("func dg%d(y %s, done chan bool) {\n%s\n}" % (pid, PT, "\n".join(body)))
            B.append("done := make(chan bool, 2)")
            if callee == "defer":
                B.append("func() {\ndefer dg%d(%s, done)\n%s\n}()" % (pid, A, mutx))
            else:
                B.append("go dg%d(%s, done)" % (pid, A))
                B.append(mutx)
                B.append("<-done")
            M.append(mutx_m); M.append("dump:%d" % yslot); M.append("set:%d:%s:200" % (yslot, pstr(q2)))
            pr.dump(T, xval); M.append("dump:0")
        else:
            yv = "ys[0]" if callee == "variadic" else "y"
            body = [mutx if callee == "closure" else mutx_px]
            body.append("%s%s = %s" % (yv, sel(U, q2), setv(l2, 200)))
            pr.dump(T, xval if callee == "closure" else "(*px)", out=body)
            pr.dump(U, yv, out=body)
            M.append(mutx_m); M.append("set:%d:%s:200" % (yslot, pstr(q2)))
            M.append("dump:0"); M.append("dump:%d" % yslot)
            if callee == "closure":
                B.append("func(y %s) {\n%s\n}(%s)" % (PT, "\n".join(body), A))
            elif callee == "func":
                pr.top.append("func cal%d(y %s, px *%s) {\n%s\n}" % (pid, PT, Tgo, "\n".join(body)))
                B.append("cal%d(%s, %s)" % (pid, A, pxe))
            elif callee == "method":
                pr.top.append("type R%d struct{}\nfunc (R%d) m(y %s, px *%s) {\n%s\n}" % (pid, pid, PT, Tgo, "\n".join(body)))
                B.append("R%d{}.m(%s, %s)" % (pid, A, pxe))
            else:
                pr.top.append("func vr%d(px *%s, ys ...%s) {\n%s\n}" % (pid, Tgo, PT, "\n".join(body)))
                B.append("vr%d(%s, %s)" % (pid, pxe, A))
        pr.argform = form + "/" + callee
    elif ctx == "rangeValue":
        parent = p[:-1]
        pe = (x + sel(T, parent)) if parent else xval
        if rng.random() < 0.4:
            pe += "[:]"
        M.append("bind:rangeValue:0/%s" % pstr(p))
        B.append("for i, y := range %s {" % pe)
        B.append("if i == %d {" % p[-1])
        B.append(mutx); M.append(mutx_m)
        muty("y", 1)
        pr.dump(T, xval); M.append("dump:0")
        pr.dump(U, "y"); M.append("dump:1")
        B.append("}")
        B.append("}")
    elif ctx == "rangeOperand":
        parent = p[:-1]
        PT = subtype(T, parent)
        j = rng.randrange(1, PT["n"])
        pe = (x + sel(T, parent)) if parent else xval
        M.append("bind:rangeOperand:0/%s" % pstr(parent))
        M.append("set:0:%s:100" % pstr(parent + [j] + q1))
        M.append("dump:1")
        sz = len(leaves(U))
        B.append("for i, e := range %s {" % pe)
        B.append("if i == 0 {")
        B.append("%s%s = %s" % (x, sel(T, parent + [j] + q1), setv(l1, 100)))
        B.append("}")
        d = pr.ndump
        pr.ndump += 1
        for k, (lp, lt) in enumerate(leaves(U)):
            B.append("println(%d, %d, i*%d+%d, %s)" % (pid, d, sz, k, getv(lt, "e" + sel(U, lp))))
        B.append("}")
        pr.sigs[d] = SIG_RANGE
        pr.dump(T, xval); M.append("dump:0")
    elif ctx == "send":
        B.append("ch := make(chan %s, 1)" % Ugo)
        if rng.random() < 0.3:
            B.append("select {\ncase ch <- %s:\ndefault:\n}" % xs)
        else:
            B.append("ch <- %s" % xs)
        M.append("bind:send:0/%s" % pstr(p))
        B.append(mutx); M.append(mutx_m)
        B.append("y := <-ch"); M.append("bind:define:recv>1/_")
        muty("y", 2)
        pr.dump(T, xval); M.append("dump:0")
        pr.dump(U, "y"); M.append("dump:2")
    elif ctx == "mapStore":
        B.append("m := map[int]%s{}" % Ugo)
        B.append("m[1] = %s" % xs); M.append("bind:mapStore:0/%s" % pstr(p))
        B.append(mutx); M.append(mutx_m)
        B.append("y := m[1]"); M.append("bind:define:mapLoad>1/_")
        muty("y", 2)
        B.append("z := m[1]"); M.append("bind:define:mapLoad>1/_")
        pr.dump(T, xval); M.append("dump:0")
        pr.dump(U, "y"); M.append("dump:2")
        pr.dump(U, "z"); M.append("dump:3")
    elif ctx == "litElem":
        form = rng.choice(["struct", "structkv", "array", "slice", "map", "ptr"])
        M.append("bind:litElem:0/%s" % pstr(p))
        if form == "struct":
            B.append("w := struct{ A %s; B int }{%s, 7}" % (Ugo, xs)); y = "w.A"
        elif form == "structkv":
            B.append("w := struct{ B int; A %s }{A: %s}" % (Ugo, xs)); y = "w.A"
        elif form == "array":
            B.append("w := [2]%s{1: %s}" % (Ugo, xs)); y = "w[1]"
        elif form == "slice":
            B.append("w := []%s{%s}" % (Ugo, xs)); y = "w[0]"
        elif form == "ptr":
            B.append("w := &struct{ A %s }{%s}" % (Ugo, xs)); y = "w.A"
        else:
            B.append("w := map[int]%s{0: %s}" % (Ugo, xs)); y = None
        B.append(mutx); M.append(mutx_m)
        if y:
            muty(y, 1)
        else:
            y = "w[0]"
        pr.dump(T, xval); M.append("dump:0")
        pr.dump(U, y); M.append("dump:1")
    elif ctx == "box":
        form = rng.choice(["var", "assign", "arg", "lit"])
        if form == "var":
            B.append("var i interface{} = %s" % xs)
        elif form == "assign":
            B.append("var i interface{}\ni = %s" % xs)
        elif form == "arg":
            B.append("i := func(v interface{}) interface{} { return v }(%s)" % xs)
        else:
            B.append("i := []interface{}{%s}[0]" % xs)
        M.append("bind:box:0/%s" % pstr(p))
        B.append(mutx); M.append(mutx_m)
        B.append("y := i.(%s)" % Ugo); M.append("bind:define:unbox>1/_")
        muty("y", 2)
        B.append("z := i.(%s)" % Ugo); M.append("bind:define:unbox>1/_")
        pr.dump(T, xval); M.append("dump:0")
        d1 = pr.dump(U, "y"); M.append("dump:2")
        d2 = pr.dump(U, "z"); M.append("dump:3")
        pr.sigs[d1] = SIG_BOX
        pr.sigs[d2] = SIG_BOX
    elif ctx == "recvValue":
        m = ["func (y %s) m%d(px *%s) {" % (Ugo, pid, T["go"])]
        m.append("px%s = %s" % (sel(T, p + q1), setv(l1, 100))); M.append("bind:recvValue:0/%s" % pstr(p)); M.append(mutx_m)
        m.append("y%s = %s" % (sel(U, q2), setv(l2, 200))); M.append("set:1:%s:200" % pstr(q2))
        pr.dump(T, "(*px)", out=m); M.append("dump:0")
        pr.dump(U, "y", out=m); M.append("dump:1")
        m.append("}")
        pr.top.append("\n".join(m))
        B.append("%s.m%d(%s)" % ("(" + xs + ")", pid, "px" if place == "ptr" else "&" + x))
    elif ctx == "methodValue":
        m = ["func (y %s) v%d(base int) {" % (Ugo, pid)]
        for k, (lp, lt) in enumerate(leaves(U)):
            m.append("println(%d, base, %d, %s)" % (pid, k, getv(lt, "y" + sel(U, lp))))
        m.append("y%s = %s" % (sel(U, q2), setv(l2, 200)))
        m.append("}")
        pr.top.append("\n".join(m))
        B.append("f := (%s).v%d" % (xs, pid)); M.append("bind:methodValue:0/%s" % pstr(p))
        B.append(mutx); M.append(mutx_m)
        B.append("f(0)"); M.append("bind:boundCall:1/_"); M.append("dump:2"); M.append("set:2:%s:200" % pstr(q2))
        B.append("f(1)"); M.append("bind:boundCall:1/_"); M.append("dump:3")
        pr.ndump = 2
        pr.sigs[1] = SIG_BOUND
        pr.dump(T, xval); M.append("dump:0")
    elif ctx == "ifaceCall":
        m = ["type I%d interface{ w%d(base int) }" % (pid, pid), "func (y %s) w%d(base int) {" % (Ugo, pid)]
        for k, (lp, lt) in enumerate(leaves(U)):
            m.append("println(%d, base, %d, %s)" % (pid, k, getv(lt, "y" + sel(U, lp))))
        m.append("y%s = %s" % (sel(U, q2), setv(l2, 200)))
        m.append("}")
        pr.top.append("\n".join(m))
        if rng.random() < 0.5:
            # a pointer in the interface: the value method is reached through the pointer
            B.append("var i I%d = &%s" % (pid, (x + sel(T, p)) if p else xval))
            src = "0/%s" % pstr(p)
            B.append("i.w%d(0)" % pid); M.append("bind:ifaceCall:" + src); M.append("dump:1"); M.append("set:1:%s:200" % pstr(q2))
            B.append("i.w%d(1)" % pid); M.append("bind:ifaceCall:" + src); M.append("dump:2")
            pr.ndump = 2
            pr.dump(T, xval); M.append("dump:0")
        else:
            B.append("y0 := %s" % xs); M.append("bind:define:0/%s" % pstr(p))
            B.append("var i I%d = y0" % pid); M.append("bind:box:1/_")
            B.append("i.w%d(0)" % pid); M.append("bind:ifaceCall:2/_"); M.append("dump:3"); M.append("set:3:%s:200" % pstr(q2))
            B.append("i.w%d(1)" % pid); M.append("bind:ifaceCall:2/_"); M.append("dump:4")
            pr.ndump = 2
            pr.dump(U, "y0"); M.append("dump:1")
            pr.dump(T, xval); M.append("dump:0")
        pr.sigs[1] = SIG_IFACE
        pr.sigs[2] = SIG_IFACE
    elif ctx == "boundRecv":
        # the receiver of a method value / defer / go statement is evaluated and COPIED when the statement executes,
        # according to the method's (value) receiver type, whatever the operand is: a value, a pointer (automatic
        # dereference; also pointer to a named array type), a path through an embedded *T / T, an element, a map value
        binding = rng.choice(["methodValue", "methodValue", "defer", "go"])
        operand = rng.choice(["value", "ptr", "ptr", "embedptr", "embedval", "elem", "mapval"])
        m = ["func (y %s) b%d(base int, done chan bool) {" % (Ugo, pid)]
        for k, (lp, lt) in enumerate(leaves(U)):
            m.append("println(%d, base, %d, %s)" % (pid, k, getv(lt, "y" + sel(U, lp))))
        m.append("y%s = %s" % (sel(U, q2), setv(l2, 200)))
        m.append("done <- true")
        m.append("}")
        pr.top.append("\n".join(m))
        B.append("done := make(chan bool, 4)")
        sx = (x + sel(T, p)) if p else xval
        S, SP, stor = 0, p, sx
        if operand == "value":
            op, mexpr = "(%s)" % sx, "0/%s" % pstr(p)
        elif operand == "ptr":
            B.append("pp := &%s" % sx)
            op, mexpr = "pp", "deref>0/%s" % pstr(p)
        elif operand == "embedptr":
            pr.top.append("type E%d struct{ *%s }" % (pid, Ugo))
            B.append("e := E%d{&%s}" % (pid, sx))
            op, mexpr = "e", "deref>0/%s" % pstr(p)
        elif operand == "embedval":
            pr.top.append("type V%d struct{ %s }" % (pid, Ugo))
            B.append("e := V%d{%s}" % (pid, sx)); M.append("bind:litElem:0/%s" % pstr(p))
            S, SP, stor = 1, [], "e.%s" % Ugo
            op, mexpr = "e", "1/_"
        elif operand == "elem":
            B.append("s := []%s{%s, %s}" % (Ugo, sx, sx)); M.append("bind:litElem:0/%s" % pstr(p))
            S, SP, stor = 1, [], "s[1]"
            op, mexpr = "s[1]", "1/_"
        else:
            B.append("mm := map[int]%s{1: %s}" % (Ugo, sx)); M.append("bind:mapStore:0/%s" % pstr(p))
            S, SP, stor = 1, [], "mm[1]"
            op, mexpr = "mm[1]", "mapLoad>1/_"
        r = S + 1
        bctx = {"methodValue": "methodValue", "defer": "deferRecv", "go": "goRecv"}[binding]
        # the mutation made AFTER binding and BEFORE the method runs
        if operand == "mapval":
            mut = "tmp := mm[1]\ntmp%s = %s\nmm[1] = tmp" % (sel(U, q1), setv(l1, 100))
        else:
            how = rng.choice(["var", "alias", "ptr" if operand == "ptr" else "var"])
            if how == "alias":
                mut = "al := &%s\nal%s = %s" % (stor, sel(U, q1), setv(l1, 100))
            elif how == "ptr":
                mut = "pp%s = %s" % (sel(U, q1), setv(l1, 100))
            else:
                mut = "%s%s = %s" % (stor if (S or p) else x, sel(U, q1), setv(l1, 100))
        mut_m = "set:%d:%s:100" % (S, pstr(SP + q1))
        M.append("bind:%s:%s" % (bctx, mexpr))
        ninv = 2 if binding == "methodValue" else 1
        if binding == "methodValue":
            B.append("f := %s.b%d" % (op, pid))
            B.append(mut)
            B.append("f(0, done)\nf(1, done)")
        elif binding == "defer":
            B.append("func() {\ndefer %s.b%d(0, done)\n%s\n}()" % (op, pid, mut))
        else:
            B.append("go %s.b%d(0, done)" % (op, pid))
            B.append(mut)
            B.append("<-done")
        M.append(mut_m)
        for k in range(ninv):
            M.append("bind:boundCall:%d/_" % r)
            M.append("dump:%d" % (r + 1 + k))
            M.append("set:%d:%s:200" % (r + 1 + k, pstr(q2)))
        pr.ndump = ninv
        if S == 0:
            pr.dump(T, xval); M.append("dump:0")
        else:
            pr.dump(U, stor); M.append("dump:1")
    elif ctx == "reassign":
        # a WHOLE-variable assignment after pointers into the variable were taken: the variable keeps its storage, so
        # the old pointers (to the variable, to a leaf field/element of it, a bound pointer-receiver method value) stay attached
        tk = rng.choice(["local", "local", "global", "captured", "field", "elem"])
        if tk == "global":
            pr.top.append("var gz%d %s" % (pid, Ugo))
            z, zpath, ztok = "gz%d" % pid, [], token(U)
        elif tk == "field":
            B.append("var w struct { A int; B %s }" % Ugo)
            z, zpath, ztok = "w.B", [1], "s2.i." + token(U)
        elif tk == "elem":
            B.append("var w [2]%s" % Ugo)
            z, zpath, ztok = "w[1]", [1], "a2." + token(U)
        else:
            B.append("var z %s" % Ugo)
            z, zpath, ztok = "z", [], token(U)
        M.append("decl:" + ztok)
        for i, (lp, lt) in enumerate(leaves(U)):
            B.append("%s%s = %s" % (z, sel(U, lp), setv(lt, 300 + i + 1)))
            M.append("set:1:%s:%d" % (pstr(zpath + lp), 300 + i + 1))
        sctx = {"field": "fieldStore", "elem": "elemStore"}.get(tk, "assign")
        nslots = [2]
        # pointers taken BEFORE the assignment
        B.append("pz := &%s" % z)
        writers = ["pz"]
        if l2["k"] == "i":
            B.append("pl := &%s%s" % (z, sel(U, q2)))
            B.append("_ = pl")
            writers.append("pl")
        if U["named"]:
            pr.top.append("func (y *%s) r%d() { y%s = %s }" % (Ugo, pid, sel(U, q2), setv(l2, 200)))
            B.append("fr := %s.r%d" % (z, pid))
            B.append("_ = fr")
            writers.append("fr")
        form = rng.choice(["lit", "lit", "zero", "var", "result", "deref", "conv", "swap"])
        wrap = "closure" if tk == "captured" else rng.choice(["plain", "plain", "loop", "closure"])
        pre, stores = [], []
        if form == "lit":
            rhs = golit(U, 500)
            k = nslots[0]; nslots[0] += 1
            pre.append("decl:" + token(U))
            for i, (lp, lt) in enumerate(leaves(U)):
                pre.append("set:%d:%s:%d" % (k, pstr(lp), 500 + i + 1))
            stores.append("store:%s:1:%s:%d/_" % (sctx, pstr(zpath), k))
        elif form == "zero":
            rhs = "%s{}" % Ugo
            k = nslots[0]; nslots[0] += 1
            pre.append("decl:" + token(U))
            stores.append("store:%s:1:%s:%d/_" % (sctx, pstr(zpath), k))
        elif form == "result":
            rhs = "func() %s { return %s }()" % (Ugo, xs)
            stores.append("store:%s:1:%s:result>0/%s" % (sctx, pstr(zpath), pstr(p)))
        elif form == "deref":
            B.append("qx := &%s" % ((x + sel(T, p)) if p else xval))
            rhs = "*qx"
            stores.append("store:%s:1:%s:0/%s" % (sctx, pstr(zpath), pstr(p)))
        elif form == "conv":
            rhs = "%s(%s)" % (Ugo if U["named"] else "(" + Ugo + ")", xs)
            stores.append("store:%s:1:%s:0/%s" % (sctx, pstr(zpath), pstr(p)))
        elif form == "var":
            rhs = xs
            stores.append("store:%s:1:%s:0/%s" % (sctx, pstr(zpath), pstr(p)))
        if form == "swap":
            B.append("var z2 %s" % Ugo)
            k2 = nslots[0]; nslots[0] += 1
            M.append("decl:" + token(U))
            for i, (lp, lt) in enumerate(leaves(U)):
                B.append("z2%s = %s" % (sel(U, lp), setv(lt, 700 + i + 1)))
                M.append("set:%d:%s:%d" % (k2, pstr(lp), 700 + i + 1))
            stmt = "%s, z2 = z2, %s" % (z, z)
            ta = nslots[0]; tb = nslots[0] + 1; nslots[0] += 2
            stores += ["bind:define:1/%s" % pstr(zpath), "bind:define:%d/_" % k2,
                       "store:%s:1:%s:%d/_" % (sctx, pstr(zpath), tb), "store:assign:%d:_:%d/_" % (k2, ta)]
            wrap = "closure" if tk == "captured" else "plain"
        else:
            stmt = "%s = %s" % (z, rhs)
        M.extend(pre)
        if wrap == "loop":
            B.append("for k := 0; k < 2; k++ {\n%s\n}" % stmt)
            M.extend(stores); M.extend(stores)
        elif wrap == "closure":
            B.append("func() {\n%s\n}()" % stmt)
            M.extend(stores)
        else:
            B.append(stmt)
            M.extend(stores)
        B.append(mutx); M.append(mutx_m)
        # write through an OLD pointer, then through the variable
        wr = rng.choice(writers)
        if wr == "pz":
            B.append("pz%s = %s" % (sel(U, q2), setv(l2, 200)))
        elif wr == "pl":
            B.append("*pl = 200")
        else:
            B.append("fr()")
        M.append("set:1:%s:200" % pstr(zpath + q2))
        q3, l3 = pr.rand_leaf(U)
        if q3 != q2:
            B.append("%s%s = %s" % (z, sel(U, q3), setv(l3, 900)))
            M.append("set:1:%s:900" % pstr(zpath + q3))
        pr.dump(T, xval); M.append("dump:0")
        pr.dump(U, z)                                       # the variable itself
        M.append("bind:define:1/%s" % pstr(zpath)); M.append("dump:%d" % nslots[0])
        pr.dump(U, "(*pz)")                                 # through the old pointer
        M.append("dump:%d" % nslots[0])
        if form == "swap":
            pr.dump(U, "z2"); M.append("dump:%d" % k2)
        B.append("if pz != &%s { println(%d, 98, 0, 0) }" % (z, pid))
    elif ctx in ("assign", "ptrStore"):
        B.append("var z %s" % Ugo); M.append("decl:" + token(U))
        B.append("pz := &z")
        pr.fill(U, "z", 1)
        if ctx == "assign":
            src = xs
            if rng.random() < 0.3:
                src = "func() %s { return %s }()" % (Ugo, xs)
                M.append("store:assign:1:_:result>0/%s" % pstr(p))
            else:
                M.append("store:assign:1:_:0/%s" % pstr(p))
            B.append("z = %s" % src)
        else:
            B.append("*pz = %s" % xs); M.append("store:ptrStore:1:_:0/%s" % pstr(p))
        B.append(mutx); M.append(mutx_m)
        muty("pz" if ctx == "assign" else "z", 1)      # through the pointer taken BEFORE the store: identity is kept
        pr.dump(T, xval); M.append("dump:0")
        pr.dump(U, "z" if ctx == "assign" else "(*pz)"); M.append("dump:1")
    elif ctx == "elemStore":
        sl = rng.random() < 0.5
        if sl:
            B.append("z := make([]%s, 2)" % Ugo)
        else:
            B.append("var z [2]%s" % Ugo)
        M.append("decl:a2." + token(U))
        B.append("pe := &z[1]")
        k = 0
        for e in (0, 1):
            for lp, lt in leaves(U):
                k += 1
                B.append("z[%d]%s = %s" % (e, sel(U, lp), setv(lt, 300 + k)))
                M.append("set:1:%s:%d" % (pstr([e] + lp), 300 + k))
        B.append("z[1] = %s" % xs); M.append("store:elemStore:1:1:0/%s" % pstr(p))
        B.append(mutx); M.append(mutx_m)
        B.append("pe%s = %s" % (sel(U, q2), setv(l2, 200))); M.append("set:1:%s:200" % pstr([1] + q2))
        pr.dump(T, xval); M.append("dump:0")
        d = pr.ndump
        pr.ndump += 1
        sz = len(leaves(U))
        for e in (0, 1):
            for k, (lp, lt) in enumerate(leaves(U)):
                B.append("println(%d, %d, %d, %s)" % (pid, d, e * sz + k, getv(lt, "z[%d]%s" % (e, sel(U, lp)))))
        M.append("dump:1")
    elif ctx == "fieldStore":
        B.append("var z struct { A int; B %s }" % Ugo); M.append("decl:s2.i." + token(U))
        B.append("pb := &z.B")
        B.append("z.A = 5"); M.append("set:1:0:5")
        B.append("z.B = %s" % xs); M.append("store:fieldStore:1:1:0/%s" % pstr(p))
        B.append(mutx); M.append(mutx_m)
        B.append("pb%s = %s" % (sel(U, q2), setv(l2, 200))); M.append("set:1:%s:200" % pstr([1] + q2))
        pr.dump(T, xval); M.append("dump:0")
        d = pr.ndump
        pr.ndump += 1
        B.append("println(%d, %d, 0, z.A)" % (pid, d))
        for k, (lp, lt) in enumerate(leaves(U)):
            B.append("println(%d, %d, %d, %s)" % (pid, d, 1 + k, getv(lt, "z.B" + sel(U, lp))))
        M.append("dump:1")
    else:
        raise RuntimeError("unknown context " + ctx)
    return pr


CONTEXTS = ["define", "arg", "arg", "arg", "rangeValue", "rangeOperand", "send", "mapStore", "litElem", "box", "recvValue", "methodValue", "ifaceCall",
            "assign", "ptrStore", "elemStore", "fieldStore", "reassign", "reassign", "boundRecv", "boundRecv"]


# ---- aliasing probes (no Lean value model: pointers/closures; native Go is the specification) -----------------------

def gen_alias_probe(pid, rng, types, forced=None):
    pr = Probe(pid, rng, types)
    pr.model = None
    T = types.gen(rng.choice([1, 2, 3]), spine=True)
    kind = forced or rng.choice(ALIASES)
    pr.ctx = "alias:" + kind
    B = pr.body
    sps = spine_paths(T)
    p = rng.choice(sps)
    U = subtype(T, p)
    q1, l1 = pr.rand_leaf(U)
    q2, l2 = pr.rand_leaf(T)

    def fill(t, expr, base=0):
        for i, (lp, lt) in enumerate(leaves(t)):
            B.append("%s%s = %s" % (expr, sel(t, lp), setv(lt, base + i + 1)))

    if kind in ("ptr-field", "ptr-global", "closure"):
        if kind == "ptr-global":
            pr.top.append("var ga%d %s" % (pid, T["go"]))
            x = "ga%d" % pid
        else:
            B.append("var x %s" % T["go"])
            x = "x"
        fill(T, x)
        if kind == "closure":
            B.append("y := %s" % x)
            B.append("f := func() { %s%s = %s }" % (x, sel(T, p + q1), setv(l1, 100)))
            B.append("g := func() { y%s = %s }" % (sel(T, q2), setv(l2, 200)))
            B.append("f()\ng()")
            pr.dump(T, x)
            pr.dump(T, "y")
        else:
            leafptr = rng.random() < 0.4 and l1["k"] == "i"
            if leafptr:
                B.append("p := &%s%s" % (x, sel(T, p + q1)))
                B.append("*p = 100")
                pr.dump(T, x)
                B.append("%s%s = 300" % (x, sel(T, p + q1)))
                B.append("println(%d, %d, 0, *p)" % (pid, pr.ndump))
                pr.ndump += 1
            else:
                B.append("p := &%s%s" % (x, sel(T, p)))
                B.append("p%s = %s" % (sel(U, q1), setv(l1, 100)))
                pr.dump(T, x)
                B.append("%s%s = %s" % (x, sel(T, q2), setv(l2, 300)))
                B.append("pp := &%s%s" % (x, sel(T, p)))
                B.append("if p != pp { println(%d, 99, 0, 0) }" % pid)   # pointer identity
                pr.dump(U, "(*p)")
    elif kind in ("slice-elem-ptr", "append-value", "copy-elems", "slice-of-array"):
        Ugo = U["go"]
        B.append("var x %s" % T["go"])
        fill(T, "x")
        xs = "x" + sel(T, p)
        if kind == "slice-elem-ptr":
            B.append("s := make([]%s, 2, 3)" % Ugo)
            fill(U, "s[0]", 300)
            fill(U, "s[1]", 400)
            B.append("p := &s[1]")
            B.append("t := append(s, %s)" % xs)                       # within capacity: shares
            B.append("p%s = %s" % (sel(U, q1), setv(l1, 100)))
            pr.dump(U, "t[1]")
            pr.dump(U, "t[2]")
            B.append("x%s = %s" % (sel(T, p + q1), setv(l1, 500)))
            pr.dump(U, "t[2]")
            B.append("u := append(t, %s)" % xs)                        # beyond capacity: new array
            B.append("p%s = %s" % (sel(U, q1), setv(l1, 600)))
            d = pr.dump(U, "u[1]")
            pr.sigs[d] = SIG_GROW
            pr.dump(U, "s[1]")
            B.append("u[0]%s = %s" % (sel(U, q1), setv(l1, 700)))
            d = pr.dump(U, "t[0]")
            pr.sigs[d] = SIG_GROW
            B.append("println(%d, %d, 0, len(u))" % (pid, pr.ndump)); pr.ndump += 1
        elif kind == "append-value":
            B.append("var s []%s" % Ugo)
            B.append("s = append(s, %s)" % xs)
            B.append("x%s = %s" % (sel(T, p + q1), setv(l1, 100)))
            B.append("s = append(s, %s, %s)" % (xs, xs))
            B.append("s[1]%s = %s" % (sel(U, q1), setv(l1, 200)))
            for k in range(3):
                pr.dump(U, "s[%d]" % k)
            B.append("r := append([]%s(nil), s...)" % Ugo)
            B.append("r[0]%s = %s" % (sel(U, q1), setv(l1, 300)))
            pr.dump(U, "s[0]")
            pr.dump(T, "x")
        elif kind == "copy-elems":
            B.append("s := []%s{%s, %s, %s}" % (Ugo, xs, xs, xs))
            for k in range(3):
                B.append("s[%d]%s = %s" % (k, sel(U, q1), setv(l1, 100 + k)))
            B.append("p := &s[%d]" % rng.randrange(3))
            if rng.random() < 0.5:
                B.append("println(%d, %d, 0, copy(s[1:], s[0:2]))" % (pid, pr.ndump))    # overlapping, backward
            else:
                B.append("println(%d, %d, 0, copy(s[0:2], s[1:]))" % (pid, pr.ndump))    # overlapping, forward
            pr.ndump += 1
            B.append("p%s = %s" % (sel(U, q1), setv(l1, 900)))
            for k in range(3):
                pr.dump(U, "s[%d]" % k)
            B.append("d := make([]%s, 2)" % Ugo)
            B.append("copy(d, s)")
            B.append("d[0]%s = %s" % (sel(U, q1), setv(l1, 800)))
            pr.dump(U, "s[0]")
            pr.dump(U, "d[0]")
        else:
            B.append("a := [3]%s{%s, %s, %s}" % (Ugo, xs, xs, xs))
            B.append("b := a")
            B.append("s := a[1:]")
            B.append("s[0]%s = %s" % (sel(U, q1), setv(l1, 100)))
            B.append("pa := &a")
            B.append("pa[2]%s = %s" % (sel(U, q1), setv(l1, 200)))
            B.append("c := *pa")
            B.append("c[0]%s = %s" % (sel(U, q1), setv(l1, 300)))
            for nm in "abc":
                for k in range(3):
                    pr.dump(U, "%s[%d]" % (nm, k))
    elif kind == "ptr-identity":
        # pointer identity: &x == &x for locals, fields, array / slice elements (also through a subslice and through a
        # pointer to the array), package variables; writes through one alias are read through the other
        ints = [lp for lp, lt in leaves(T) if lt["k"] == "i"]
        d = pr.ndump
        pr.ndump += 1
        k = [0]

        def out(e):
            B.append("println(%d, %d, %d, %s)" % (pid, d, k[0], e))
            k[0] += 1
        B.append("var x %s" % T["go"])
        fill(T, "x")
        if ints:
            lp = rng.choice(ints)
            B.append("p1 := &x%s" % sel(T, lp))
            B.append("px := &x")
            B.append("p2 := &px%s" % sel(T, lp))
            out("p1 == p2")
            B.append("*p2 = 611")
            out("*p1")
            out("x%s" % sel(T, lp))
            other = [q for q in ints if q != lp]
            if other:
                B.append("p3 := &x%s" % sel(T, other[0]))
                out("p1 == p3")
                out("*p3")
        n = rng.randrange(3, 7)
        lo = rng.randrange(0, n - 1)
        i = rng.randrange(lo, n)
        B.append("s := make([]int, %d)" % n)
        B.append("for i := range s { s[i] = i + 1 }")
        B.append("t := s[%d:]" % lo)
        B.append("q1 := &s[%d]" % i)
        B.append("q2 := &t[%d]" % (i - lo))
        out("q1 == q2")
        B.append("*q2 = 622")
        out("*q1")
        out("s[%d]" % i)
        B.append("q3 := &t[%d]" % ((i - lo + 1) % (n - lo)))
        out("q1 == q3")
        B.append("a := [4]int{1, 2, 3, 4}")
        B.append("pa := &a")
        B.append("r1 := &a[%d]" % (i % 4))
        B.append("r2 := &pa[%d]" % (i % 4))
        B.append("r3 := &a[:][%d]" % (i % 4))
        out("r1 == r2")
        out("r1 == r3")
        B.append("*r3 = 633")
        out("*r1")
        out("a[%d]" % (i % 4))
        pr.top.append("var gi%d int\nfunc addr%d() *int { return &gi%d }" % (pid, pid, pid))
        B.append("g1 := &gi%d" % pid)
        out("g1 == addr%d()" % pid)
        B.append("*addr%d() = 644" % pid)
        out("*g1")
        out("gi%d" % pid)
        B.append("l := 5")
        B.append("l1 := &l")
        B.append("l2 := func() *int { return &l }()")
        out("l1 == l2")
        B.append("*l2 = 655")
        out("l")
    elif kind == "shared-ref-leaf":
        # a copied struct shares what its pointer / slice / map fields refer to
        B.append("var x %s" % T["go"])
        fill(T, "x")
        for k, (lp, lt) in enumerate(leaves(T)):
            if lt["k"] == "p":
                B.append("v%d := 7\nx%s = &v%d" % (k, sel(T, lp), k))
        B.append("y := x")
        for lp, lt in leaves(T):
            e = "y" + sel(T, lp)
            if lt["k"] == "p":
                B.append("*%s = 71" % e)
            elif lt["k"] == "l":
                B.append("%s[0] = 72" % e)
            elif lt["k"] == "m":
                B.append("%s[0] = 73" % e)
            elif lt["k"] == "i":
                B.append("%s = 74" % e)
        pr.dump(T, "x")
        pr.dump(T, "y")
    else:
        raise RuntimeError(kind)
    return pr


ALIASES = ["ptr-field", "ptr-global", "ptr-identity", "closure", "slice-elem-ptr", "append-value", "copy-elems", "slice-of-array", "shared-ref-leaf"]


# ---- slice programs over []int with the Lean slice model as predictor ------------------------------------------------

def gen_slice_prog(pid, rng):
    """random program over int slices sharing backing arrays; returns (go lines, driver op)"""
    go, ops = [], []
    cap0 = rng.randrange(1, 8)
    len0 = rng.randrange(0, cap0 + 1)
    go.append("s0 := make([]int, %d, %d)" % (len0, cap0))
    go.append("for i := range s0 { s0[i] = i + 1 }")
    ops.append("mk:%d:%d" % (len0, cap0))
    nvars = 1
    info = [(len0, cap0)]       # static (len, cap) is not tracked exactly after appends; we track it here ourselves
    nd = 0
    val = 100
    for _ in range(rng.randrange(4, 12)):
        k = rng.choice(["sub", "sub", "app", "app", "set", "set", "cpy", "apps"])
        a = rng.randrange(nvars)
        ln, cp = info[a]
        if k == "sub":
            lo = rng.randrange(0, cp + 1)
            hi = rng.randrange(lo, cp + 1)
            three = rng.random() < 0.3
            mx = rng.randrange(hi, cp + 1) if three else None
            go.append("s%d := s%d[%d:%d%s]" % (nvars, a, lo, hi, ":%d" % mx if three else ""))
            ops.append("sub:%d:%d:%d:%s" % (a, lo, hi, "_" if mx is None else mx))
            info.append((hi - lo, (mx if three else cp) - lo))
            nvars += 1
        elif k in ("app", "apps"):
            if k == "app":
                n = rng.choice([1, 1, 2, 3])
                vs = list(range(val, val + n))
                val += n
                go.append("s%d := append(s%d, %s)" % (nvars, a, ", ".join(map(str, vs))))
                ops.append("app:%d:%s" % (a, ilist(vs)))
            else:
                b = rng.randrange(nvars)
                n = info[b][0]
                go.append("s%d := append(s%d, s%d...)" % (nvars, a, b))
                ops.append("apps:%d:%d" % (a, b))
            if ln + n <= cp:
                info.append((ln + n, cp))
            else:
                # reallocated: the new capacity is implementation-defined (Go's size classes differ from GopherJS's rule),
                # so pin it with a 3-index slice before anything can depend on it
                go.append("s%d = s%d[:%d:%d]" % (nvars, nvars, ln + n, ln + n))
                ops.append("clamp:%d:%d" % (nvars, ln + n))
                info.append((ln + n, ln + n))
            nvars += 1
        elif k == "set":
            if ln == 0:
                continue
            i = rng.randrange(ln)
            go.append("s%d[%d] = %d" % (a, i, val))
            ops.append("set:%d:%d:%d" % (a, i, val))
            val += 1
        else:
            b = rng.randrange(nvars)
            go.append("println(%d, %d, 0, copy(s%d, s%d))" % (pid, nd, a, b))
            ops.append("cpy:%d:%d" % (a, b))
            nd += 1
    for v in range(nvars):
        go.append("println(%d, %d, 0, len(s%d))" % (pid, nd, v))
        go.append("for i, e := range s%d { println(%d, %d, i+1, e) }" % (v, pid, nd))
        go.append("_ = s%d" % v)
        ops.append("dump:%d" % v)
        nd += 1
    return go, "slice prog " + ";".join(ops)


def expected_lines(pid, ans):
    """driver answer `c,c,c;c,c` -> println lines"""
    out = []
    if ans in ("none", "bad-op"):
        return out
    for d, cellsv in enumerate(ans.split(";")):
        if cellsv == "-":
            continue
        for i, c in enumerate(cellsv.split(",")):
            out.append("%d %d %d %s" % (pid, d, i, c))
    return out


def build_program(probes):
    top = ["package main", HELPERS]
    seen = set()
    for pr in probes:
        for d in pr.types.decls:
            if d not in seen:
                seen.add(d)
                top.append(d)
    body = []
    for pr in probes:
        top += pr.top
        body.append("func probe%d() {\n\t%s\n}" % (pr.id, "\n\t".join(pr.body)))
    main = "func main() {\n" + "".join("\tprobe%d()\n" % pr.id for pr in probes) + "}"
    return "\n".join(top + body + [main]) + "\n"


def by_probe(lines):
    res = {}
    for l in lines:
        k = l.split(" ", 1)[0]
        res.setdefault(k, []).append(l)
    return res


def canon(lines):
    """order-insensitive within a probe only where the program prints cell by cell (it never reorders): keep order"""
    return lines


def program_tie(chk, tier):
    from . import progs
    rng = chk.rng
    nprog = 40 if tier == "thorough" else 6
    per = 40 if tier == "thorough" else 30
    jobs, meta = [], []
    pid = 0
    for k in range(nprog):
        types = Types(rng, "p%d" % k)
        probes = []
        for j in range(per):
            pid += 1
            r = rng.random()
            if k == 0 and j < len(CONTEXTS):
                probes.append(gen_probe(pid, rng, types, forced=CONTEXTS[j]))           # every context at least once
            elif k == 0 and j < len(CONTEXTS) + len(ALIASES):
                probes.append(gen_alias_probe(pid, rng, types, forced=ALIASES[j - len(CONTEXTS)]))
            elif r < 0.6:
                probes.append(gen_probe(pid, rng, types))
            elif r < 0.85:
                probes.append(gen_alias_probe(pid, rng, types))
            else:
                pr = Probe(pid, rng, types)
                pr.body, op = gen_slice_prog(pid, rng)
                pr.model = None
                pr.sliceop = op
                pr.ctx = "slice-prog"
                probes.append(pr)
        src = build_program(probes)
        jobs.append({"id": "alias%d" % k, "files": {"main.go": src}, "variants": ["plain", "minify"], "native": True, "timeout": 300})
        meta.append(probes)
    # model predictions
    mops, mref = [], []
    for probes in meta:
        for pr in probes:
            if pr.model is not None:
                prog = ";".join(pr.model)
                mops.append("heap js " + prog)
                mref.append((pr, "js"))
                mops.append("heap go " + prog)
                mref.append((pr, "go"))
            elif getattr(pr, "sliceop", None):
                mops.append(pr.sliceop)
                mref.append((pr, "slice"))
    mans = C.run_driver("C07", mops)
    for (pr, which), ans, op in zip(mref, mans, mops):
        if ans == "bad-op":
            raise RuntimeError("driver rejected a generated program: " + op[:300])
        setattr(pr, "pred_" + which, expected_lines(pr.id, ans))
    res = progs.run_jobs(jobs, par=3, timeout=7200)
    # a timed-out job is re-run alone before it means anything (the machine is shared)
    for i, (j, r) in enumerate(zip(jobs, res)):
        if any(r["runs"].get(v, {}).get("class") == "timeout" for v in j["variants"] + ["native"]):
            j2 = dict(j)
            j2["timeout"] = 900
            res[i] = progs.run_jobs([j2], par=1, timeout=7200)[0]
    nprobes = 0
    for j, r, probes in zip(jobs, res, meta):
        nat = progs.observe_native(r["runs"]["native"])
        if nat[1] != "exit0":
            raise RuntimeError("generated program does not build/run natively (%s): %s" % (j["id"], nat[1]))
        natp = by_probe(nat[0])
        for v in j["variants"]:
            obs = progs.observe_js(r["runs"][v])
            if obs[1] == "timeout":
                raise RuntimeError("program %s/%s timed out twice (machine overloaded?)" % (j["id"], v))
            jsp = by_probe(obs[0])
            if obs[1] != "exit0":
                chk.add_mismatch("program:" + v, json.dumps({"id": j["id"], "ending": obs[1], "source": j["files"]["main.go"][:6000]}),
                                 impl=json.dumps([obs[0][-3:], obs[1]]), spec=json.dumps([nat[0][-3:], nat[1]]))
                continue
            for pr in probes:
                key = str(pr.id)
                got, want = jsp.get(key, []), natp.get(key, [])
                nprobes += 1
                chk.add_case("program:" + v, "%s|%d|%s" % (j["id"], pr.id, v), kindkey="probe:%s:%s" % (v, pr.ctx))
                if getattr(pr, "argform", None) and v == "plain":
                    chk.count("argform:" + pr.argform.split("/")[0])
                    chk.count("argcallee:" + pr.argform.split("/")[1])
                src = "func probe%d() {\n\t%s\n}\n%s" % (pr.id, "\n\t".join(pr.body), "\n".join(pr.top))
                pred_js = getattr(pr, "pred_js", None)
                pred_go = getattr(pr, "pred_go", None)
                pred_sl = getattr(pr, "pred_slice", None)
                # model validation: the Go-side semantics (spec) must agree with native Go — else the MODEL is wrong
                if pred_go is not None and pred_go != want:
                    raise RuntimeError("spec model (GV.Spec.GoValue) disagrees with native Go on probe %d (%s):\n%s\nmodel %s\nnative %s" % (
                        pr.id, pr.ctx, src, pred_go, want))
                if pred_sl is not None and pred_sl != want:
                    raise RuntimeError("slice model disagrees with native Go on probe %d:\n%s\nmodel %s\nnative %s" % (pr.id, src, pred_sl, want))
                if got != want:
                    # which dumps differ?
                    dd = sorted({l.split()[1] for l in set(got) ^ set(want)})
                    sigs = {pr.sigs.get(int(d)) for d in dd}
                    sig = sigs.pop() if len(sigs) == 1 else None
                    if sig is not None and pred_js is not None and pred_js != got:
                        sig = None          # not the recorded defect: the model of the defect predicts something else
                    chk.add_mismatch("program:" + v, json.dumps({"id": j["id"], "probe": pr.id, "context": pr.ctx, "go": src[:4000],
                                                                 "model_program": ";".join(pr.model) if pr.model else getattr(pr, "sliceop", None)}),
                                     impl=json.dumps(got[:60]), spec=json.dumps(want[:60]), signature=sig,
                                     model=json.dumps(pred_js[:60]) if pred_js is not None else None)
                if pred_js is not None and pred_js != got:
                    chk.add_tie_break("program-model:" + v, json.dumps({"id": j["id"], "probe": pr.id, "context": pr.ctx, "go": src[:4000],
                                                                         "model_program": ";".join(pr.model)}),
                                      impl=json.dumps(got[:60]), model=json.dumps(pred_js[:60]))
    chk.extra["programs"] = len(jobs)
    chk.extra["probes_per_program"] = per
    chk.extra["probe_runs"] = nprobes


# ------------------------------------------------------------------------------------------
# (c) clone emission sites of the compiler vs the anchors of cloneAt
# ------------------------------------------------------------------------------------------

# function -> contexts of `cloneAt` anchored there (emission of `$clone(`, `.copy(`, or a call of
# translateImplicitConversionWithCloning). A site appearing/disappearing breaks the tie -> search.
EXPECTED_SITES = {
    ("expressions.go", "translateExpr", "translateImplicitConversionWithCloning"): 5,   # composite literal elements / keys
    ("expressions.go", "makeReceiver", "translateImplicitConversionWithCloning"): 1,     # recvValue, methodValue
    ("expressions.go", "translateConversion", "translateImplicitConversionWithCloning"): 1,
    ("expressions.go", "translateImplicitConversionWithCloning", "$clone("): 1,
    ("expressions.go", "translateImplicitConversion", "$clone("): 2,                     # box: array, struct
    ("statements.go", "translateStmt", "translateImplicitConversionWithCloning"): 3,     # send, select-send, range operand
    ("statements.go", "translateAssign", "translateImplicitConversionWithCloning"): 2,   # map store key + value
    ("statements.go", "translateAssign", "$clone("): 1,                                   # define
    ("statements.go", "translateAssign", ".copy("): 1,                                    # assign (in place)
    ("utils.go", "translateArgs", "translateImplicitConversionWithCloning"): 1,          # arg
    # translateArgs: EVERY argument is cloned, unconditionally (no per-form shortcut)
    ("utils.go", "translateArgs", "arg-translation: translateImplicitConversionWithCloning(argExpr, sigTypes.Param(i, ellipsis)) <= "): 1,
    # makeReceiver: the receiver copy is decided by the METHOD's declared receiver type, not by the operand's type
    ("expressions.go", "makeReceiver", "receiver-clone-by: methodsRecvType"): 1,
    ("expressions.go", "makeReceiver", "receiver-clone-type: methodsRecvType := sel.Obj().Type().(*types.Signature).Recv().Type()"): 1,
    # translateAssign's decision "copy in place vs rebind": the guarded returns that precede / contain `T.copy(dst, src)`
    ("statements.go", "translateAssign", 'return-before-copy: l, ok := lhs.(*ast.IndexExpr); ok && t, ok := fc.typeOf(l.X).Underlying().(*types.Map); ok => `%s = %s; (%s || $throwRuntimeError("assignment to entry in nil map")).set(%s.keyFor(%s), { k: %s, v: %s });`'): 1,
    ("statements.go", "translateAssign", 'return-before-copy: _, ok := rhs.(*ast.CompositeLit); ok && define => "%s = %s;"'): 1,    # the ONLY rebind: `x := T{...}`
    ("statements.go", "translateAssign", 'return-before-copy: !isReflectValue && switch lhsType.Underlying().(type) case *types.Array,*types.Struct && define => "%s = $clone(%s, %s);"'): 1,
    ("statements.go", "translateAssign", 'return-before-copy: !isReflectValue && switch lhsType.Underlying().(type) case *types.Array,*types.Struct => "%s.copy(%s, %s);"'): 1,
    ("functions.go", "translateFunctionBody", "$clone("): 1,                              # boundCall, ifaceCall (callee prologue)
}


def clone_sites_tie(chk):
    C.build_gvh("gvh_c07")
    out = C.run_gvh(["sites", os.path.join(C.REPO, "compiler")], name="gvh_c07")
    if out.returncode != 0:
        raise RuntimeError("gvh_c07 sites failed: " + out.stderr[-2000:])
    got = {}
    lines = [l for l in out.stdout.split("\n") if l.strip()]
    for l in lines:
        f, fn, what, line = l.split("\t")
        got[(f, fn, what)] = got.get((f, fn, what), 0) + 1
    chk.extra["clone_sites"] = lines
    ok = True
    for key in sorted(set(got) | set(EXPECTED_SITES)):
        chk.add_case("clone-sites", "|".join(key), kindkey="clone-site")
        if got.get(key, 0) != EXPECTED_SITES.get(key, 0):
            ok = False
            chk.add_tie_break("clone-sites", "%s:%s emits %s" % key, impl=str(got.get(key, 0)), model=str(EXPECTED_SITES.get(key, 0)))
    return ok


# ------------------------------------------------------------------------------------------

def gen_clone_ops(tier, rng):
    ops = []
    tb = Types(rng, "u")
    for _ in range(3000 if tier == "thorough" else 300):
        t = tb.gen(rng.choice([1, 2, 3, 4]), spine=True)
        if len(leaves(t)) <= 120:
            ops.append("heap clone " + token(t))
    return sorted(set(ops))


def run(tier, seed):
    chk = C.Check("C07", tier, seed)
    chk.rule = ("(a) ops = calls of the real prelude slice helpers on slice objects built with the real type constructors "
                "([]int typed-array backing, []interface{} plain array, []struct{x int} struct elements): every index triple "
                "around the bounds for small headers, every pair of windows of a small array for copy (both overlap "
                "directions), seeded random headers/operands for append/appendSlice incl. the 1024 growth threshold; "
                "$clone on random type shapes (nesting <= 4). (b) generated Go programs of alias probes: random type shapes "
                "(nesting <= 4, embedding, named array/struct types, arrays of structs of arrays, pointer/slice/map/interface "
                "leaves), one copy context or aliasing context per probe, a mutation on each side, a dump of both sides; "
                "GopherJS (plain, minify) vs native Go vs the Lean model's prediction. A case is non-trivial when distinct.")
    chk.trusted = ["Lean 4.33 kernel; axioms propext, Classical.choice, Quot.sound at most",
                   "GV.Model.Slice / GV.Model.Heap are hand transcriptions of prelude.js / types.js / the translator's clone placement, "
                   "tied by the differential runs of this check",
                   "GV.Spec.Slice, GV.Spec.GoValue = my reading of the Go specification, validated against native Go on every probe"]
    chk.assumptions = ["the 1500-line expression translator applies the clone table at every AST shape: covered by generated programs only",
                       "typed-array `set` is ECMAScript memmove; V8 implements it",
                       "pointers ($get/$set pairs, $ptr_ caches, $indexPtr), closures and maps are not modelled in Lean: "
                       "aliasing probes compare GopherJS with native Go only",
                       "array pointers obtained from slices (subarray views sharing a buffer) are outside GV.Model.Heap"]
    chk.proof = C.check_proofs("C07", THEOREMS, tier)
    # (a) unit level
    pairs = gen_slice_ops(tier, chk.rng)
    with_spec = [(o, s) for o, s in pairs if s is not None]
    ops = [o for o, _ in with_spec]
    sops = [s for _, s in with_spec]
    impl = C.run_node(ops)
    model = C.run_driver("C07", ops)
    spec = C.run_driver("C07", sops)
    chk.compare("prelude-slice", ops, impl, model, spec=spec, signature=grow_sig, kind=slice_kind)
    mops = [o for o, s in pairs if s is None]
    chk.compare("prelude-slice-impldefined", mops, C.run_node(mops), C.run_driver("C07", mops), kind=slice_kind)
    cops = gen_clone_ops(tier, chk.rng)
    chk.compare("prelude-clone", cops, C.run_node(cops), C.run_driver("C07", cops),
                kind=lambda o, a: "clone:cells=%s" % min(64, 1 << (int(a.split()[0][2:]).bit_length())))
    # $indexPtr: element pointers keep identity (per array / per ArrayBuffer cache) and alias the element
    pops = []
    for k in "tp":
        for n in (1, 3, 5):
            for off in range(n):
                for i in range(n):
                    for j in range(n - off):
                        pops.append("ptr index %s %d %d %d %d %d" % (k, n, off, i, j, chk.rng.randrange(100, 999)))
    chk.compare("prelude-indexptr", pops, C.run_node(pops), C.run_driver("C07", pops),
                kind=lambda o, a: "indexptr:%s:%s" % (o.split()[2], a.split()[0]))
    # (c) clone emission sites
    sites_ok = clone_sites_tie(chk)
    # (b) programs
    program_tie(chk, "thorough" if not sites_ok else tier)
    return chk.finish()


def replay(path):
    rep = json.load(open(path))
    bad = 0
    for m in rep.get("failing_inputs", []):
        op = m["op"]
        print("tie:", m.get("tie"))
        if op.startswith("slice ") or op.startswith("heap "):
            impl = C.run_node([op])[0]
            model = C.run_driver("C07", [op])[0]
            print("%s\n  impl : %s\n  model: %s\n  spec (recorded): %s" % (op, impl, model, m.get("spec")))
            bad += impl != m.get("spec")
        else:
            from . import progs
            d = json.loads(op)
            print(d.get("go") or d.get("source"))
            print("  impl (recorded):", m.get("impl"))
            print("  spec (recorded):", m.get("spec"))
            bad += 1
    if not rep.get("failing_inputs"):
        print("no failing input recorded; broken obligations:", rep.get("broken_obligations"))
        return 1
    return 1 if bad else 0
