"""C02 — suspending and resuming a goroutine is invisible to the program.

Proof: GV.Props.C02 (flattened switch-case translation = reference semantics under every suspension schedule;
saved frame complete; blocking set = least fixed point for every propagation order).
Ties (all on REAL compiled artefacts, built from the repo's working tree by harness/cmd/gvh_c02):
  O  program P (no yields) under Node  vs  P' (yields inserted) under Node for many schedules (one artefact, schedule in
     GV_SCHED)  vs  the Lean driver's flattened-machine trace  vs  native Go;
  I1 `case N:` / `$s = N` skeleton of every flattened MiniGo function of P' vs `GV.Flat.flatten`;
  I2 `$f = {...}` list = `$restore` list, and it contains every identifier assigned in the function and every model local;
  I3 `Decl.Blocking` of every function of P and P' — in multi-package programs also of every instance of the generic
     functions / methods of the imported package `lib` (instantiated with types of package main whose methods yield only
     through chains of named calls declared callers-first) — vs `GV.Blocking.blocking` (least fixed point) on the
     generated whole-program call graph;
  I4 the variables boxed by `x = [x];` in every generated function of P and P' vs `GV.Escape.boxed` (escape-analysis rule);
  I5 the guard at the head of the real `$callDeferred` (prelude under Node, asleep goroutine, deferStack depth 1-4, own list
     at every position or absent) vs `GV.RetDefer.guardAnywhere`.
"""
import json
import re
import shutil

from . import common as C

THEOREMS = ["propagate_lfp", "propagate_order_irrelevant", "flatten_labels_nodup", "block_compile", "segmentation",
            "flatten_correct", "saved_complete", "flatten_correct_frame", "saved_incomplete_counterexample",
            "erase_correct", "machine_exec_sound", "interp_sound", "return_resume", "return_reeval_counterexample",
            "panic_resume_counterexample", "panic_resume_partial", "flatten_correct_defer_partial", "callDefF_sound",
            "andor_flat", "args_order", "captured_cells_shared", "captured_write_visible", "boxing_rule_sufficient",
            "boxing_header_skipped_counterexample", "args_order_all", "args_order_first_only_counterexample",
            "stops_early_underapprox", "partial_iteration_unsound", "suspend_saves_all_defer_frames",
            "suspend_top_only_counterexample"]

MODV = 1009
ZERO = 12          # pseudo variable: constant 0
LEAF_KINDS = ["direct", "method", "ptrmethod", "methodvalue", "methodexpr", "iface", "funcvalue", "generic", "closure",
              "defer", "deferpanic", "deferdirect", "embedded"]
DYNAMIC_LEAF = {"methodvalue", "iface", "funcvalue", "closure"}       # intrinsically blocking call sites
FN_KINDS = ["direct", "direct", "funcvalue", "method"]
# multi-package programs only: generic function / method of a generic type / generic calling a generic, all declared in
# the IMPORTED package `lib` and instantiated with a type of package main whose method Step yields transitively
X_KINDS = ["xfunc", "xmethod", "xvia"]
X_DECL = {"xfunc": "lib.Apply<W%d>", "xmethod": "lib.Box.Run<W%d>", "xvia": "lib.ApplyVia<W%d>"}


def vname(v):
    if v == ZERO:
        return "0"
    return "v%d" % v if v < 8 else "g%d" % (v - 8)


# --------------------------------------------------------------------------------------
# generation of a MiniGo program (term first, Go source second)
# --------------------------------------------------------------------------------------

class Gen:
    def __init__(self, rng, size):
        self.rng = rng
        self.size = size
        self.acts = []      # (dst,x,y,k,p, ysite|None)
        self.conds = []     # (x,k,m,t,p, (op,ysite)|None)
        self.calls = []     # dict(kind, callee, arg, dst, k, go)
        self.nsites = 0
        self.nlabels = 0
        self.fns = []       # dict(body, exprY, dfn)
        self.dops = []      # deferred closures: dict(ops, go)
        self.ncap = 0
        self.mp = False     # multi-package program (package main + generic package lib)
        self.wchains = []   # per type W_j of package main: number of named calls between Step and the yielding function
        self.plan = []      # plan[fi] = True: function fi is a D function (deferred calls, blocking return)
        self.kinds = {}

    def count(self, k):
        self.kinds[k] = self.kinds.get(k, 0) + 1

    def site(self):
        s = self.nsites
        self.nsites += 1
        return s

    def anyvar(self):
        return self.rng.choice([0, 1, 2, 3, 8, 9, 10, 11, ZERO])

    def dstvar(self):
        return self.rng.choice([0, 1, 1, 2, 3, 8, 9, 10, 11])

    def new_act(self, dst=None, x=None, y=None, k=None, p=None, exprY=False):
        r = self.rng
        ys = None
        if exprY and r.random() < 0.35 and self.nsites < 60:
            ys = self.site()
        a = (self.dstvar() if dst is None else dst, self.anyvar() if x is None else x, self.anyvar() if y is None else y,
             r.randrange(0, 30) if k is None else k, (1 if r.random() < 0.8 else 0) if p is None else p, ys)
        self.acts.append(a)
        return len(self.acts) - 1

    def new_cond(self, x=None, k=None, m=None, t=None, p=None, exprY=False):
        r = self.rng
        m = r.choice([2, 3, 4, 5]) if m is None else m
        ys = None
        if exprY and r.random() < 0.4 and self.nsites < 60:
            ys = (r.choice(["&&", "||"]), self.site())
        c = (self.anyvar() if x is None else x, r.randrange(0, 9) if k is None else k, m,
             r.randrange(1, m) if t is None else t, (1 if r.random() < 0.5 else 0) if p is None else p, ys)
        self.conds.append(c)
        return len(self.conds) - 1

    def new_leaf(self, arg=None, dst=None, k=None, go=None):
        if go is None and self.mp and self.rng.random() < 0.5:
            go = self.rng.choice(X_KINDS)
        go = go or self.rng.choice(LEAF_KINDS)
        self.count("leaf:" + go)
        c = dict(kind=0, callee=self.site(), arg=self.anyvar() if arg is None else arg,
                 dst=self.dstvar() if dst is None else dst, k=self.rng.randrange(0, 9) if k is None else k, go=go)
        if go in X_KINDS:
            c["w"] = self.rng.randrange(len(self.wchains))
        self.calls.append(c)
        return len(self.calls) - 1

    def new_fncall(self, j):
        go = self.rng.choice(FN_KINDS)
        self.count("fn:" + go)
        c = dict(kind=1, callee=j, arg=self.anyvar(), dst=self.dstvar(), k=0, go=go)
        self.calls.append(c)
        return len(self.calls) - 1

    def new_yield(self):
        self.count("yieldstmt")
        c = dict(kind=2, callee=self.site(), arg=0, dst=0, k=0, go="yield")
        self.calls.append(c)
        return len(self.calls) - 1

    def new_dfncall(self, j):
        self.count("fn:dfn")
        c = dict(kind=3, callee=j, arg=self.anyvar(), dst=self.dstvar(), k=0, go="direct")
        self.calls.append(c)
        return len(self.calls) - 1

    def new_closure(self, dfn, recover=False, must_yield=False):
        """a deferred call of a D function: op list over the locals the return expression reads"""
        r = self.rng
        vars_ = [0, 1, 2] + ([6] if dfn["named"] else []) + ([7] if dfn["named"] and dfn["nres"] == 2 else [])
        go = "closure" if recover else r.choice(["closure", "closure", "direct", "method"])
        self.count("defer:" + go)
        if go == "direct":
            v = r.choice([0, 1, 2])
            ops = [("m", v, 1, r.randrange(1, 30)), ("y", self.site()), ("m", v, 2, 0)]
        elif go == "method":
            v = r.choice([0, 1, 2])
            ops = [("m", v, 1, r.randrange(1, 30)), ("y", self.site())]
        else:
            ops = [("r",)] if recover else []
            n = r.randrange(1, 5)
            yielded = False
            for i in range(n):
                k = r.random()
                if k < 0.5:
                    ops.append(("m", r.choice(vars_), r.choice([1, 2, 3]), r.randrange(0, 30)))
                elif k < 0.85 and self.nsites < 60:
                    ops.append(("y", self.site()))
                    yielded = True
                else:
                    ops.append(("p", len(self.dops), r.choice(vars_)))
            if must_yield and not yielded:
                ops.insert(r.randrange(1 if recover else 0, len(ops) + 1), ("y", self.site()))
            if not any(o[0] == "m" for o in ops):
                ops.insert(r.randrange(1 if recover else 0, len(ops) + 1), ("m", r.choice(vars_), 2, r.randrange(1, 30)))
        self.dops.append(dict(ops=ops, go=go))
        return len(self.dops) - 1

    def new_return(self, dfn):
        """`return e1[, e2]` of a D function: call-free expressions over params / locals (results = locals 6, 7)"""
        r = self.rng
        acts = []
        for slot in range(dfn["nres"]):
            shape = r.random()
            x = r.choice([0, 1, 2])
            if shape < 0.5:
                acts.append(self.new_act(dst=6 + slot, x=x, y=ZERO, k=0, p=0))          # return x
            elif shape < 0.75:
                acts.append(self.new_act(dst=6 + slot, x=x, y=ZERO, k=r.randrange(1, 9), p=0))   # return x + k
            else:
                acts.append(self.new_act(dst=6 + slot, x=x, y=r.choice([0, 1, 2]), k=r.randrange(0, 9), p=0))
        self.count("dreturn:%s:%d" % ("named" if dfn["named"] else "unnamed", dfn["nres"]))
        return ("RD", acts)

    # ctx: dict(fi, nf, depth, ld (loop depth), loops [(label|None, ref list)], brk [(label|None, ref list)], exprY, budget)
    def stmts(self, ctx, n, tail_branch=True):
        out = []
        for i in range(n):
            if ctx["budget"][0] <= 0:
                break
            last = i == n - 1
            out.append(self.stmt(ctx, last and tail_branch))
        return out

    def stmt(self, ctx, may_branch):
        r = self.rng
        ctx["budget"][0] -= 1
        d = ctx["depth"]
        w = {"act": 5, "leaf": 3, "yield": 2, "multi": 1.2}
        if ctx["fi"] + 1 < ctx["nf"]:
            w["fn"] = 2
        dfn = ctx.get("dfn")
        if dfn:
            w["defer"] = 1.2
            w["return"] = 1.0
        if d < 3:
            w["if"] = 3
            w["switch"] = 2
            w["block"] = 0.4
            if ctx["ld"] < 2:
                w["loop"] = 2.5
                w["caploop"] = 1.6
        if may_branch:
            if ctx["brk"]:
                w["break"] = 1.5
            if ctx["loops"]:
                w["continue"] = 1.5
            if d > 0:
                w["return"] = 0.5 if not ctx.get("dfn") else 1.5
        ks = list(w)
        k = r.choices(ks, [w[x] for x in ks])[0]
        self.count("stmt:" + k)
        if k == "act":
            return ("A", self.new_act(exprY=ctx["exprY"]))
        if k == "multi":
            return self.gen_multi(ctx)
        if k == "leaf":
            return ("C", self.new_leaf())
        if k == "yield":
            return ("C", self.new_yield())
        if k == "fn":
            j = r.randrange(ctx["fi"] + 1, ctx["nf"])
            if self.plan[j]:
                return ("C", self.new_dfncall(j))
            return ("C", self.new_fncall(j))
        if k == "defer":
            return ("DEFER", self.new_closure(dfn, must_yield=r.random() < 0.5))
        if k == "block":
            return ("{", self.stmts(dict(ctx, depth=d + 1), r.randrange(1, 3)))
        if k == "return":
            if dfn:
                if dfn["panics"] and r.random() < 0.4:
                    self.count("dpanic")
                    return ("PANIC",)
                return self.new_return(dfn)
            return ("R",)
        if k == "break":
            cands = [x for x in ctx["brk"] if x[0] is not None]
            if cands and r.random() < 0.4:
                lab, refs = r.choice(cands)
                refs.append(1)
                return ("B", lab)
            return ("B", None)
        if k == "continue":
            cands = [x for x in ctx["loops"] if x[0] is not None]
            if cands and r.random() < 0.4:
                lab, refs = r.choice(cands)
                refs.append(1)
                return ("T", lab)
            return ("T", None)
        if k == "if":
            return self.gen_if(ctx, r.randrange(1, 4))
        if k == "switch":
            return self.gen_switch(ctx)
        if k == "loop":
            return self.gen_loop(ctx)
        if k == "caploop":
            return self.gen_caploop(ctx)
        raise AssertionError(k)

    def gen_if(self, ctx, nclauses):
        r = self.rng
        c2 = dict(ctx, depth=ctx["depth"] + 1)
        c = self.new_cond(exprY=ctx["exprY"])
        then = self.stmts(c2, r.randrange(1, 3))
        if nclauses > 1:
            els = self.gen_if(ctx, nclauses - 1)
        elif r.random() < 0.5:
            els = ("{", self.stmts(c2, r.randrange(1, 3)))
        else:
            els = None
        return ("I", c, then, els)

    def new_label(self):
        self.nlabels += 1
        return self.nlabels

    def gen_switch(self, ctx):
        r = self.rng
        lab = self.new_label() if r.random() < 0.4 else None
        refs = []
        c2 = dict(ctx, depth=ctx["depth"] + 1, brk=ctx["brk"] + [(lab, refs)])
        ncl = r.randrange(1, 4)
        clauses = []
        for _ in range(ncl):
            clauses.append((self.new_cond(exprY=ctx["exprY"]), self.stmts(c2, r.randrange(1, 3))))
        default = self.stmts(c2, r.randrange(1, 3)) if r.random() < 0.6 else None
        if default is not None and len(default) == 0:
            default = None
        # fallthrough flags (never on the textually last clause)
        nlast = len(clauses) - 1 if default is None else len(clauses)
        ft = [i < nlast and r.random() < 0.25 for i in range(len(clauses))]
        if any(ft):
            self.count("switch:fallthrough")
        return ("W", lab if refs else None, clauses, default, ft)

    def gen_loop(self, ctx):
        r = self.rng
        ld = ctx["ld"]
        cv = 4 + ld
        lab = self.new_label() if r.random() < 0.5 else None
        refs = []
        bound = r.randrange(1, 4)
        variant = r.choice(["post-act", "post-act", "post-call", "cond-only", "forever"])
        self.count("loop:" + variant)
        init = ("A", self.new_act(dst=cv, x=ZERO, y=ZERO, k=0, p=0))
        cond = self.new_cond(x=cv, k=0, m=MODV, t=bound, p=1 if r.random() < 0.3 else 0, exprY=False)
        c2 = dict(ctx, depth=ctx["depth"] + 1, ld=ld + 1, loops=ctx["loops"] + [(lab, refs)], brk=ctx["brk"] + [(lab, refs)])
        pre = []
        post = None
        lc = cond
        if variant == "post-act":
            post = ("a", self.new_act(dst=cv, x=cv, y=ZERO, k=1, p=0))
        elif variant == "post-call":
            post = ("c", self.new_leaf(arg=cv, dst=cv, k=1, go=r.choice([k for k in LEAF_KINDS if k != "deferpanic"])))
        elif variant == "cond-only":
            pre = [("A", self.new_act(dst=cv, x=cv, y=ZERO, k=1, p=0))]
        else:
            lc = None
            # if !(cv < bound) { break }  — rendered with the negated condition: (cv + (MODV - bound)) % MODV < MODV - bound
            nc = self.new_cond(x=cv, k=MODV - bound, m=MODV, t=MODV - bound, p=0, exprY=False)
            pre = [("I", nc, [("B", None)], None), ("A", self.new_act(dst=cv, x=cv, y=ZERO, k=1, p=0))]
        body = pre + self.stmts(c2, r.randrange(1, 4))
        return ("{", [init, ("L", lab if refs else None, lc, post, body)])

    def gen_multi(self, ctx):
        """dst = pick(k, e1, …, en): 3-5 arguments, two or more of them yield, traced non-yielding arguments between
        and after them; callee direct / variadic / method; evaluation order must be left to right"""
        r = self.rng
        n = r.randrange(3, 6)
        kinds = [r.choice(["tr", "yt", "yt", "var"]) for _ in range(n)]
        while sum(k == "yt" for k in kinds) < 2:
            kinds[r.randrange(n)] = "yt"
        if r.random() < 0.6:            # a traced non-yielding argument BETWEEN two yielding ones
            i = r.randrange(0, n - 2)
            kinds[i], kinds[i + 1], kinds[i + 2] = "yt", "tr", "yt"
        args = []
        for kd in kinds:
            v = self.anyvar()
            if kd == "var":
                args.append(("var", v, None, None))
            else:
                a = self.new_act(dst=0, x=v, y=ZERO, k=0, p=2)          # trace act: println("t", id, v)
                site = self.new_yield() if kd == "yt" and self.nsites < 60 else None
                args.append(("yt" if site is not None else "tr", v, a, site))
        fin = self.new_act(dst=self.dstvar(), x=args[0][1], y=args[1][1], k=r.randrange(0, 30), p=1)
        kinds_ = ["direct", "variadic", "method", "go"] + (["defer", "defer"] if ctx.get("dfn") else [])
        go = r.choice(kinds_)
        self.count("multi:%s:%d" % (go, sum(a[0] == "yt" for a in args)))
        if go == "defer":
            # `defer sinkD(id, e1, …)`: the arguments are evaluated (in order) at the defer statement, the call prints
            # its id when the function returns
            self.dops.append(dict(ops=[("pc", len(self.dops))], go="multi"))
            return ("MULTI", args, fin, go, len(self.dops) - 1)
        if go == "go":
            # `go sinkG(e1, …)`: the arguments are evaluated at the go statement; the new goroutine does nothing
            return ("MULTI", args, fin, go, None)
        # a call with a blocking argument is itself marked Blocking (markBlocking marks the whole visitor stack), so the
        # outer call gets a resume block although its callee never suspends
        return ("MULTI", args, fin, go, self.new_localcall(fin))

    def new_localcall(self, actid):
        """call of a local closure whose body is action `actid` (call through a function-typed variable)"""
        c = dict(kind=4, callee=actid, arg=0, dst=0, k=0, go="localclosure")
        self.calls.append(c)
        return len(self.calls) - 1

    def gen_caploop(self, ctx):
        """a loop whose HEADER variables (for-init variable, range key / value) and body variable are captured by
        closures / address-taken before a yield and used after it, with writes on both sides; a closure stored in the
        loop is called after the loop"""
        r = self.rng
        ld = ctx["ld"]
        cv = 4 + ld
        used = ctx.get("capused", frozenset())
        free = [x for x in (6, 7) if x not in used]
        kind = "range" if len(free) == 2 and r.random() < 0.45 else "for3"
        self.count("caploop:" + kind)
        self.ncap += 1
        capid = self.ncap
        lab = self.new_label() if r.random() < 0.3 else None
        refs = []
        bound = r.randrange(2, 4)
        init = self.new_act(dst=cv, x=ZERO, y=ZERO, k=0, p=0)
        cond = self.new_cond(x=cv, k=0, m=MODV, t=bound, p=0, exprY=False)
        names = {}
        pre = []
        K = r.randrange(1, 20)
        if kind == "range":
            names[6], names[7] = "k6", "e7"
            pre.append(("APRE", self.new_act(dst=6, x=cv, y=ZERO, k=0, p=0), None))
            pre.append(("APRE", self.new_act(dst=7, x=cv, y=ZERO, k=K, p=0), None))
            taken = {6, 7}
            post = ("a", self.new_act(dst=cv, x=cv, y=ZERO, k=1, p=0))
            capvars = [6, 7]
            writable = [6, 7]
        else:
            names[cv] = "i%d" % cv
            taken = set()
            capvars = [cv, cv]
            writable = []
            if free:
                w = free[0]
                names[w] = "w%d" % w
                taken = {w}
                pre.append(("APRE", self.new_act(dst=w, x=cv, y=r.choice([0, 1, 2, 3, ZERO]), k=r.randrange(0, 20), p=0), "decl"))
                capvars.append(w)
                writable.append(w)
            if r.random() < 0.3:
                post = ("c", self.new_leaf(arg=cv, dst=cv, k=1, go=r.choice([k for k in LEAF_KINDS if k != "deferpanic"])))
            else:
                post = ("a", self.new_act(dst=cv, x=cv, y=ZERO, k=1, p=0))
        if r.random() < 0.5:
            fv_ = r.choice([1, 2, 3])
            capvars.append(fv_)
            writable.append(fv_)
        info = dict(kind=kind, cv=cv, init=init, names=names, bound=bound, K=K, capid=capid, defs=[], hold=None)
        c2 = dict(ctx, depth=ctx["depth"] + 1, ld=ld + 1, loops=ctx["loops"] + [(lab, refs)], brk=ctx["brk"] + [(lab, refs)],
                  capused=frozenset(used | taken))
        uses = []
        for j in range(r.randrange(2, 6)):
            mode = r.choice(["w-closure", "w-ptr", "r-closure", "r-ptr"])
            v = r.choice(capvars)
            name = "c%d_%d" % (capid, j)
            if mode.startswith("w"):
                if v == cv:
                    a = self.new_act(dst=cv, x=cv, y=ZERO, k=r.choice([1, 1, 2]), p=1)       # the closure advances the loop variable
                else:
                    a = self.new_act(dst=v, x=r.choice(capvars), y=r.choice([0, 1, 2, ZERO]), k=r.randrange(0, 30), p=1)
            else:
                a = self.new_act(dst=self.dstvar(), x=v, y=r.choice([0, 1, 2, ZERO]), k=r.randrange(0, 30), p=1)
            self.count("capture:" + mode)
            info["defs"].append((mode, name, a))
            uses.append(("AC", a, mode, name, self.new_localcall(a) if mode.endswith("closure") else None))
        hv = r.choice(capvars)
        hold = "hold%d" % capid
        info["hold"] = (hold, hv)
        body = list(pre) + [("CAPDEF", info)]
        body.append(("C", self.new_yield()) if r.random() < 0.6 else ("C", self.new_leaf()))
        body += self.stmts(c2, r.randrange(0, 3), tail_branch=False)
        for i, u in enumerate(uses):
            body.append(u)
            if r.random() < 0.3:
                body.append(("C", self.new_yield()))
        if r.random() < 0.4:
            body += self.stmts(c2, 1)
        ha = self.new_act(dst=self.dstvar(), x=hv, y=ZERO, k=r.randrange(0, 9), p=1)
        after = ("AC", ha, "r-hold", hold, self.new_localcall(ha))
        return ("{", [("HOLDDECL", hold), ("LC", lab if refs else None, cond, post, body, info), after])

    def gen_fn(self, fi, nf):
        exprY = self.rng.random() < 0.25
        ctx = dict(fi=fi, nf=nf, depth=0, ld=0, loops=[], brk=[], exprY=exprY, budget=[self.size])
        body = self.stmts(ctx, self.rng.randrange(2, 6), tail_branch=False)
        body.append(("R",))
        self.fns.append(dict(body=body, exprY=exprY, dfn=None))

    def gen_dfn(self, fi, nf):
        """a function with deferred calls that yield and modify what the return expression reads"""
        r = self.rng
        named = r.random() < 0.35
        # a recovered panic in a function with UNNAMED results loses the result when a deferred call suspends
        # (known finding C02-panic-zero-result-lost-on-resume, replayed separately): the general stream panics only
        # in functions with named results
        dfn = dict(named=named, nres=r.choice([1, 1, 2]), panics=r.random() < (0.6 if named else 0.25))
        self.count("dfn:%s%s" % ("named" if dfn["named"] else "unnamed", ":panics" if dfn["panics"] else ""))
        ctx = dict(fi=fi, nf=nf, depth=0, ld=0, loops=[], brk=[], exprY=False, budget=[min(self.size, 10)], dfn=dfn, capused=frozenset({6, 7}))
        body = []
        if dfn["panics"]:
            body.append(("DEFER", self.new_closure(dfn, recover=True, must_yield=r.random() < 0.5)))
        body.append(("A", self.new_act(dst=1, x=0, y=ZERO, k=r.randrange(1, 30), p=1)))
        body.append(("A", self.new_act(dst=2, x=0, y=1, k=r.randrange(1, 30), p=0)))
        ndef = r.randrange(1, 4)
        for i in range(ndef):
            body.append(("DEFER", self.new_closure(dfn, must_yield=(i == 0 or r.random() < 0.6))))
            if r.random() < 0.5:
                body.append(("A", self.new_act(dst=r.choice([0, 1, 2]), x=r.choice([0, 1, 2]), y=ZERO, k=r.randrange(1, 9))))
        # several frames with PENDING defers live across one suspension: call the next D function (which registers its
        # own defers and then suspends in its body) while this frame's defers are pending; suspend here as well
        later = [j for j in range(fi + 1, nf) if self.plan[j]]
        if later and r.random() < 0.85:
            body.append(("C", self.new_dfncall(later[0])))
        if r.random() < 0.6:
            body.append(("C", self.new_yield()))
        body += self.stmts(ctx, r.randrange(0, 4), tail_branch=False)
        if dfn["panics"] and r.random() < 0.5:
            self.count("dpanic")
            body.append(("PANIC",))
        else:
            body.append(self.new_return(dfn))
        self.fns.append(dict(body=body, exprY=False, dfn=dfn))


def gen_program(rng, size, mp=None):
    g = Gen(rng, size)
    if mp if mp is not None else rng.random() < 0.35:
        g.mp = True
        g.wchains = [rng.randrange(2, 5) for _ in range(rng.randrange(1, 3))]
    nf = rng.randrange(1, 5)
    if nf >= 3 and rng.random() < 0.3:
        g.plan = [fi > 0 for fi in range(nf)]          # a chain of 2-3 nested functions that all hold pending defers
    else:
        g.plan = [fi > 0 and rng.random() < 0.45 for fi in range(nf)]
    for fi in range(nf):
        if g.plan[fi]:
            g.gen_dfn(fi, nf)
        else:
            g.gen_fn(fi, nf)
    # every D function is called at least once (from F0, right before its final return)
    called = {g.calls[s_[1]]["callee"] for f in g.fns for s_ in walk(f["body"]) if s_[0] == "C" and g.calls[s_[1]]["kind"] == 3}
    for j in range(nf):
        if g.plan[j] and j not in called:
            g.fns[0]["body"].insert(len(g.fns[0]["body"]) - 1, ("C", g.new_dfncall(j)))
    return g


# --------------------------------------------------------------------------------------
# static facts the generator knows: call graph, blocking sets
# --------------------------------------------------------------------------------------

LEAF_DECL = {"direct": "main.leafD", "method": "main.T.M", "ptrmethod": "main.PT.M", "methodexpr": "main.T.M",
             "generic": "main.leafG", "defer": "main.leafDefer", "deferpanic": "main.leafDeferPanic",
             "deferdirect": "main.leafDeferDirect", "embedded": "main.T.M"}


def walk(stmts):
    for s in stmts:
        yield s
        k = s[0]
        if k == "{":
            yield from walk(s[1])
        elif k == "I":
            yield from walk(s[2])
            if s[3] is not None:
                yield from walk([s[3]])
        elif k == "MULTI":
            for a in s[1]:
                if a[3] is not None:
                    yield ("C", a[3])
        elif k in ("L", "LC"):
            if s[3] is not None and s[3][0] == "c":
                yield ("C", s[3][1])
            yield from walk(s[4])
        elif k == "W":
            for _, b in s[2]:
                yield from walk(b)
            if s[3] is not None:
                yield from walk(s[3])


def call_graph(g, with_yields):
    """nodes: decl names; returns (intrinsic set, edge list) of the main package as the analysis sees it."""
    intr = set()
    edges = []
    if with_yields:
        intr.add("runtime.Gosched")
        edges.append(("main.yield", "runtime.Gosched"))
        edges.append(("main.yt", "main.yield"))
        for n in ("main.leafD", "main.T.M", "main.PT.M", "main.leafG", "main.mkClo$lit", "main.yb", "main.yf", "main.yi"):
            edges.append((n, "main.yield"))
        edges.append(("main.leafDeferDirect", "main.yield"))
        edges.append(("main.bumpD", "main.yield"))
        edges.append(("main.cell.Bump", "main.yield"))
    for j, depth in enumerate(g.wchains):
        # lib instances -> W_j.Step -> chain of named calls (declared callers first) -> yield
        edges.append(("lib.Apply<W%d>" % j, "main.W%d.Step" % j))
        edges.append(("lib.Box.Run<W%d>" % j, "main.W%d.Step" % j))
        edges.append(("lib.ApplyVia<W%d>" % j, "lib.Apply<W%d>" % j))
        chain = ["main.W%d.Step" % j, "main.W%d.rec" % j] + ["main.chk%d_%d" % (j, i) for i in range(1, depth)]
        for a, b in zip(chain, chain[1:]):
            edges.append((a, b))
        if with_yields:
            edges.append((chain[-1], "main.yield"))
    edges.append(("main.leafDefer", "main.leafDefer$lit"))
    edges.append(("main.leafDefer$lit", "main.leafD"))
    edges.append(("main.leafDeferPanic", "main.leafDeferPanic$lit"))
    edges.append(("main.leafDeferPanic$lit", "main.leafD"))
    edges.append(("main.main", "main.F0"))
    for fi, f in enumerate(g.fns):
        me = "main.F%d" % fi
        if not f["dfn"]:
            edges.append(("main.T.CallF%d" % fi, me))
        for s in walk(f["body"]):
            if s[0] == "AC" and s[4] is not None:
                intr.add(me)
            if s[0] == "MULTI":
                edges.append((me, "main.tr"))
                if s[3] in ("direct", "variadic", "method"):
                    edges.append((me, {"direct": "main.pick", "variadic": "main.pickV", "method": "main.T.Pick"}[s[3]]))
                elif s[3] == "defer":
                    edges.append((me, "main.sinkD"))
                if with_yields and any(a[0] == "yt" for a in s[1]):
                    edges.append((me, "main.yt"))
            if s[0] == "DEFER":
                cl = g.dops[s[1]]
                if cl["go"] == "direct":
                    edges.append((me, "main.bumpD"))
                elif cl["go"] == "method":
                    edges.append((me, "main.cell.Bump"))
                else:
                    lit = "%s$defer%d" % (me, s[1])
                    edges.append((me, lit))
                    if with_yields and any(o[0] == "y" for o in cl["ops"]):
                        edges.append((lit, "main.yield"))
            if s[0] == "C":
                c = g.calls[s[1]]
                if c["kind"] == 0:
                    if c["go"] in X_KINDS:
                        edges.append((me, X_DECL[c["go"]] % c["w"]))
                    elif c["go"] in DYNAMIC_LEAF:
                        intr.add(me)
                    else:
                        edges.append((me, LEAF_DECL[c["go"]]))
                elif c["kind"] == 3:
                    edges.append((me, "main.F%d" % c["callee"]))
                elif c["kind"] == 1:
                    if c["go"] == "funcvalue":
                        intr.add(me)
                    elif c["go"] == "method":
                        edges.append((me, "main.T.CallF%d" % c["callee"]))
                    else:
                        edges.append((me, "main.F%d" % c["callee"]))
                elif with_yields:
                    edges.append((me, "main.yield"))
            if with_yields and f["exprY"]:
                if s[0] == "A" and g.acts[s[1]][5] is not None:
                    edges.append((me, "main.yi"))
                if s[0] == "I" and g.conds[s[1]][5] is not None:
                    edges.append((me, "main.yb" if g.conds[s[1]][5][0] == "&&" else "main.yf"))
                if s[0] == "W":
                    for c, _ in s[2]:
                        if g.conds[c][5] is not None:
                            edges.append((me, "main.yb" if g.conds[c][5][0] == "&&" else "main.yf"))
    return intr, edges


def box_items(g, fi):
    """variables of function fi as the escape analysis sees them: list of (Go name, site, captured)
    site: 0 param, 1 function level, 2 loop header (for-init variable, range key / value), 3 loop body"""
    f = g.fns[fi]
    objs = {}           # object key -> [name, site, captured]

    def obj(env, slot):
        if slot >= 8:
            return None
        return env.get(slot) or ("f", slot)

    for slot in range(8):
        if f["dfn"] and slot in (6, 7) and not f["dfn"]["named"]:
            continue
        if f["dfn"] and slot == 7 and f["dfn"]["nres"] == 1:
            continue
        objs[("f", slot)] = [vname(slot), 0 if slot == 0 else 1, False]

    def cap(env, slot):
        o = obj(env, slot)
        if o is not None and o in objs:
            objs[o][2] = True

    def scan(stmts, env, inloop=False):
        for st in stmts:
            k = st[0]
            if k == "{":
                scan(st[1], env, inloop)
            elif k == "I":
                scan(st[2], env, inloop)
                if st[3] is not None:
                    scan([st[3]], env, inloop)
            elif k == "W":
                for _, b in st[2]:
                    scan(b, env, inloop)
                if st[3] is not None:
                    scan(st[3], env, inloop)
            elif k == "L":
                scan(st[4], env, True)
            elif k == "LC":
                info = st[5]
                env2 = dict(env)
                for slot, nm in info["names"].items():
                    key = ("lc", info["capid"], slot)
                    # a header variable of a loop nested in another loop's body is a body variable of the outer loop
                    site = 3 if nm.startswith("w") or inloop else 2
                    objs[key] = [nm, site, False]
                    env2[slot] = key
                scan(st[4], env2, True)
            elif k == "CAPDEF":
                info = st[1]
                for mode, name, aid in info["defs"]:
                    dst, x, y = g.acts[aid][:3]
                    if mode == "w-closure":
                        for v in (dst, x, y):
                            if v != ZERO:
                                cap(env, v)
                    elif mode == "w-ptr":
                        cap(env, dst)
                    else:
                        cap(env, x)
                cap(env, info["hold"][1])
            elif k == "DEFER":
                cl = g.dops[st[1]]
                for o in cl["ops"]:
                    if o[0] == "m":
                        cap(env, o[1])
                    elif o[0] == "p":
                        cap(env, o[2])
    scan(f["body"], {})
    return list(objs.values())


_BOXED = re.compile(r"(?<![\w$.])([A-Za-z_][\w$]*) = \[\1\];")


def js_boxed(js):
    """names boxed by `x = [x];` in a declaration (counter suffixes `$n` stripped), sorted multiset"""
    body = _COMMENT.sub("", clean_js(js))
    # a statement list duplicated by the compiler front end (switch `fallthrough` is resolved by copying the following
    # clause bodies) repeats the boxing statement of the SAME JS variable at a second program point: count each JS
    # variable once; distinct Go variables of the same name have distinct JS names (`i4`, `i4$1`)
    return sorted(re.sub(r"\$\d+$", "", n) for n in set(_BOXED.findall(body)))


def lfp(intr, edges):
    b = set(intr)
    ch = True
    while ch:
        ch = False
        for a, c in edges:
            if c in b and a not in b:
                b.add(a)
                ch = True
    return b


# --------------------------------------------------------------------------------------
# encoding for the Lean driver
# --------------------------------------------------------------------------------------

def enc_list(g, stmts, blocking_fn):
    stmts = [x for x in stmts if x[0] not in ("CAPDEF", "HOLDDECL")]
    if not stmts:
        return ["K"]
    if len(stmts) == 1:
        return enc_stmt(g, stmts[0], blocking_fn)
    return ["S"] + enc_stmt(g, stmts[0], blocking_fn) + enc_list(g, stmts[1:], blocking_fn)


def lab(l):
    return "-" if l is None else str(l)


def call_is_blocking(g, cid, blocking_fn):
    c = g.calls[cid]
    if c["kind"] == 1:
        return c["go"] == "funcvalue" or blocking_fn(c["callee"], c["go"])
    if c["kind"] == 3:
        return blocking_fn(c["callee"], "direct")
    return True


def enc_else(g, els, blocking_fn):
    """else part of an if statement: `else if` continues the chain, `else { … }` stays a block (astrewrite keeps the
    BlockStmt: simplify.go IfStmt case, toElseBranch on a one-element list holding the block)"""
    if els is None:
        return ["K"]
    if els[0] == "I":
        return enc_stmt(g, els, blocking_fn)
    assert els[0] == "{"
    return ["{"] + enc_list(g, els[1], blocking_fn)


def enc_default(g, body, blocking_fn):
    """default clause of a switch: astrewrite's toElseBranch uses a body that is a single if / block statement as the
    else branch itself (so a lone `if` continues the chain)"""
    if body is None:
        return ["K"]
    if len(body) == 1 and body[0][0] == "I":
        return enc_stmt(g, body[0], blocking_fn)
    if len(body) == 1 and body[0][0] == "{":
        return enc_stmt(g, body[0], blocking_fn)
    return ["{"] + enc_list(g, body, blocking_fn)


def enc_stmt(g, s, blocking_fn):
    k = s[0]
    if k == "A":
        return ["A", str(s[1])]
    if k == "C":
        if call_is_blocking(g, s[1], blocking_fn):
            return ["C", str(s[1])]
        return ["A", str(1000 + s[1])]
    if k == "{":
        return ["{"] + enc_list(g, s[1], blocking_fn)
    if k == "R":
        return ["R"]
    if k == "RD":       # result expressions are assigned to the result slots (locals 6, 7), then `return`
        out = []
        for a in s[1]:
            out += ["S", "A", str(a)]
        return out + ["R"]
    if k == "PANIC":
        return ["S", "A", "4000", "R"]
    if k == "DEFER":
        return ["A", str(2000 + s[1])]
    if k == "B":
        return ["B", lab(s[1])]
    if k == "T":
        return ["T", lab(s[1])]
    if k == "I":
        return ["I", str(s[1])] + enc_list(g, s[2], blocking_fn) + enc_else(g, s[3], blocking_fn)
    if k == "L":
        post = ["N"] if s[3] is None else ([s[3][0], str(s[3][1])])
        return ["L", lab(s[1]), lab(s[2])] + post + enc_list(g, s[4], blocking_fn)
    if k == "LC":       # init; loop
        post = [s[3][0], str(s[3][1])]
        return ["S", "A", str(s[5]["init"]), "L", lab(s[1]), lab(s[2])] + post + enc_list(g, s[4], blocking_fn)
    if k == "APRE":
        return ["A", str(s[1])]
    if k == "MULTI":    # arguments left to right: trace print, then (for a yielding argument) the yield; then the call
        out = []
        for kd, v, a, site in s[1]:
            if a is not None:
                out += ["S", "A", str(a)]
            if site is not None:
                out += ["S", "C", str(site)]
        if s[3] == "defer":     # `$deferred.push([sinkD, [args]])`: no call here, hence no resume block
            return out + ["A", str(2000 + s[4])]
        if s[3] == "go":
            return out + ["K"]
        if any(site is not None for _, _, _, site in s[1]):
            return out + ["C", str(s[4])]
        return out + ["A", str(s[2])]
    if k == "AC":       # a call through a closure variable is a (non-suspending) blocking call site; pointer access is an action
        return ["C", str(s[4])] if s[4] is not None else ["A", str(s[1])]
    if k == "W":
        # switch { case c1: b1 ... default: d }  →  sw (ite c1 b1 (ite c2 b2 (default)))
        # astrewrite simplifyCaseClauses: a clause ending in `fallthrough` gets the following bodies appended
        bodies = [list(b) for _, b in s[2]] + ([list(s[3])] if s[3] is not None else [])
        ft = list(s[4]) + ([False] if s[3] is not None else [])
        eff = []
        for i in range(len(bodies)):
            acc = list(bodies[i])
            j = i
            while ft[j]:
                j += 1
                acc += bodies[j]
            eff.append(acc)

        def chain(i):
            if i == len(s[2]):
                return enc_default(g, eff[i] if s[3] is not None else None, blocking_fn)
            return ["I", str(s[2][i][0])] + enc_list(g, eff[i], blocking_fn) + chain(i + 1)
        return ["W", lab(s[1])] + chain(0)
    raise AssertionError(k)


def enc_prog(g, blocking_fn):
    def tab(rows):
        return ";".join(".".join(str(x) for x in r) for r in rows) if rows else "-"
    acts = tab([a[:5] for a in g.acts])
    conds = tab([c[:5] for c in g.conds])
    calls = tab([(c["kind"], c["callee"], c["arg"], c["dst"], c["k"]) for c in g.calls])
    fns = ";".join(",".join(enc_list(g, f["body"], blocking_fn)) for f in g.fns)
    finfo = tab([(1, 1 if f["dfn"]["named"] else 0, f["dfn"]["nres"]) if f["dfn"] else (0, 0, 0) for f in g.fns])

    def op(o):
        return {"m": "1.%d.%d.%d", "y": "2.%d", "p": "3.%d.%d", "r": "4", "pc": "5.%d"}[o[0]] % tuple(o[1:])
    dops = ";".join(",".join(op(o) for o in cl["ops"]) for cl in g.dops) if g.dops else "-"
    return "%s/%s/%s/%s/%s/%s" % (acts, conds, calls, fns, finfo, dops)


# --------------------------------------------------------------------------------------
# rendering to Go
# --------------------------------------------------------------------------------------

PRELUDE = """package main

%(imports)s

var g0, g1, g2, g3 int = 1, 2, 3, 5

var enabled [64]bool

func yield(i int) {
%(yieldbody)s
}

func cnd(id int, b bool) bool { println("c", id, b); return b }

func yb(site int) bool { %(Y)s; return true }
func yf(site int) bool { %(Y)s; return false }
func yi(site int, x int) int { %(Y)s; return x }

func tr(id, x int) int { println("t", id, x); return x }
func yt(site, id, x int) int { println("t", id, x); %(Y)s; return x }
func pick(k, a, b int, rest ...int) int { return (a + 2*b + k) %% 1009 }
func pickV(k int, xs ...int) int { return (xs[0] + 2*xs[1] + k) %% 1009 }
func (t T) Pick(k, a, b int, rest ...int) int { return (a + 2*b + k + t.pad) %% 1009 }
func sinkD(id int, xs ...int) { println("s", id) }
func sinkG(xs ...int) {}

func leafD(site, x, k int) int { %(Y)s; return (x + k) %% 1009 }

type T struct{ pad int }

func (t T) M(site, x, k int) int { %(Y)s; return (x + k + t.pad) %% 1009 }

type PT struct{ pad int }

func (t *PT) M(site, x, k int) int { %(Y)s; return (x + k + t.pad) %% 1009 }

type ET struct {
	T
	other int
}

type I interface{ M(site, x, k int) int }

var tv T
var ptv = &PT{}
var etv ET
var ifc I
var fv func(site, x, k int) int

func leafG[X any](site, x, k int, _ X) int { %(Y)s; return (x + k) %% 1009 }

func mkClo(pad int) func(site, x, k int) int {
	return func(site, x, k int) int { %(Y)s; return (x + k + pad) %% 1009 }
}

var clo func(site, x, k int) int

func leafDefer(site, x, k int) (r int) {
	defer func() { r = leafD(site, x, k) }()
	return 0
}

func leafDeferPanic(site, x, k int) (r int) {
	defer func() { recover(); r = leafD(site, x, k) }()
	panic("p")
}

func leafDeferDirect(site, x, k int) (r int) {
	defer yield(site)
	r = (x + k) %% 1009
	return r
}

func bumpD(q *int, site, k int) {
	*q = (*q*1 + k) %% 1009
	%(Y)s
	*q = (*q*2 + 0) %% 1009
}

type cell struct{ v *int }

func (c cell) Bump(site, k int) {
	*c.v = (*c.v*1 + k) %% 1009
	%(Y)s
}
"""

SCHED_JS = """//go:build js

package main

import "github.com/gopherjs/gopherjs/js"

func schedString() string {
	v := js.Global.Get("process").Get("env").Get("GV_SCHED")
	if v == js.Undefined {
		return ""
	}
	return v.String()
}
"""

SCHED_NATIVE = """//go:build !js

package main

import "os"

func schedString() string { return os.Getenv("GV_SCHED") }
"""


class Render:
    def __init__(self, g, yields, mod=None):
        self.g = g
        self.y = yields
        self.mod = mod or "gvprog"
        self.out = []
        self.nm = {}        # slot -> Go name override inside capture loops

    def vn(self, v):
        return self.nm.get(v) or vname(v)

    def emit(self, ind, s):
        self.out.append("\t" * ind + s)

    def cond(self, cid):
        x, k, m, t, p, ys = self.g.conds[cid]
        e = "(%s+%d)%%%d < %d" % (self.vn(x), k, m, t)
        if p:
            e = "cnd(%d, %s)" % (cid, e)
        if ys is not None and self.y:
            e = "%s %s %s(%d)" % (e, ys[0], "yb" if ys[0] == "&&" else "yf", ys[1])
        return e

    def act(self, aid, ind, simple=False):
        dst, x, y, k, p, ys = self.g.acts[aid]
        ye = self.vn(y)
        if ys is not None and self.y:
            ye = "yi(%d, %s)" % (ys, ye)
        st = "%s = (%s + 2*%s + %d) %% 1009" % (self.vn(dst), self.vn(x), ye, k)
        if simple:
            return st
        self.emit(ind, st)
        if p:
            self.emit(ind, 'println("a", %d, %s)' % (aid, self.vn(dst)))

    def rexpr(self, aid):
        dst, x, y, k, p, ys = self.g.acts[aid]
        if y == ZERO and k == 0:
            return self.vn(x)
        if y == ZERO:
            return "(%s + %d) %% 1009" % (self.vn(x), k)
        return "(%s + 2*%s + %d) %% 1009" % (self.vn(x), self.vn(y), k)

    def defer(self, did, ind):
        cl = self.g.dops[did]
        ops = cl["ops"]
        if cl["go"] == "direct":
            self.emit(ind, "defer bumpD(&%s, %d, %d)" % (self.vn(ops[0][1]), ops[1][1], ops[0][3]))
            return
        if cl["go"] == "method":
            self.emit(ind, "defer cell{&%s}.Bump(%d, %d)" % (self.vn(ops[0][1]), ops[1][1], ops[0][3]))
            return
        self.emit(ind, "defer func() {")
        for o in ops:
            if o[0] == "m":
                self.emit(ind + 1, "%s = (%s*%d + %d) %% 1009" % (self.vn(o[1]), self.vn(o[1]), o[2], o[3]))
            elif o[0] == "y":
                if self.y:
                    self.emit(ind + 1, "yield(%d)" % o[1])
            elif o[0] == "p":
                self.emit(ind + 1, 'println("d", %d, %s)' % (o[1], self.vn(o[2])))
            else:
                self.emit(ind + 1, "recover()")
        self.emit(ind, "}()")

    def call_expr(self, cid):
        c = self.g.calls[cid]
        a = self.vn(c["arg"])
        if c["kind"] in (1, 3):
            j = c["callee"]
            return {"direct": "F%d(%s)", "funcvalue": "fF%d(%s)", "method": "tv.CallF%d(%s)"}[c["go"]] % (j, a)
        args = "%d, %s, %d" % (c["callee"], a, c["k"])
        go = c["go"]
        if go == "direct":
            return "leafD(%s)" % args
        if go == "method":
            return "tv.M(%s)" % args
        if go == "ptrmethod":
            return "ptv.M(%s)" % args
        if go == "methodvalue":
            return "mv(%s)" % args
        if go == "methodexpr":
            return "T.M(tv, %s)" % args
        if go == "iface":
            return "ifc.M(%s)" % args
        if go == "funcvalue":
            return "fv(%s)" % args
        if go == "generic":
            return "leafG[%s](%s, %s)" % (("int", args, "0") if c["callee"] % 2 == 0 else ("string", args, '""'))
        if go == "closure":
            return "clo(%s)" % args
        if go == "defer":
            return "leafDefer(%s)" % args
        if go == "deferpanic":
            return "leafDeferPanic(%s)" % args
        if go == "deferdirect":
            return "leafDeferDirect(%s)" % args
        if go == "embedded":
            return "etv.M(%s)" % args
        if go == "xfunc":
            return "lib.Apply(w%d, %s)" % (c["w"], args)
        if go == "xvia":
            return "lib.ApplyVia(w%d, %s)" % (c["w"], args)
        if go == "xmethod":
            return "bx%d.Run(%s)" % (c["w"], args)
        raise AssertionError(go)

    def call(self, cid, ind, simple=False):
        c = self.g.calls[cid]
        if c["kind"] == 2:
            if self.y:
                self.emit(ind, "yield(%d)" % c["callee"])
            return None
        if c["kind"] == 3:
            if self.g.fns[c["callee"]]["dfn"]["nres"] == 2:
                self.emit(ind, "t1, t2 = %s" % self.call_expr(cid))
            else:
                self.emit(ind, "t1 = %s" % self.call_expr(cid))
                self.emit(ind, "t2 = 0")
            self.emit(ind, 'println("D", %d, t1, t2)' % cid)
            self.emit(ind, "%s = t1" % self.vn(c["dst"]))
            return None
        st = "%s = %s" % (self.vn(c["dst"]), self.call_expr(cid))
        if simple:
            return st
        self.emit(ind, st)

    def block(self, stmts, ind):
        for s in stmts:
            self.stmt(s, ind)

    def stmt(self, s, ind):
        k = s[0]
        if k == "A":
            self.act(s[1], ind)
        elif k == "C":
            self.call(s[1], ind)
        elif k == "{":
            self.emit(ind, "{")
            self.block(s[1], ind + 1)
            self.emit(ind, "}")
        elif k == "R":
            self.emit(ind, "return v1")
        elif k == "RD":
            self.emit(ind, "return " + ", ".join(self.rexpr(a) for a in s[1]))
        elif k == "PANIC":
            self.emit(ind, 'panic("p")')
        elif k == "DEFER":
            self.defer(s[1], ind)
        elif k == "B":
            self.emit(ind, "break" + ("" if s[1] is None else " L%d" % s[1]))
        elif k == "T":
            self.emit(ind, "continue" + ("" if s[1] is None else " L%d" % s[1]))
        elif k == "I":
            self.render_if(s, ind, "")
        elif k == "L":
            if s[1] is not None:
                self.emit(ind - 1 if ind > 0 else 0, "L%d:" % s[1])
            cond = "" if s[2] is None else self.cond(s[2])
            if s[3] is None:
                head = "for %s{" % (cond + " " if cond else "")
            else:
                post = self.act(s[3][1], 0, simple=True) if s[3][0] == "a" else self.call(s[3][1], 0, simple=True)
                head = "for ; %s; %s {" % (cond, post)
            self.emit(ind, head)
            self.block(s[4], ind + 1)
            self.emit(ind, "}")
        elif k == "MULTI":
            es = []
            for kd, v, a, site in s[1]:
                if kd == "var":
                    es.append(self.vn(v))
                elif kd == "yt" and self.y:
                    es.append("yt(%d, %d, %s)" % (self.g.calls[site]["callee"], a, self.vn(v)))
                else:
                    es.append("tr(%d, %s)" % (a, self.vn(v)))
            dst, x, y, kk, p, ys = self.g.acts[s[2]]
            if s[3] == "defer":
                self.emit(ind, "defer sinkD(%d, %s)" % (s[4], ", ".join(es)))
            elif s[3] == "go":
                self.emit(ind, "go sinkG(%s)" % ", ".join(es))
            else:
                callee = {"direct": "pick", "variadic": "pickV", "method": "tv.Pick"}[s[3]]
                self.emit(ind, "%s = %s(%d, %s)" % (self.vn(dst), callee, kk, ", ".join(es)))
                self.emit(ind, 'println("a", %d, %s)' % (s[2], self.vn(dst)))
        elif k == "HOLDDECL":
            self.emit(ind, "var %s func() int" % s[1])
        elif k == "LC":
            info = s[5]
            if s[1] is not None:
                self.emit(ind - 1 if ind > 0 else 0, "L%d:" % s[1])
            old = dict(self.nm)
            self.nm.update(info["names"])
            if info["kind"] == "range":
                elems = ", ".join(str(info["K"] + i) for i in range(info["bound"]))
                self.emit(ind, "for k6, e7 := range [%d]int{%s} {" % (info["bound"], elems))
                self.emit(ind + 1, "_, _ = k6, e7")
            else:
                init = self.act(info["init"], 0, simple=True).replace(" = ", " := ", 1)
                post = self.act(s[3][1], 0, simple=True) if s[3][0] == "a" else self.call(s[3][1], 0, simple=True)
                self.emit(ind, "for %s; %s; %s {" % (init, self.cond(s[2]), post))
            self.block(s[4], ind + 1)
            self.emit(ind, "}")
            self.nm = old
        elif k == "APRE":
            if s[2] == "decl":
                self.emit(ind, self.act(s[1], 0, simple=True).replace(" = ", " := ", 1))
                self.emit(ind, "_ = %s" % self.vn(self.g.acts[s[1]][0]))
        elif k == "CAPDEF":
            info = s[1]
            for mode, name, aid in info["defs"]:
                dst, x, y, kk, p, ys = self.g.acts[aid]
                if mode == "w-closure":
                    self.emit(ind, "%s := func() { %s }" % (name, self.act(aid, 0, simple=True)))
                elif mode == "w-ptr":
                    self.emit(ind, "%s := &%s" % (name, self.vn(dst)))
                elif mode == "r-closure":
                    self.emit(ind, "%s := func() int { return %s }" % (name, self.vn(x)))
                else:
                    self.emit(ind, "%s := &%s" % (name, self.vn(x)))
            self.emit(ind, "%s = func() int { return %s }" % (info["hold"][0], self.vn(info["hold"][1])))
        elif k == "AC":
            aid, mode, name = s[1], s[2], s[3]
            dst, x, y, kk, p, ys = self.g.acts[aid]
            if mode == "w-closure":
                self.emit(ind, "%s()" % name)
            elif mode == "w-ptr":
                self.emit(ind, "*%s = (%s + 2*%s + %d) %% 1009" % (name, self.vn(x), self.vn(y), kk))
            elif mode in ("r-closure", "r-hold"):
                self.emit(ind, "%s = (%s() + 2*%s + %d) %% 1009" % (self.vn(dst), name, self.vn(y), kk))
            else:
                self.emit(ind, "%s = (*%s + 2*%s + %d) %% 1009" % (self.vn(dst), name, self.vn(y), kk))
            if p:
                self.emit(ind, 'println("a", %d, %s)' % (aid, self.vn(dst)))
        elif k == "W":
            if s[1] is not None:
                self.emit(ind - 1 if ind > 0 else 0, "L%d:" % s[1])
            self.emit(ind, "switch {")
            for i, (c, b) in enumerate(s[2]):
                self.emit(ind, "case %s:" % self.cond(c))
                self.block(b, ind + 1)
                if s[4][i]:
                    self.emit(ind + 1, "fallthrough")
            if s[3] is not None:
                self.emit(ind, "default:")
                self.block(s[3], ind + 1)
            self.emit(ind, "}")
        else:
            raise AssertionError(k)

    def render_if(self, s, ind, prefix):
        self.emit(ind, "%sif %s {" % (prefix, self.cond(s[1])))
        self.block(s[2], ind + 1)
        els = s[3]
        if els is None:
            self.emit(ind, "}")
        elif els[0] == "I":
            self.render_else_if(els, ind)
        else:
            self.emit(ind, "} else {")
            self.block(els[1], ind + 1)
            self.emit(ind, "}")

    def render_else_if(self, s, ind):
        self.emit(ind, "} else if %s {" % self.cond(s[1]))
        self.block(s[2], ind + 1)
        els = s[3]
        if els is None:
            self.emit(ind, "}")
        elif els[0] == "I":
            self.render_else_if(els, ind)
        else:
            self.emit(ind, "} else {")
            self.block(els[1], ind + 1)
            self.emit(ind, "}")

    def program(self):
        g = self.g
        Y = "yield(site)" if self.y else "_ = site"
        ybody = "\tif enabled[i] {\n\t\truntime.Gosched()\n\t}" if self.y else "\t_ = i"
        imps = (['"runtime"'] if self.y else []) + (['"%s/lib"' % self.mod] if g.mp else [])
        src = PRELUDE % dict(imports="import (\n\t%s\n)" % "\n\t".join(imps) if imps else "", yieldbody=ybody, Y=Y)
        self.out = [src]
        for j, depth in enumerate(g.wchains):
            # callers are declared BEFORE their callees: the blocking analysis needs one pass per link of the chain
            names = ["chk%d_%d" % (j, i) for i in range(1, depth)]
            self.emit(0, "type W%d struct{ pad int }" % j)
            self.emit(0, "")
            self.emit(0, "var w%d = &W%d{}" % (j, j))
            self.emit(0, "var bx%d = &lib.Box[*W%d]{Elem: w%d}" % (j, j, j))
            self.emit(0, "")
            self.emit(0, "func (w *W%d) Step(site, x, k int) int { return w.rec(site, x, k) }" % j)
            self.emit(0, "func (w *W%d) rec(site, x, k int) int { return %s(site, x, k+w.pad) }" % (j, names[0]))
            for a, b in zip(names, names[1:]):
                self.emit(0, "func %s(site, x, k int) int { return %s(site, x, k) }" % (a, b))
            self.emit(0, "func %s(site, x, k int) int { %s; return (x + k) %% 1009 }" % (names[-1], Y))
            self.emit(0, "")
        for fi, f in enumerate(g.fns):
            if f["dfn"]:
                d = f["dfn"]
                if d["named"]:
                    sig = "(v6 int)" if d["nres"] == 1 else "(v6, v7 int)"
                else:
                    sig = "int" if d["nres"] == 1 else "(int, int)"
                self.emit(0, "func F%d(v0 int) %s {" % (fi, sig))
                self.emit(1, "var v1, v2, v3, v4, v5, t1, t2 int")
                self.emit(1, "_, _, _, _, _, _, _ = v1, v2, v3, v4, v5, t1, t2")
            else:
                self.emit(0, "func F%d(v0 int) int {" % fi)
                self.emit(1, "var v1, v2, v3, v4, v5, v6, v7, t1, t2 int")
                self.emit(1, "_, _, _, _, _, _, _, _, _ = v1, v2, v3, v4, v5, v6, v7, t1, t2")
            self.emit(1, "mv := tv.M")
            self.emit(1, "_ = mv")
            self.block(f["body"], 1)
            self.emit(0, "}")
            self.emit(0, "")
            if not f["dfn"]:
                self.emit(0, "var fF%d func(int) int" % fi)
                self.emit(0, "")
                self.emit(0, "func (t T) CallF%d(x int) int { return F%d(x + t.pad) }" % (fi, fi))
                self.emit(0, "")
        self.emit(0, "func main() {")
        self.emit(1, "s := schedString()")
        self.emit(1, "for i := 0; i < len(s) && i < 64; i++ {")
        self.emit(2, "enabled[i] = s[i] == '1'")
        self.emit(1, "}")
        self.emit(1, "ifc = T{}")
        self.emit(1, "fv = leafD")
        self.emit(1, "clo = mkClo(0)")
        for fi in range(len(g.fns)):
            if not g.fns[fi]["dfn"]:
                self.emit(1, "fF%d = F%d" % (fi, fi))
        self.emit(1, "r := F0(0)")
        self.emit(1, 'println("r", r, g0, g1, g2, g3)')
        self.emit(0, "}")
        return "\n".join(self.out) + "\n"


LIB_GO = """// Package lib is a generic helper library; it does not import the packages whose types it is instantiated with.
package lib

type Stepper interface {
	Step(site, x, k int) int
}

func Apply[T Stepper](s T, site, x, k int) int {
	r := s.Step(site, x, k)
	return r % 1009
}

func ApplyVia[T Stepper](s T, site, x, k int) int {
	r := Apply(s, site, x, k)
	return r
}

type Box[T Stepper] struct {
	Elem T
	Bias int
}

func (b *Box[T]) Run(site, x, k int) int {
	v := b.Elem.Step(site, x, k) + b.Bias
	return v % 1009
}
"""


def render(g, yields, mod=None):
    files = {"main.go": Render(g, yields, mod).program(), "sched_js.go": SCHED_JS, "sched_native.go": SCHED_NATIVE}
    if g.mp:
        files["lib/lib.go"] = LIB_GO
    return files


# --------------------------------------------------------------------------------------
# artefact scans
# --------------------------------------------------------------------------------------

_COMMENT = re.compile(r"/\*.*?\*/", re.S)
_TOK = re.compile(r"\$s = (\d+); case \1: if\(\$c\)|\$s = (-?\d+); (?:continue|return)|case (\d+):")


def js_skeleton(js):
    body = _COMMENT.sub("", js)
    out = []
    for m in _TOK.finditer(body):
        if m.group(1) is not None:
            out.append("r" + m.group(1))
        elif m.group(2) is not None:
            out.append("x" if m.group(2) == "-1" else "j" + m.group(2))
        else:
            out.append("c" + m.group(3))
    return out


_RESTORE = re.compile(r"var \{([^}]*)\} = \$restore\(this, \{([^}]*)\}\);")
_SAVE = re.compile(r"var \$f = \{\$blk: ([^,]+), \$c: true, ([^}]*)\};")
_ASSIGN = re.compile(r"(?<![\w$.\]])([A-Za-z_$][\w$]*) = (?!=)")


_PKGVAR = re.compile(r"^(g\d|ifc|fv|clo|tv|ptv|etv|enabled|fF\d+)$")


def norm_name(n):
    n = n[5:] if n.startswith("func:") else n
    n = "main." + n[2:] if n.startswith("..") else n
    n = re.sub(r"gvp\w+?[pq]/lib\.", "lib.", n)          # GOPATH mode: <mod>/lib.X, <mod>.X
    n = re.sub(r"gvp\w+?[pq]\.", "main.", n)
    n = re.sub(r"\(\*(\w+)\)", r"\1", n)
    m = re.match(r"^(lib\.[\w.]+)<\*?main\.(W\d+)>$", n)
    if m:
        return "%s<%s>" % (m.group(1), m.group(2))         # instance of a lib generic with a type of package main
    n = re.sub(r"<.*>$", "", n)
    return re.sub(r"\[.*\]$", "", n)


def clean_js(js):
    i = js.find("function")
    js = js[i:] if i >= 0 else js
    return "".join(ch for ch in js if ch == "\n" or ch == "\t" or 32 <= ord(ch) < 127 or ord(ch) == 183)


def js_frames(js):
    """returns ([(restored list, params, saved list)] per function — nested function literals are paired by nesting,
    the declaration's own function first), plus the assigned identifiers when the declaration holds a single function"""
    body = _COMMENT.sub("", clean_js(js))
    ev = [(m.start(), "r", m) for m in _RESTORE.finditer(body)] + [(m.start(), "s", m) for m in _SAVE.finditer(body)]
    ev.sort(key=lambda e: e[0])
    stack, frames, ok = [], [], True
    for _, k, m in ev:
        if k == "r":
            stack.append(([x.strip() for x in m.group(1).split(",") if x.strip()],
                          [x.strip() for x in m.group(2).split(",") if x.strip()], len(frames)))
            frames.append(None)
        else:
            if not stack:
                ok = False
                continue
            rl, params, idx = stack.pop()
            frames[idx] = (rl, params, [x.strip() for x in m.group(2).split(",") if x.strip()])
    if stack or any(f is None for f in frames):
        ok = False
    assigned = None
    if len(re.findall(r"\bfunction\b", body)) == 1:
        assigned = set(_ASSIGN.findall(body))
    return [f for f in frames if f is not None], ok, assigned


# --------------------------------------------------------------------------------------
# the check
# --------------------------------------------------------------------------------------

def canon(trace, ending):
    return ";".join(trace) + " |" + ending


def schedules_for(g, rng, tier):
    n = g.nsites
    full = 6 if tier == "thorough" else 4
    cap = 32 if tier == "thorough" else 12
    if n <= full:
        return ["".join("1" if (m >> i) & 1 else "0" for i in range(n)) or "0" for m in range(2 ** n)], n <= full
    s = {"0" * n, "1" * n}
    for i in range(n):
        if len(s) < cap // 2:
            s.add("".join("1" if j == i else "0" for j in range(n)))
    while len(s) < cap:
        s.add("".join(rng.choice("01") for _ in range(n)))
    # every subset of the yield sites INSIDE deferred calls (the other sites off), when there are few of them
    dsites = sorted({o[1] for cl in g.dops for o in cl["ops"] if o[0] == "y"})
    if 0 < len(dsites) <= (5 if tier == "thorough" else 3):
        for m in range(2 ** len(dsites)):
            on = {dsites[i] for i in range(len(dsites)) if (m >> i) & 1}
            s.add("".join("1" if j in on else "0" for j in range(n)))
    return sorted(s), False


def run_batch(chk, progs_, tier, rng, label, do_ities=True, sigfn=None, scheds_override=None, gopath=False):
    from . import progs as PR
    jobs = []
    meta = []
    for idx, g in enumerate(progs_):
        scheds, exhaustive = schedules_for(g, rng, tier) if scheds_override is None else (scheds_override, True)
        pid = "%s%d" % (label, idx)
        job = {"id": pid, "schedules": scheds,
               "native": [scheds[-1]] if tier == "quick" else [scheds[0], scheds[-1]], "timeout": 60}
        if gopath:
            # programs with a second user package are resolved in GOPATH mode (see harness/cmd/gvh_c02)
            job["mod"] = "gvp" + re.sub(r"[^a-z0-9]", "", pid.lower())
            job["p"], job["q"] = render(g, False, job["mod"] + "p"), render(g, True, job["mod"] + "q")
        else:
            job["p"], job["q"] = render(g, False), render(g, True)
        jobs.append(job)
        meta.append((pid, g, scheds, exhaustive))
    if gopath:
        gp = C.scratch("gvc02gp")
        try:
            p = C.run_gvh(["-j", "6"], [json.dumps(j) for j in jobs], name="gvh_c02", timeout=3000,
                          extra_env={"GOPATH": gp, "GO111MODULE": "off", "GOFLAGS": ""})
        finally:
            shutil.rmtree(gp, ignore_errors=True)
    else:
        p = C.run_gvh(["-j", "6"], [json.dumps(j) for j in jobs], name="gvh_c02", timeout=3000)
    if p.returncode != 0:
        raise RuntimeError("gvh_c02 failed: " + p.stderr[-3000:])
    results = [json.loads(l) for l in p.stdout.split("\n") if l.strip()]
    if len(results) != len(jobs):
        raise RuntimeError("gvh_c02 answered %d results for %d jobs" % (len(results), len(jobs)))

    # blocking sets as the generator's call graph predicts them (through the Lean model)
    blk_ops = []
    graphs = []
    for pid, g, scheds, _ in meta:
        for wy in (False, True):
            intr, edges = call_graph(g, wy)
            names = sorted(set(intr) | {a for a, _ in edges} | {b for _, b in edges})
            ix = {n: i for i, n in enumerate(names)}
            blk_ops.append("c02 blk %s %s %d" % (",".join(str(ix[n]) for n in sorted(intr)) or "-",
                                                  ",".join("%d>%d" % (ix[a], ix[b]) for a, b in edges) or "-",
                                                  rng.randrange(1 << 30)))
            graphs.append((names, intr, edges))
    blk_ans = C.run_driver("C02", blk_ops)
    for i, a in enumerate(blk_ans):
        names, intr, edges = graphs[i]
        got = set() if a == "-" else {names[int(x)] for x in a.split(",")}
        if got != lfp(intr, edges):
            raise RuntimeError("Lean Blocking model disagrees with the reference fixed point: %s" % blk_ops[i])
        graphs[i] = (names, got)

    ops_model = []
    for n, (pid, g, scheds, _) in enumerate(meta):
        bq = graphs[2 * n + 1][1]

        def blocking_fn(j, go, bq=bq):
            return ("main.T.CallF%d" % j if go == "method" else "main.F%d" % j) in bq
        enc = enc_prog(g, blocking_fn)
        ops_model.append("c02 ref " + enc)
        ops_model.append("c02 skel " + enc)
        for s in scheds:
            ops_model.append("c02 mach %s %s" % (enc, s))
    ans = C.run_driver("C02", ops_model)
    pos = 0
    for n, (pid, g, scheds, exhaustive) in enumerate(meta):
        res = results[n]
        ref = ans[pos]
        skel = ans[pos + 1]
        mach = ans[pos + 2: pos + 2 + len(scheds)]
        pos += 2 + len(scheds)
        if "model-failure" in ref or any("model-failure" in m for m in mach) or ref.startswith("bad"):
            raise RuntimeError("Lean driver failed on generated program %s: %s" % (pid, ref[:200]))
        srcq = render(g, True)["main.go"]
        # native Go = what the property demands
        nat = [PR.observe_native(r) for r in res["native"]]
        for t, e in nat:
            if e.startswith("compile-error"):
                raise RuntimeError("generated program does not build natively: %s\n%s" % (e, srcq))
        spec = canon(*nat[0])
        if any(canon(*x) != spec for x in nat):
            raise RuntimeError("native Go output depends on the schedule?! " + pid)
        if ref + " |exit0" != spec:
            raise RuntimeError("MODEL-MISMATCH (reference semantics vs native Go) on %s:\nmodel %s\nnative %s\n%s" % (
                pid, ref[:600], spec[:600], srcq))
        # P under Node
        po = canon(*PR.observe_js(res["p"]))
        op = "prog=%s variant=P sites=%d" % (pid, g.nsites)
        if po.endswith("|timeout"):
            # a run that exceeded even the 4x retry limit is reported as a failing input, never as a broken tie
            chk.add_case("P-direct-form", op, kindkey="timeout")
            chk.add_mismatch("P-direct-form", op, po, spec, signature=None)
        else:
            chk.compare("P-direct-form", [op], [po], [ref + " |exit0"], spec=[spec], kind=lambda o, c: "P")
        if po != spec:
            chk.notes.append({"op": op, "source": render(g, False)["main.go"]})
        # P' under Node for every schedule
        ops, impl, model = [], [], []
        if len(res["q"]) != len(scheds):
            # P' did not compile (one error record instead of one run per schedule): a failing input, not a tie break
            err = canon(*PR.observe_js(res["q"][0])) if res["q"] else " |no-result"
            chk.add_mismatch("P-yield-schedules", "prog=%s variant=Pyield (all schedules)" % pid, err, spec, signature=None)
            chk.notes.append({"prog": pid, "source": srcq})
            continue
        anyfail = False
        for s, r, m in zip(scheds, res["q"], mach):
            o = canon(*PR.observe_js(r))
            if o.endswith("|timeout"):
                anyfail = True
                chk.add_case("P-yield-schedules", "prog=%s variant=Pyield sched=%s" % (pid, s), kindkey="timeout")
                chk.add_mismatch("P-yield-schedules", "prog=%s variant=Pyield sched=%s" % (pid, s), o, spec, signature=None)
                continue
            ops.append("prog=%s variant=Pyield sched=%s" % (pid, s))
            impl.append(o)
            mt, _, ms = m.partition(" #susp=")
            model.append(mt + " |exit0")
            chk.count("suspensions:%s" % ("0" if ms == "0" else "1-3" if int(ms) <= 3 else "4-15" if int(ms) <= 15 else "16+"))
        chk.compare("P-yield-schedules", ops, impl, model, spec=[spec] * len(ops), signature=sigfn,
                    kind=lambda o, c: "Pyield", nontrivial=lambda o, c: "1" in o.split("sched=")[1])
        if anyfail or any(a != spec for a in impl):
            chk.notes.append({"prog": pid, "source": srcq})
        chk.extra["schedules_exhaustive_programs"] = chk.extra.get("schedules_exhaustive_programs", 0) + (1 if exhaustive else 0)
        if not do_ities:
            continue
        # I1: skeleton
        for dl in (res["q_decls"], res["p_decls"]):
            for d in dl:
                d["name"] = norm_name(d["name"])
        qd = {d["name"]: d for d in res["q_decls"]}
        skels = skel.split("|")
        for fi, f in enumerate(g.fns):
            d = qd.get("main.F%d" % fi)
            if d is None:
                chk.add_tie_break("skeleton", "prog=%s fn=F%d" % (pid, fi), "missing declaration", skels[fi])
                continue
            frames, _, assigned = js_frames(d["js"])
            if not f["exprY"] and not f["dfn"]:
                got = " ".join(js_skeleton(d["js"]))
                chk.add_case("skeleton", "prog=%s fn=F%d %s" % (pid, fi, got), nontrivial=len(got) > 8, kindkey="skeleton")
                if got != skels[fi]:
                    chk.add_tie_break("skeleton", "prog=%s fn=F%d" % (pid, fi), got, skels[fi])
                    chk.notes.append({"skeleton-source": srcq, "js": d["js"]})
            # I2 (model side): every model local assigned by the function is in the saved frame
            if d["blocking"] and not f["dfn"]:
                want = {"v0"}
                for s in walk(f["body"]):
                    if s[0] == "A":
                        want.add(vname(g.acts[s[1]][0]))
                    elif s[0] == "C" and g.calls[s[1]]["kind"] != 2:
                        want.add(vname(g.calls[s[1]]["dst"]))
                    elif s[0] == "L" and s[3] is not None and s[3][0] == "a":
                        want.add(vname(g.acts[s[3][1]][0]))
                want = {w for w in want if w.startswith("v") and not (w in ("v4", "v5", "v6", "v7") and any(x[0] == "LC" for x in walk(f["body"])))}
                saved = set(frames[0][2]) if frames else set()
                chk.add_case("saved-model", "prog=%s fn=F%d" % (pid, fi), kindkey="saved-model")
                if not want <= saved:
                    chk.add_tie_break("saved-frame", "prog=%s fn=F%d" % (pid, fi), sorted(saved), sorted(want))
        # I4: escape-analysis boxing rule — which variables are boxed (`x = [x];`) vs GV.Escape.boxed
        for variant, dl, gi in (("Pyield", res["q_decls"], 2 * n + 1), ("P", res["p_decls"], 2 * n)):
            dd = {d["name"]: d for d in dl}
            bset = graphs[gi][1]
            bops, binfo = [], []
            for fi, f in enumerate(g.fns):
                d = dd.get("main.F%d" % fi)
                if d is None or not d.get("js"):
                    continue
                items = box_items(g, fi)
                bops.append("c02 box %d %s" % (1 if "main.F%d" % fi in bset else 0,
                                                ",".join("%d.%d" % (it[1], 1 if it[2] else 0) for it in items) or "-"))
                binfo.append((fi, d, items))
            for (fi, d, items), a in zip(binfo, C.run_driver("C02", bops) if bops else []):
                want = sorted(it[0] for it, b in zip(items, a.split(",")) if b == "1")
                got = js_boxed(d["js"])
                chk.add_case("boxing", "prog=%s %s fn=F%d %s" % (pid, variant, fi, got), nontrivial=bool(got),
                             kindkey="boxing:%s" % ("some" if got else "none"))
                if got != want:
                    chk.add_tie_break("boxing-rule", "prog=%s variant=%s fn=F%d" % (pid, variant, fi), got, want)
        # I2 (artefact side): `$f` list == `$restore` list ⊇ assigned identifiers, for every blocking function
        for dl in (res["q_decls"], res["p_decls"]):
            for d in dl:
                if "js" not in d or not d["js"]:
                    continue
                frames, ok, assigned = js_frames(d["js"])
                if not ok:
                    chk.add_tie_break("saved-frame", "prog=%s decl=%s" % (pid, d["name"]), "unpaired $restore / $f", "paired")
                    continue
                for rl, params, sl in frames:
                    chk.add_case("saved-artefact", "prog=%s decl=%s" % (pid, d["name"]), kindkey="saved-artefact")
                    if set(rl) - {"$c"} != set(sl) or not set(params) <= set(sl):
                        chk.add_tie_break("saved-frame", "prog=%s decl=%s" % (pid, d["name"]), "restore=%s save=%s" % (rl, sl), "same sets, params included")
                if assigned is not None and frames:
                    extra = {a for a in assigned - set(frames[0][2]) - {"$c", "$f", "$err"} if not _PKGVAR.match(a)}
                    if extra:
                        chk.add_tie_break("saved-frame", "prog=%s decl=%s" % (pid, d["name"]), "assigned but not saved: %s" % sorted(extra), "none")
        # I3: Decl.Blocking
        for wy, dl in ((False, res["p_decls"]), (True, res["q_decls"])):
            names, bset = graphs[2 * n + (1 if wy else 0)]
            for d in dl:
                nm = d["name"]
                if nm not in names:
                    continue
                chk.add_case("decl-blocking", "prog=%s %s %s" % (pid, "Pyield" if wy else "P", d["name"]),
                             kindkey="blocking:%s" % ("yes" if d["blocking"] else "no"))
                if d["blocking"] != (nm in bset):
                    chk.add_tie_break("decl-blocking", "prog=%s variant=%s decl=%s" % (pid, "Pyield" if wy else "P", d["name"]),
                                      str(d["blocking"]), str(nm in bset))
            if wy and res.get("other_blocking"):
                for nm, b in res["other_blocking"].items():
                    if not b:
                        chk.add_tie_break("decl-blocking", "prog=%s decl=%s" % (pid, nm), "False", "True (intrinsic mark)")


SIG_PANIC = "C02 recovered-panic unnamed-result deferred-call-suspends returns-undefined"


def witness_panic_program():
    """func F1(v0 int) int { defer func() { recover(); yield(0) }(); panic("p") }  called from F0, result printed"""
    import random
    g = Gen(random.Random(0), 6)
    g.plan = [False, True]
    g.dops.append(dict(ops=[("r",), ("y", g.site())], go="closure"))
    c = g.new_dfncall(1)
    g.calls[c]["arg"], g.calls[c]["dst"] = 0, 2
    g.fns = [dict(body=[("C", c), ("R",)], exprY=False, dfn=None),
             dict(body=[("DEFER", 0), ("PANIC",)], exprY=False, dfn=dict(named=False, nres=1, panics=True))]
    return g


def sig_panic(op, impl, spec):
    if "prog=witpanic" in op and op.endswith("sched=1") and impl == spec.replace("D 0 0 0", "D 0 undefined 0"):
        return SIG_PANIC
    return None


WITNESS_STACK = """package main

var clo = func(x int) int { return x + 1 }

func main() {
	for v := 0; v < 2; v = clo(v) {
		for k := 0; k < 2; k++ {
			f := func() int { return k }
			g := func() int { return k + 1 }
			_, _ = f, g
		}
		if v == 0 {
			continue
		}
		println("end", v)
	}
}
"""


def replay_stack_witness(chk):
    """regression case of the repaired defect 3f9da12: the analysis' visitor stack was left unbalanced by function
    literals, a later `continue` was attributed to the already finished nested loop and not made resumable
    (`case N:` inside a plain `if`, invalid JavaScript)"""
    from . import progs as PR
    r = PR.run_jobs([{"id": "witstack", "files": {"main.go": WITNESS_STACK}, "variants": ["plain"], "native": True}])[0]["runs"]
    impl = canon(*PR.observe_js(r["plain"]))
    spec = canon(*PR.observe_native(r["native"]))
    if spec != "end 1 |exit0":
        raise RuntimeError("witness program does not behave as expected natively: " + spec)
    op = "prog=witstack variant=P (no yields; continue after two function literals in a nested loop, blocking post statement)"
    chk.add_case("witness-analysis-stack", op, kindkey="witness")
    if impl != spec:
        chk.add_mismatch("witness-analysis-stack", op, impl, spec, signature=None)


def run(tier, seed):
    chk = C.Check("C02", tier, seed)
    chk.rule = ("a MiniGo term (functions over 8 locals/4 globals; act/if-chains/for in 4 shapes/switch/labelled break+continue/"
                "return/blocks/calls) is drawn first and rendered to Go twice: P without yields and P' with yield(site) at call "
                "sites (13 kinds of call: direct, method, pointer method, method value, method expression, interface, func value, "
                "generic instance, closure, deferred closure on return and on panic, deferred direct, promoted method), as "
                "statements, as for-post statements and inside && / || / argument sub-expressions; P' is compiled ONCE and run "
                "under Node for every schedule (all subsets for <= 4 (quick) / 6 (thorough) sites, else corner + random "
                "schedules); about half of the functions beyond F0 are D functions: 1-4 deferred calls (closure, direct with "
                "pointer argument, method) that yield and modify the params/locals the call-free return expression reads, "
                "unnamed and named results, 1-2 results, returns inside loops/switch, defers inside loops, panics recovered "
                "by a yielding deferred closure (named results; the unnamed case is the recorded finding, replayed as a fixed "
                "witness), results printed by the caller, all subsets of the yield sites inside deferred calls when <= 3 (5); "
                "capture loops: for-init variables, range key/value and loop-body variables captured by closures / address-"
                "taken before a yield and written/read on both sides after it, closures stored and called after the loop, "
                "nested; compared with the flattened-machine trace of the Lean driver (incl. the $24r / $callDeferred protocol model) "
                "and with native Go; a case is non-trivial when at least one site is enabled")
    chk.trusted = ["Lean 4.33 kernel; axioms at most propext, Classical.choice, Quot.sound",
                   "hand-written models GV.Model.Ctrl/Flat/Blocking tied to statements.go/functions.go/expressions.go/analysis by "
                   "the skeleton, frame and Decl.Blocking scans of the emitted artefacts and by the program runs",
                   "Go renderer and regex scanners in checks/c02.py; harness/cmd/gvh_c02"]
    chk.assumptions = ["callee frames are abstracted: a call is (effect on the store, number of suspensions); partial effects of a "
                       "suspended callee are not observable by its suspended callers (no other goroutine is runnable — the "
                       "property's own side condition)",
                       "deferred calls are modelled as a layer (GV.Model.RetDefer: return protocol after the body reached `return`), "
                       "&& / || / argument temporaries as code-shape lemmas; goto, select/channel operations, range loops and the "
                       "unified code list of a blocking return are exercised by compiled programs only",
                       "V8/Node and the native Go toolchain behave per their specifications"]
    C.build_gvh("gvh_c02")
    chk.proof = C.check_proofs("C02", THEOREMS, tier)
    nprog = 24 if tier == "quick" else 120
    progs_ = []
    while len(progs_) < nprog:
        g = gen_program(chk.rng, chk.rng.choice([6, 10, 16, 24]))
        if g.nsites == 0 or g.nsites > 40:
            continue
        progs_.append(g)
    for g in progs_:
        for k, v in g.kinds.items():
            chk.count(k, v)
    bs = 40
    single = [g for g in progs_ if not g.mp]
    multi = [g for g in progs_ if g.mp]
    chk.extra["multi_package_programs"] = len(multi)
    for i in range(0, len(single), bs):
        run_batch(chk, single[i:i + bs], tier, chk.rng, "s%dp%d_" % (seed, i))
    for i in range(0, len(multi), bs):
        run_batch(chk, multi[i:i + bs], tier, chk.rng, "s%dm%d_" % (seed, i), gopath=True)
    # replay of the recorded defect (and its non-suspending twin, which must behave)
    run_batch(chk, [witness_panic_program()], tier, chk.rng, "witpanic", do_ities=False, scheds_override=["0", "1"])
    replay_stack_witness(chk)
    # I5: the guard at the head of the REAL `$callDeferred` (prelude under Node) for an asleep goroutine, deferStack
    # depth 1-4, own list at every position (bottom / middle / top) or absent, vs GV.RetDefer.guardAnywhere
    gops = ["guard %d %s" % (d, pos) for d in range(1, 5) for pos in [str(i) for i in range(d)] + ["absent"]]
    chk.compare("calldeferred-guard", ["c02guard " + o for o in gops], C.run_node(["c02guard " + o for o in gops]),
                C.run_driver("C02", ["c02 " + o for o in gops]), kind=lambda o, c: "guard:" + c)
    unknown = [m for m in chk.mismatches if chk.known_match(m.get("signature")) is None]
    if chk.tie_breaks and not unknown and tier == "quick":
        # an internal tie broke: widen the observable-level search before reporting
        C.log("[C02] internal tie broken (%s); widening the program search" % sorted(chk.tie_breaks))
        for mpflag, lab_ in ((False, "w"), (True, "x")):
            more = []
            while len(more) < 20:
                g = gen_program(chk.rng, chk.rng.choice([10, 16, 24]), mp=mpflag)
                if 0 < g.nsites <= 40:
                    more.append(g)
            run_batch(chk, more, "quick", chk.rng, "%s%dp_" % (lab_, seed), do_ities=False, gopath=mpflag)
    chk.extra["programs"] = len(progs_)
    chk.extra["exhaustive"] = False
    chk.extra["exhaustive_subspace"] = "all yield subsets for programs with <= %d sites" % (6 if tier == "thorough" else 4)
    return chk.finish()


def replay(path):
    rep = json.load(open(path))
    print(json.dumps(rep.get("failing_inputs", [])[:3], indent=1)[:4000])
    print(json.dumps(rep.get("broken_obligations", []), indent=1)[:4000])
    for n in rep.get("notes", [])[:2]:
        for k, v in n.items():
            print("----", k)
            print(v)
    return 1
