"""C08 — panics, deferred calls, recover and run-time errors follow the spec.
Proof: GV.Props.C08 (run-time checks = Go spec conditions for all operands; depth arithmetic of $recover;
emulation refines reference for all programs without non-local exits (forward simulation, GV.Proofs.DeferSim) and for
single-frame goroutine functions with panics / Goexit; the model mirrors the round-2 repairs fixes/C08-*.patch).
Ties: (a) the REAL $callDeferred/$panic/$recover/$methodExpr under Node, driven by scripted frames in the shape the
compiler emits, vs the Lean emulation (model) and the Lean reference semantics (spec); (b) the real prelude checks on
boundary operands vs model and spec; (c) generated Go programs: GopherJS (plain+minify) vs native Go vs the model."""
import json
import re

from . import common as C

DEFER_THEOREMS = ["defer_refines_noNLE", "GV.Defer.sim_all", "GV.Defer.emu_refines_ref_noNLE", "repaired_witnesses_agree", "leaf_sim",
                  "defer_refines_partial"]

THEOREMS = ["index_exact", "index_const_exact", "subslice_exact", "substring_exact", "makeslice_exact", "slice_to_array_exact",
            "map_store_exact", "quo_exact", "rem_exact", "send_exact", "close_exact", "iface_eq_exact", "assert_exact", "checks_exact",
            "close_old_counterexample", "substring_old_counterexample",
            "recover_depth_arith", "recover_depth"] + DEFER_THEOREMS

# ------------------------------------------------------------------------------------------------------------
# mini-language scripts (GV.Model.Defer)
# ------------------------------------------------------------------------------------------------------------

WITNESSES = {
    # id: (script, class) — witnesses of the four repaired defect classes, kept as regression inputs
    "replaced": ("u:dd1=k0,dd2=k0,p1|u:r|u:p2", "replaced-panic-recovered"),
    "triple": ("u:dd1=k0,dd2=k0,p1|u:r|u:dd3=k0,p2|u:p3", "replaced-panic-recovered"),
    "builtin": ("u:dd1=k0,R,p1|u:r", "defer-recover-builtin"),
    "pwrap": ("u:dd1=k0,dp2=k0,p1|u:r|u:r", "defer-via-forwarding-wrapper"),
    "goexit": ("u:cd1,r|u:dd2=k1,g|u:r", "goexit-in-callee-with-defer"),
    "goexit-named": ("u:cd1,r|n:dd2=k1,s4,g|u:r", "goexit-in-callee-with-defer"),
}

FIXED_SCRIPTS = [
    "u:dd1=k0,p1,r|u:R", "u:dd1=k0,dd2=k0,p1|u:r|u:R,p2", "u:dd1=k0,dd2=k0,p1|u:r|u:dd3=k0,R|u:r", "u:dd1=k0,p1|u:R,cd2|u:dd3=k0,p2|u:r",
    "u:dd1=k0,p1|u:r", "u:dd1=k0,p1|u:cd2|u:r", "u:dd1=k0,dm2=k0,p1|u:r|u:r", "u:dd1=k0,dd2=k0,p1|u:r|u:cm3|u:r",
    "n:dd1=r,s5,dd1=r,s6,dd1=k9|u:", "u:cd1|n:dd2=k0,s3,p7|u:r,o8", "u:cd1|u:dd2=k0,s3,p7|u:r,o8", "u:cd1|n:dd2=k0,s3,t|u:o8",
    "u:cd1|u:dd2=k0,s3,t|u:o8", "u:dd1=k0,dd2=k0,p1|u:r|u:r,p2", "u:dd1=k0,dd2=k0,p1|u:r|u:dd3=k0,p2|u:r",
    "u:dd1=k0,p1|u:r,r", "u:dd1=k0,dd1=k1,dd1=k2,p1|u:r", "u:dd1=k0,p1|u:dd2=k0|u:r", "u:dd1=k0,g|u:r", "u:cd1|u:g",
    "u:dd1=k0,dd2=k0|u:r|u:p4", "u:cd1|u:cd2|u:dd3=k0,p5|u:", "u:cd1,r|u:dd3=k0,cd2|u:p5|u:r", "u:dd1=k0,x4|u:r", "u:cd1|u:x4",
    "u:dd1=k0,cd2|u:r|u:x6", "u:p1", "u:dd1=k0,p1|u:dd2=k0,p2|u:r", "u:dd2=k0,dd1=k0,p1|u:dd3=k0,p2|u:r|u:r",
    "u:dd1=k0,p1|u:cd2,r|u:dd3=k0,p2|u:r", "u:dd1=k1,p1|u:dd2=k0,cd3,r|u:r|u:p9",
]


def gen_script(rng, risky):
    """random terminating program: function i only refers to functions j > i.
    risky = set of defect-prone features allowed: 'goexit', 'builtin', 'pwrap', 'multi'."""
    n = rng.randrange(2, 7)
    funcs = []
    panics = 0
    for i in range(n):
        body = []
        m = rng.randrange(0, 6)
        later = list(range(i + 1, n))
        for _ in range(m):
            k = rng.random()
            if k < 0.28 and later:
                h = rng.choice("dddddm" + ("p" if "pwrap" in risky else "d"))
                a = rng.choice(["k%d" % rng.randrange(0, 4), "r"])
                body.append("d%s%d=%s" % (h, rng.choice(later), a))
            elif k < 0.45 and later:
                body.append("c%s%d" % (rng.choice("dddmp"), rng.choice(later)))
            elif k < 0.60:
                if panics == 0 or "multi" in risky:
                    body.append(rng.choice(["p%d", "p%d", "x%d"]) % rng.randrange(1, 9))
                    panics += 1
            elif k < 0.78:
                body.append("r")
            elif k < 0.86:
                body.append("s%d" % rng.randrange(1, 9))
            elif k < 0.92:
                body.append("o%d" % rng.randrange(1, 9))
            elif k < 0.95:
                body.append("t")
            elif k < 0.975:
                if "goexit" in risky:
                    body.append("g")
            else:
                if "builtin" in risky:
                    body.append("R")
        funcs.append(("n" if rng.random() < 0.5 else "u") + ":" + ",".join(body))
    return "|".join(funcs)


def gen_safe_multi(rng):
    """scripts with several panics where no panic can be raised while the same frame chain is already panicking is hard
    to guarantee statically; instead: several panics, each raised and recovered inside its own callee of the root."""
    n = rng.randrange(2, 5)
    root = []
    funcs = []
    idx = 1
    for _ in range(n):
        f, g = idx, idx + 1
        idx += 2
        root.append("c%s%d" % (rng.choice("dm"), f))
        funcs.append("%s:dd%d=%s,s%d,p%d" % (rng.choice("nu"), g, rng.choice(["k1", "r"]), rng.randrange(1, 9), rng.randrange(1, 9)))
        funcs.append("u:" + rng.choice(["r,o%d" % rng.randrange(1, 9), "r", "o2,r,r", ""]))
    return "u:" + ",".join(root) + "|" + "|".join(funcs)


def script_features(script):
    toks = [t for f in script.split("|") for t in f.split(":")[1].split(",") if t]
    feats = set()
    if "g" in toks:
        feats.add("goexit")
    if "R" in toks:
        feats.add("builtin")
    if any(t.startswith("dp") for t in toks):
        feats.add("pwrap")
    if sum(1 for t in toks if t[0] in "px") >= 1:
        feats.add("panic")
    return feats


def script_signature(script):
    """round 1 recorded four defect classes here (Goexit below frames with defer, resurrected replaced panic,
    `defer recover()`, forwarding-method frames); all four are repaired, so no divergence of a script is known."""
    return None


def script_tie(chk, tier):
    rng = chk.rng
    scripts = [w[0] for w in WITNESSES.values()] + list(FIXED_SCRIPTS)
    n = 12000 if tier == "thorough" else 1500
    for i in range(n):
        k = i % 10
        if k < 5:
            scripts.append(gen_script(rng, set()))
        elif k == 5:
            scripts.append(gen_safe_multi(rng))
        elif k == 6:
            scripts.append(gen_script(rng, {"multi"}))
        elif k == 7:
            scripts.append(gen_script(rng, {"goexit"}))
        elif k == 8:
            scripts.append(gen_script(rng, {"pwrap", "builtin"}))
        else:
            scripts.append(gen_script(rng, {"multi", "goexit", "pwrap", "builtin"}))
    ops = ["defer emu " + s for s in scripts]
    impl = C.run_node(ops)
    model = C.run_driver("C08", ops)
    spec = C.run_driver("C08", ["defer ref " + s for s in scripts])
    if any(a.endswith(" oof") for a in model + spec):
        raise RuntimeError("model ran out of fuel on a generated script")

    def sig(op, a, c):
        s = op.split()[2]
        i = ops.index(op)
        if a != model[i]:
            return None            # not the behaviour the transcription predicts: a different defect
        k = script_signature(s)
        return "C08 defer-script %s predicted-by-model" % k if k else None

    def kind(op, c):
        s = op.split()[2]
        f = script_features(s)
        out = c.split()[-1]
        out = re.sub(r"\d+$", "", out)
        return "script:%s:%s" % ("+".join(sorted(f)) or "plain", out)

    chk.compare("callDeferred-scripts", ops, impl, model, spec=spec, signature=sig, kind=kind)
    # the global state the real functions leave behind ($stackDepthOffset, $panicStackDepth, stacks)
    sops = ["defer emustate " + s for s in scripts]
    chk.compare("callDeferred-state", sops, C.run_node(sops), C.run_driver("C08", sops), kind=lambda o, c: "state")
    agree = sum(1 for a, c in zip(impl, spec) if a == c)
    chk.extra["scripts"] = len(scripts)
    chk.extra["scripts_emulation_equals_reference"] = agree
    return scripts


# ------------------------------------------------------------------------------------------------------------
# prelude checks on boundary operands
# ------------------------------------------------------------------------------------------------------------

def check_ops(chk, tier):
    rng = chk.rng
    mops, sops = [], []

    def add(name, *args):
        a = " ".join(str(x) for x in args)
        mops.append("chk m%s %s" % (name, a))
        sops.append("chk s%s %s" % (name, a))

    small = list(range(-2, 8))
    for ln in range(0, 5):
        for cap in range(ln, 7):
            for low in small:
                add("subslice", ln, cap, low, "-", "-")
                for high in small:
                    add("subslice", ln, cap, low, high, "-")
                    if tier == "thorough" or (low + high + cap) % 2 == 0:
                        for mx in small:
                            add("subslice", ln, cap, low, high, mx)
    for ln in range(0, 5):
        for low in small:
            add("substring", ln, low, "-")
            for high in small:
                add("substring", ln, low, high)
        for i in small:
            add("index", ln, i)
    big = [0, 1, 2, 5, 1000, 2 ** 31 - 2, 2 ** 31 - 1, 2 ** 31, 2 ** 31 + 1, 2 ** 32, -1, -2, -2 ** 31]
    def alloc_ok(n_, m_):   # valid sizes above 10^4 would really allocate: only the rejected ones are run
        return not (0 <= n_ <= m_ <= 2 ** 31 - 1 and m_ > 10000)
    for n_ in big:
        if alloc_ok(n_, n_):
            add("makeslice", n_, "-")
        for m_ in big:
            if alloc_ok(n_, m_):
                add("makeslice", n_, m_)
    for s_ in range(0, 6):
        for a_ in range(0, 6):
            add("slice2arr", s_, a_)
    for st in ("nil", "open", "closed"):
        add("close", st)
        if st != "nil":
            add("send", st)
    vals = ["nil", "1:c:5", "1:c:6", "2:c:5", "3:u:1", "3:u:2", "4:u:1"]
    for a in vals:
        for b in vals:
            add("ifaceeq", a, b)
        for t in (1, 2, 3):
            add("assert", a, t)
    for _ in range(20000 if tier == "thorough" else 2000):
        ln = rng.randrange(0, 40)
        cap = ln + rng.randrange(0, 10)
        pick = lambda: rng.choice([rng.randrange(-3, cap + 4), ln, cap, ln + 1, cap + 1, 0, -1])
        add("subslice", ln, cap, pick(), rng.choice(["-", pick()]), rng.choice(["-", pick()]))
        add("substring", ln, pick(), rng.choice(["-", pick()]))
        add("index", ln, pick())
    impl = C.run_node(["chk " + o.split(" ", 1)[1][1:] for o in mops])
    model = C.run_driver("C08", mops)
    spec = C.run_driver("C08", sops)

    chk.compare("prelude-checks", mops, impl, model, spec=spec,
                kind=lambda o, c: "%s:%s" % (o.split()[1][1:], "panic" if c == "panic" else "ok"))


# ------------------------------------------------------------------------------------------------------------
# compiled programs
# ------------------------------------------------------------------------------------------------------------

def render_script_funcs(sid, script):
    """Go methods for one script: all functions are value methods of `type PT int`, so that a plain call, a method
    expression (PT.F) and a call through the compiler-generated pointer wrapper (pp.F, pp *PT) reach the same body."""
    out = []
    funcs = script.split("|")
    for i, f in enumerate(funcs):
        k, b = f.split(":")
        named = k == "n"
        name = "S%sF%d" % (sid, i)
        # noinline: gc inlines small functions into the wrapper it generates for `defer f(args)`, which makes a recover()
        # one call deeper succeed natively (not what the specification says)
        hdr = "//go:noinline\n" + ("func (PT) %s(arg int, outer *int) (r int) {" % name if named else "func (PT) %s(arg int, outer *int) int {\n\tr := 0" % name)
        lines = [hdr, '\tprintln("run", %d, arg)' % i]
        for t in [t for t in b.split(",") if t]:
            c = t[0]
            if t == "R":
                lines.append("\tdefer recover()")
            elif t == "r":
                lines.append('\tif x := recover(); x == nil {\n\t\tprintln("rec-")\n\t} else {\n\t\tprintln("rec", x.(string))\n\t}')
            elif t == "t":
                lines.append("\tif one == 1 {\n\t\treturn r\n\t}")
            elif t == "g":
                lines.append("\tif one == 1 {\n\t\truntime.Goexit()\n\t}")
            elif c == "p":
                lines.append('\tif one == 1 {\n\t\tpanic("%s")\n\t}' % t[1:])
            elif c == "s":
                lines.append("\tr = %s" % t[1:])
            elif c == "o":
                lines.append("\t*outer = %s" % t[1:])
            elif c == "c":
                h, g = t[1], int(t[2:])
                gn = "S%sF%d" % (sid, g)
                call = {"d": "PT(0).%s(0, &r)" % gn, "m": "PT.%s(PT(0), 0, &r)" % gn, "p": "pp.%s(0, &r)" % gn}[h]
                lines.append('\tprintln("res", %d, %s)' % (g, call))
            elif c == "d":
                h = t[1]
                g, a = t[2:].split("=")
                gn = "S%sF%d" % (sid, int(g))
                av = "r" if a == "r" else a[1:]
                call = {"d": "PT(0).%s(%s, &r)" % (gn, av), "m": "PT.%s(PT(0), %s, &r)" % (gn, av), "p": "pp.%s(%s, &r)" % (gn, av)}[h]
                lines.append("\tdefer " + call)
            else:
                raise RuntimeError("cannot render " + t)
        lines.append("\treturn r\n}")
        out.append("\n".join(lines))
    return "\n\n".join(out)


SCRIPT_PROG = r"""package main

import "runtime"

type PT int

var pp = new(PT)
var one = 1

%(funcs)s

func main() {
	_ = runtime.GOMAXPROCS
%(calls)s
}
"""


def script_program(scripts):
    """one program running the scripts one after the other, each in its own goroutine"""
    funcs, calls = [], []
    for sid, s in scripts:
        funcs.append(render_script_funcs(sid, s))
        calls.append('\t{\n\t\tdone := make(chan bool)\n\t\tgo func() {\n\t\t\tvar o int\n\t\t\tPT(0).S%sF0(0, &o)\n\t\t\tprintln("end %s")\n'
                     '\t\t\tdone <- true\n\t\t}()\n\t\t<-done\n\t}' % (sid, sid))
    return SCRIPT_PROG % {"funcs": "\n\n".join(funcs), "calls": "\n".join(calls)}


def model_lines(ans, sid):
    """trace lines + ending the model predicts for a rendered script"""
    tr, out = ans.split()
    lines = []
    if tr != "-":
        for e in tr.split(","):
            if e.startswith("run"):
                f, a = e[3:].split(":")
                lines.append("run %s %s" % (f, a))
            elif e == "rec-":
                lines.append("rec-")
            elif e.startswith("rec"):
                lines.append("rec " + e[3:])
            elif e.startswith("res"):
                f, v = e[3:].split(":")
                lines.append("res %s %s" % (f, v))
    if out == "normal":
        return lines + ["end %s" % sid], "exit0"
    if out == "goexit":
        return lines, "deadlock"
    if out.startswith("panic"):
        return lines, "panic:" + out[5:]
    return lines, out


CHECK_PROG = r"""package main

import "runtime"

type I interface{ M() int }
type T int

func (t T) M() int { return int(t) }

type P struct{ x int }
type SK struct{ v interface{} }

var prefixes = []string{"index out of range", "slice bounds out of range", "makeslice: len out of range",
	"makeslice: cap out of range", "assignment to entry in nil map", "integer divide by zero",
	"cannot convert slice with length", "close of nil channel", "close of closed channel", "send on closed channel",
	"interface conversion", "comparing uncomparable type", "invalid memory address or nil pointer dereference",
	"makechan: size out of range", "hash of unhashable type", "negative shift amount"}

func hasPrefix(s, p string) bool { return len(s) >= len(p) && s[:len(p)] == p }

func classify(r interface{}) string {
	e, ok := r.(runtime.Error)
	if !ok {
		if _, ok := r.(error); ok {
			return "panic:error-not-runtime.Error"
		}
		if s, ok := r.(string); ok {
			return "panic:string:" + s
		}
		return "panic:other"
	}
	m := e.Error()
	if hasPrefix(m, "runtime error: ") {
		m = m[15:]
	}
	for _, p := range prefixes {
		if hasPrefix(m, p) {
			return "panic:rt:" + p
		}
	}
	return "panic:rt:?" + m
}

func try(kind string, a, b, c int, f func() int) {
	defer func() {
		if r := recover(); r != nil {
			println(kind, a, b, c, classify(r))
		}
	}()
	v := f()
	println(kind, a, b, c, "ok", v+zero)
}

func ev(tag string, v int) int { println("eval", tag); return v }

var zero = 0
var base = []int{10, 11, 12, 13, 14}
var arr = [3]int{20, 21, 22}
var str = "abc"

func mk(n int) []int {
	if n < 0 {
		n = -n
	}
	return make([]int, n)
}

func iv(k int) interface{} {
	switch k {
	case 0:
		return nil
	case 1:
		return 1
	case 2:
		return 2
	case 3:
		return "s"
	case 4:
		return []int{1}
	case 5:
		return map[int]int{}
	case 6:
		return T(1)
	case 7:
		return SK{[]int{1}}
	case 8:
		return [1]interface{}{[]int{1}}
	case 9:
		return SK{1}
	}
	return P{k}
}

func mod(a, n int) int {
	a %%= n
	if a < 0 {
		a += n
	}
	return a
}

func all(a, b, c int) {
	sl := base[:3]
	parr := &arr
	try("idx_slice", a, b, c, func() int { return sl[a] })
	try("idx_arr", a, b, c, func() int { return arr[a] })
	try("idx_parr", a, b, c, func() int { return parr[a] })
	try("idx_str", a, b, c, func() int { return int(str[a]) })
	try("idx_store", a, b, c, func() int { t := mk(3); t[a] = b; return t[0] + t[1] + t[2] })
	try("sl2", a, b, c, func() int { t := sl[a:b]; return len(t)*10 + cap(t) })
	try("sl3", a, b, c, func() int { t := sl[a:b:c]; return len(t)*10 + cap(t) })
	try("sl_lo", a, b, c, func() int { t := sl[a:]; return len(t)*10 + cap(t) })
	try("sl_hi", a, b, c, func() int { t := sl[:a]; return len(t)*10 + cap(t) })
	try("sl_hi3", a, b, c, func() int { t := sl[:a:b]; return len(t)*10 + cap(t) })
	try("arr2", a, b, c, func() int { t := arr[a:b]; return len(t)*10 + cap(t) })
	try("arr3", a, b, c, func() int { t := arr[a:b:c]; return len(t)*10 + cap(t) })
	try("parr2", a, b, c, func() int { t := parr[a:b]; return len(t)*10 + cap(t) })
	try("str2", a, b, c, func() int { return len(str[a:b]) })
	try("str_lo", a, b, c, func() int { return len(str[a:]) })
	try("str_hi", a, b, c, func() int { return len(str[:a]) })
	try("nilsl", a, b, c, func() int { var z []int; return len(z[a:b]) })
	try("make1", a, b, c, func() int { return len(make([]int, a)) })
	try("make2", a, b, c, func() int { t := make([]int, a, b); return len(t)*10 + cap(t) })
	try("makechan", a, b, c, func() int { return cap(make(chan int, a)) })
	try("div", a, b, c, func() int { return a / b })
	try("rem", a, b, c, func() int { return a %% b })
	try("div8", a, b, c, func() int { return int(int8(a) / int8(b)) })
	try("remu", a, b, c, func() int { return int(uint32(a+100) %% uint32(b+2)) })
	try("div64", a, b, c, func() int { return int(int64(a) / int64(b)) })
	try("divassign", a, b, c, func() int { x := a; x /= b; return x })
	try("s2a", a, b, c, func() int { x := [3]int(mk(a)); return len(x) })
	try("s2p", a, b, c, func() int { x := (*[3]int)(mk(a)); return len(x) })
	try("s2p0", a, b, c, func() int { x := (*[0]int)(mk(a)); return len(x) })
	try("mapstore", a, b, c, func() int {
		var m map[int]int
		if a > 2 {
			m = map[int]int{}
		}
		m[a] = b
		return len(m)
	})
	try("mapread", a, b, c, func() int { var m map[int]int; delete(m, a); return m[a] + len(m) })
	try("close", a, b, c, func() int {
		var ch chan int
		switch mod(a, 3) {
		case 1:
			ch = make(chan int, 1)
		case 2:
			ch = make(chan int, 1)
			close(ch)
		}
		close(ch)
		return 1
	})
	try("send", a, b, c, func() int {
		ch := make(chan int, 1)
		if mod(a, 2) == 1 {
			close(ch)
		}
		ch <- 1
		return len(ch)
	})
	try("assert", a, b, c, func() int {
		i := iv(mod(a, 7))
		switch mod(b, 4) {
		case 0:
			return i.(int)
		case 1:
			return len(i.(string))
		case 2:
			return i.(I).M()
		}
		return int(i.(T))
	})
	try("assert2", a, b, c, func() int {
		i := iv(mod(a, 7))
		if v, ok := i.(int); ok {
			return v
		}
		if v, ok := i.(I); ok {
			return 100 + v.M()
		}
		return -1
	})
	try("ifaceeq", a, b, c, func() int {
		x, y := iv(mod(a, 11)), iv(mod(b, 11))
		if x == y {
			return 1
		}
		return 0
	})
	try("ifaceneq", a, b, c, func() int {
		x, y := iv(mod(a, 11)), iv(mod(b, 11))
		if x != y {
			return 1
		}
		return 0
	})
	try("structeq", a, b, c, func() int {
		x, y := SK{iv(mod(a, 11))}, SK{iv(mod(b, 11))}
		if x == y {
			return 1
		}
		return 0
	})
	try("nilptr", a, b, c, func() int {
		var p *P
		if a > 2 {
			p = &P{a}
		}
		return p.x
	})
	try("nilptrstore", a, b, c, func() int {
		var p *P
		if a > 2 {
			p = &P{a}
		}
		p.x = b
		return p.x
	})
	try("nilintptr", a, b, c, func() int {
		var p *int
		if a > 2 {
			p = &b
		}
		return *p
	})
	try("nilfunc", a, b, c, func() int {
		var f func() int
		if a > 2 {
			f = func() int { return b }
		}
		return f()
	})
	try("niliface", a, b, c, func() int {
		var i I
		if a > 2 {
			i = T(b)
		}
		return i.M()
	})
	try("explicit", a, b, c, func() int {
		if a > 2 {
			panic("boom")
		}
		return 0
	})
	try("order_idx", a, b, c, func() int { return sl[ev("i", a)] })
	try("order_div", a, b, c, func() int { return ev("x", a) / ev("y", b) })
	try("order_sl", a, b, c, func() int { return len(sl[ev("lo", a):ev("hi", b)]) })
	try("order_make", a, b, c, func() int { return len(make([]int, ev("n", a), ev("m", b))) })
}

func findings(a, b, c int) {
	try("nilparr_idx", a, b, c, func() int {
		var p *[3]int
		if a > 2 {
			p = &arr
		}
		return p[mod(b, 3)]
	})
	try("shift", a, b, c, func() int { // negative counts: documented difference, not generated
		n := a
		if n > 20 {
			n = 20
		}
		if n < 0 {
			n = -n
		}
		return 1 << n
	})
	try("mapkey", a, b, c, func() int {
		m := map[interface{}]int{}
		m[iv(mod(a, 7))] = 1
		return len(m)
	})
	try("order_mapstore", a, b, c, func() int {
		var m map[int]int
		if a > 2 {
			m = map[int]int{}
		}
		m[ev("key", a)] = ev("val", b)
		return len(m)
	})
	try("order_idxstore", a, b, c, func() int { t := mk(3); t[ev("i", a)] = ev("v", b); return t[0] })
	try("order_ptrstore", a, b, c, func() int {
		var p *int
		if a > 2 {
			p = &c
		}
		*p = ev("v", b)
		return *p
	})
}

var table = [][3]int{
%(table)s
}

func main() {
	for _, t := range table {
		all(t[0], t[1], t[2])
		findings(t[0], t[1], t[2])
	}
}
"""

# known divergences of compiled check programs: (kind, js class, go class) -> signature
PROG_FINDINGS = {
    # all value-level divergences recorded in round 1 are repaired (close(nil), nil *[N]T index, s[low:], unhashable key);
    # a negative shift count is a documented, permitted difference and is not generated any more
}


def split_cases(lines):
    """group output lines into cases: eval lines belong to the following result line"""
    cases, pend = [], []
    for l in lines:
        if l.startswith("eval "):
            pend.append(l)
        else:
            cases.append((pend, l))
            pend = []
    if pend:
        cases.append((pend, ""))
    return cases


def case_class(line):
    p = line.split(" ", 4)
    if len(p) < 5:
        return ("?", "?")
    return (p[0], "ok" if p[4].startswith("ok") else p[4])


def check_programs(chk, tier):
    from . import progs
    rng = chk.rng
    nprog = 6 if tier == "thorough" else 1
    jobs = []
    bvals = [-2, -1, 0, 1, 2, 3, 4, 5, 6]
    for k in range(nprog):
        rows = [(a, b, c) for a in (-1, 0, 2, 3, 4, 5, 6) for b in (0, 3) for c in (3,)][: 10]
        rows += [(-1, -1, -1), (0, 0, 0), (3, 3, 3), (5, 5, 5), (6, 6, 6), (0, 3, 5), (0, 3, 6), (1, 0, 5), (2, 3, 2), (3, 5, 5), (0, 5, 5), (0, 6, 6),
                 (4, 4, 5), (4, 5, 5), (-7, 2, 0), (7, -2, 0), (7, 0, 0), (0, 7, 1), (9, 4, 4), (10, 9, 1), (8, 8, 8)]
        for _ in range(60 if tier == "thorough" else 40):
            rows.append((rng.choice(bvals), rng.choice(bvals), rng.choice(bvals)))
        for _ in range(8):
            rows.append((rng.randrange(-20, 40), rng.randrange(-20, 40), rng.randrange(-5, 12)))
        src = CHECK_PROG % {"table": "\n".join("\t{%d, %d, %d}," % r for r in rows)}
        jobs.append({"id": "chk%d" % k, "files": {"main.go": src}, "variants": ["plain", "minify"], "native": True, "timeout": 600})
    res = progs.run_jobs(jobs, par=4)
    res = retry_timeouts(jobs, res)
    for j, r in zip(jobs, res):
        nat = progs.observe_native(r["runs"]["native"])
        if nat[1] != "exit0":
            raise RuntimeError("check program failed natively: %s %s" % (nat[1], r["runs"]["native"].get("stderr", "")[-400:]))
        ncases = split_cases(nat[0])
        for v in j["variants"]:
            obs = progs.observe_js(r["runs"][v])
            if obs[1] == "timeout":
                raise RuntimeError("check program %s/%s timed out under node (machine overloaded?)" % (j["id"], v))
            jcases = split_cases(obs[0])
            if obs[1] != "exit0" or len(jcases) != len(ncases):
                chk.add_mismatch("program-checks:" + v, json.dumps({"id": j["id"], "ending": obs[1], "cases": [len(jcases), len(ncases)]}),
                                 impl=json.dumps([obs[0][-3:], obs[1]]), spec=json.dumps([nat[0][-3:], nat[1]]))
                continue
            for (je, jl), (ne, nl) in zip(jcases, ncases):
                kind, jc = case_class(jl)
                _, nc = case_class(nl)
                chk.add_case("program-checks:" + v, j["id"] + "|" + nl, kindkey="prog-check:%s:%s" % (kind, "panic" if nc.startswith("panic") else "ok"))
                if jl == nl and je == ne:
                    continue
                sig = None
                if jl != nl:
                    sig = PROG_FINDINGS.get((kind, jc, nc))
                    if kind.startswith("order_") and jc == nc:
                        sig = None
                elif kind == "order_mapstore" and nc.startswith("panic:rt:assignment to entry in nil map") and ne == ["eval key", "eval val"] and je == ["eval key"]:
                    sig = "C08 program nil-map-store panics-before-rhs-evaluated"
                if kind == "order_idxstore" and jl == nl and nc.startswith("panic:rt:index out of range") and ne == ["eval i", "eval v"] and je == ["eval i"]:
                    sig = "C08 program index-store panics-before-rhs-evaluated"
                if jl != nl and kind == "order_mapstore" and jc == nc:
                    sig = "C08 program nil-map-store panics-before-rhs-evaluated" if je == ["eval key"] else None
                chk.add_mismatch("program-checks:" + v, json.dumps({"id": j["id"], "case": nl, "go_evals": ne}),
                                 impl=json.dumps([je, jl]), spec=json.dumps([ne, nl]), signature=sig)
    chk.extra["check_programs"] = len(jobs)


def retry_timeouts(jobs, res):
    """the machine is shared: re-run alone any job one of whose runs timed out"""
    from . import progs
    out = []
    for j, r in zip(jobs, res):
        if any(x.get("class") == "timeout" for x in r["runs"].values()):
            jj = dict(j)
            jj["timeout"] = max(600, j.get("timeout", 60) * 3)
            r = progs.run_jobs([jj], par=1)[0]
        out.append(r)
    return out


SCENARIOS = r"""package main

import "runtime"

func show(tag string, r interface{}) {
	if r == nil {
		println(tag, "nil")
	} else if s, ok := r.(string); ok {
		println(tag, s)
	} else if e, ok := r.(runtime.Error); ok {
		m := e.Error()
		if len(m) >= 15 && m[:15] == "runtime error: " {
			m = m[15:]
		}
		if len(m) > 18 {
			m = m[:18]
		}
		println(tag, "runtime.Error", m)
	} else if e, ok := r.(error); ok {
		println(tag, "error", e.Error())
	} else {
		println(tag, "other")
	}
}

type E struct{ s string }

func (e E) Error() string { return "E:" + e.s }

type T int

func (t T) M()      { show("T.M", recover()) }
func (t *T) PM()    { show("T.PM", recover()) }
func helper()       { show("helper", recover()) }
func callee()       { panic("from callee") }
func lvl3()         { defer println("lvl3 d"); panic("deep") }
func lvl2()         { defer println("lvl2 d"); lvl3(); println("lvl2 not reached") }
func inner2()       { defer func() { show("inner2 deferred", recover()) }() }
func idx(a []int, i int) int { return a[i] }

var zero = 0

func scenario(k int) (r int) {
	switch k {
	case 0: // nested: panic inside a deferred call, recovered inside it; the outer panic continues
		defer func() { show("nested outer", recover()) }()
		defer func() {
			defer func() { show("nested inner", recover()) }()
			panic("inner")
		}()
		panic("outer")
	case 1: // re-panic after recover
		defer func() { show("repanic outer", recover()) }()
		defer func() { x := recover(); println("got", x.(string)); panic("again") }()
		panic("orig")
	case 2: // recover via helper returns nil; helper deferred directly recovers
		defer func() { show("viahelper outer", recover()) }()
		defer func() { helper() }()
		panic("p")
	case 3:
		defer func() { show("viadirect outer", recover()) }()
		defer helper()
		panic("p")
	case 4: // deferred function of a callee returning normally while a panic is in progress
		defer func() { show("ndp outer", recover()) }()
		defer func() { inner2(); show("ndp after inner2", recover()); show("ndp twice", recover()) }()
		panic("p")
	case 5: // named result modified after recover
		defer func() { recover(); r += 10 }()
		r = 5
		panic("p")
	case 6:
		defer func() { r *= 2 }()
		return 21
	case 7: // panic in a callee without defer
		defer func() { show("calleeRec", recover()); r = 7 }()
		callee()
		return 1
	case 8: // unwinding through frames with defers
		defer func() { show("lvl1", recover()); r = 3 }()
		defer println("lvl1 d")
		lvl2()
		println("lvl1 not reached")
		return 9
	case 9: // arguments evaluated at the defer statement
		x := 1
		defer println("arg", x)
		x = 2
		defer func(v int) { println("argf", v, x) }(x)
		x = 3
	case 10:
		for i := 0; i < 3; i++ {
			defer println("loop", i)
		}
	case 11:
		defer func() { show("nopanic", recover()) }()
	case 12: // panic in a deferred call during normal return
		defer func() { show("deferpanic outer", recover()) }()
		defer func() { panic("in defer") }()
		defer println("first deferred")
	case 13: // after recovery the remaining deferred calls run normally
		defer func() { show("remaining last", recover()) }()
		defer func() { show("remaining mid", recover()) }()
		defer func() { show("remaining first", recover()) }()
		panic("p")
	case 14: // new panic raised and recovered deeper while an older one is running
		defer func() { show("older outer", recover()) }()
		defer func() {
			func() {
				defer func() { show("older inner", recover()) }()
				panic("new")
			}()
			show("older after", recover())
		}()
		panic("old")
	case 15: // error values, runtime.Error assertion
		defer func() {
			x := recover()
			show("errval", x)
			_, ok := x.(runtime.Error)
			println(ok)
		}()
		panic(E{"x"})
	case 16:
		defer func() { show("rterr", recover()) }()
		var a []int
		return idx(a, 5)
	case 17: // method expression, method value, interface method, pointer method as deferred functions
		defer func() { show("methods outer", recover()) }()
		defer T.M(3)
		panic("p")
	case 18:
		defer func() { show("methval outer", recover()) }()
		f := T(1).M
		defer f()
		panic("p")
	case 19:
		defer func() { show("ptrmethod outer", recover()) }()
		t := T(1)
		defer t.PM()
		panic("p")
	case 20:
		defer func() { show("ptrexpr outer", recover()) }()
		t := T(1)
		defer (*T).PM(&t)
		panic("p")
	case 21: // closure one level deeper: nil
		defer func() { show("closure outer", recover()) }()
		defer func() { func() { show("closure depth1", recover()) }() }()
		panic("p")
	case 22: // method expression called (not deferred) from a deferred closure: depth 1
		defer func() { show("mexpr-call outer", recover()) }()
		defer func() { T.M(2) }()
		panic("p")
	case 23: // division by zero recovered, result kept
		defer func() { show("div", recover()); r = -1 }()
		return 10 / zero
	case 24: // nil map store
		defer func() { show("nilmap", recover()) }()
		var m map[string]int
		m["a"] = 1
	case 25: // type assertion
		defer func() {
			x := recover()
			_, ok := x.(runtime.Error)
			println("assert is runtime.Error", ok)
			_, ok = x.(*runtime.TypeAssertionError)
			println("assert is *TypeAssertionError", ok)
		}()
		var i interface{} = "s"
		return i.(int)
	case 26: // runtime.Goexit directly in the goroutine function: deferred calls run, recover is nil (goroutine below)
		c := make(chan int)
		go func() {
			defer close(c)
			defer func() { show("goexit", recover()) }()
			runtime.Goexit()
			println("not reached")
		}()
		<-c
	case 27: // panic in another goroutine, recovered there
		c := make(chan int)
		go func() {
			defer close(c)
			defer func() { show("othergo", recover()) }()
			panic("in goroutine")
		}()
		<-c
	case 28: // deferred call in another goroutine while this one has a panic in flight
		defer func() { show("cross outer", recover()) }()
		defer func() {
			c := make(chan int)
			go func() {
				defer close(c)
				defer func() { show("cross other", recover()) }()
			}()
			<-c
			show("cross after", recover())
		}()
		panic("p")
	case 29: // blocking inside a deferred call during panicking
		defer func() { show("block outer", recover()) }()
		defer func() {
			c := make(chan int, 1)
			c <- 1
			runtime.Gosched()
			<-c
			show("block after", recover())
		}()
		panic("p")
	case 30: // recover re-panics with the same value, outer frames see it
		defer func() { show("rethrow outer", recover()) }()
		func() {
			defer func() {
				if x := recover(); x != nil {
					panic(x)
				}
			}()
			panic("same")
		}()
	case 31: // nil pointer dereference is a runtime.Error
		defer func() { show("nilderef", recover()) }()
		var p *E
		println(p.s)
	case 32: // nil func call
		defer func() { show("nilfunc", recover()) }()
		var f func()
		f()
	}
	return r
}

func main() {
	for _, k := range []int{%(ks)s} {
		println("scenario", k, scenario(k))
	}
	%(tail)s
}
"""

SCENARIO_TAILS = [
    ("", "exit0"),
    ('defer println("main deferred")\n\tdefer func() { panic("final2") }()\n\tpanic("final")', "panic"),
    ('go func() { panic("goroutine dies") }()\n\truntime.Gosched()\n\tselect {}', "panic"),
    ('defer println("main deferred")\n\tvar a []int\n\tprintln(a[zero])', "panic"),
    ('panic(E{"custom"})', "panic"),
]

PROG_WITNESS = {
    # id: (body of main-called function, signature)
    "blocked28": ('println(scenario(28))', "C08 program recover-after-blocking-deferred-call remaining-deferred-skipped"),
    "blocked29": ('println(scenario(29))', "C08 program recover-after-blocking-deferred-call remaining-deferred-skipped"),
    # regression programs of the repaired defects (no signature: a divergence is a violation)
    "replaced": ('defer func() { show("replaced outer", recover()) }()\n\tdefer func() { panic("second") }()\n\tpanic("first")', None),
    "builtin": ('defer func() { show("outer", recover()) }()\n\tdefer recover()\n\tpanic("x")', None),
    "builtin-in-deferred": ('defer func() { defer recover() }()\n\tpanic("x")', None),
    "ptrwrap": ('defer func() { show("outer", recover()) }()\n\tp := new(T)\n\tdefer p.M()\n\tpanic("x")', None),
    "promoted": ('defer func() { show("outer", recover()) }()\n\tvar i interface{ M() } = struct{ T }{T(1)}\n\tdefer i.M()\n\tpanic("x")', None),
    "goexit-panic": ('c := make(chan int)\n\tgo func() {\n\t\tdefer close(c)\n\t\tdefer func() { show("g outer", recover()) }()\n\t\tfunc() {\n'
                     '\t\t\tdefer func() { helper() }()\n\t\t\tdefer func() {\n\t\t\t\tdefer func() { show("inner", recover()) }()\n\t\t\t\tpanic("in goexit")\n\t\t\t}()\n'
                     '\t\t\truntime.Goexit()\n\t\t}()\n\t\tprintln("after goexit")\n\t}()\n\t<-c', None),
    "goexit": ('c := make(chan int)\n\tgo func() {\n\t\tdefer close(c)\n\t\tfunc() {\n\t\t\tdefer println("callee deferred")\n\t\t\truntime.Goexit()\n\t\t}()\n'
               '\t\tprintln("after goexit")\n\t}()\n\t<-c', None),
}


def scenario_programs(chk, tier, scripts):
    from . import progs
    rng = chk.rng
    jobs, meta = [], []
    ks = [k for k in range(33) if k not in (28, 29)]   # 28/29 (blocking deferred call) are a recorded finding: run as witnesses
    for i, (tail, _) in enumerate(SCENARIO_TAILS):
        order = ks[:]
        if i > 0:
            rng.shuffle(order)
        src = SCENARIOS % {"ks": ", ".join(map(str, order)), "tail": tail}
        jobs.append({"id": "scen%d" % i, "files": {"main.go": src}, "variants": ["plain", "minify"], "native": True, "timeout": 600})
        meta.append(("scenario", None, None))
    for wid, (body, sig) in PROG_WITNESS.items():
        src = SCENARIOS % {"ks": "", "tail": "w()"} + "\nfunc w() {\n\t" + body + "\n}\n"
        jobs.append({"id": "wit-" + wid, "files": {"main.go": src}, "variants": ["plain", "minify"] if tier == "thorough" else ["plain"], "native": True, "timeout": 600})
        meta.append(("witness", sig, None))
    # rendered scripts: those both semantics end normally are batched; the others get a program each
    rend = [s for s in scripts if "x" not in re.sub(r"[^a-z]", "", s.replace("x", "x")) or True]
    rend = [s for s in scripts if not any(t.startswith("x") for f in s.split("|") for t in f.split(":")[1].split(","))]
    nbatch = 60 if tier == "thorough" else 10
    nsingle = 40 if tier == "thorough" else 8
    pick = rend[:len(WITNESSES) + len(FIXED_SCRIPTS)] + rng.sample(rend[len(WITNESSES) + len(FIXED_SCRIPTS):], min(len(rend) - 40, nbatch * 12))
    emu = C.run_driver("C08", ["defer emu " + s for s in pick])
    ref = C.run_driver("C08", ["defer ref " + s for s in pick])
    normal = [(s, e, r) for s, e, r in zip(pick, emu, ref) if e == r and r.endswith(" normal")]
    other = [(s, e, r) for s, e, r in zip(pick, emu, ref) if not (e == r and r.endswith(" normal"))]
    other.sort(key=lambda t: t[1] == t[2])     # predicted divergences first
    for b in range(nbatch):
        group = normal[b * 10:(b + 1) * 10]
        if not group:
            break
        sc = [("%d" % i, s) for i, (s, _, _) in enumerate(group)]
        jobs.append({"id": "sb%d" % b, "files": {"main.go": script_program(sc)}, "variants": ["plain", "minify"], "native": True, "timeout": 600})
        meta.append(("scripts", None, group))
    for i, (s, e, r) in enumerate(other[:nsingle]):
        jobs.append({"id": "ss%d" % i, "files": {"main.go": script_program([("0", s)])}, "variants": ["plain"], "native": True, "timeout": 600})
        meta.append(("scripts", None, [(s, e, r)]))
    res = progs.run_jobs(jobs, par=6)
    res = retry_timeouts(jobs, res)
    nscripts = 0
    for j, r, (kind, wsig, group) in zip(jobs, res, meta):
        nat = progs.observe_native(r["runs"]["native"])
        if nat[1].startswith("compile-error") or nat[1] == "timeout":
            raise RuntimeError("generated program %s: native %s\n%s" % (j["id"], nat[1], j["files"]["main.go"][:1500]))
        if group is not None:
            # model validation: the reference semantics must agree with native Go
            exp_lines, exp_end = [], "exit0"
            for i, (s, e, rr) in enumerate(group):
                l, end = model_lines(rr, "%d" % i)
                exp_lines += l
                exp_end = end
            if (exp_lines, exp_end) != (nat[0], nat[1]):
                dd = next((i for i, (a, b) in enumerate(zip(exp_lines, nat[0])) if a != b), min(len(exp_lines), len(nat[0])))
                raise RuntimeError("MODEL-MISMATCH: reference semantics disagree with native Go on %s at line %d\nmodel : %s %s\nnative: %s %s" % (
                    [g[0] for g in group], dd, exp_lines[max(0, dd - 6):dd + 4], exp_end, nat[0][max(0, dd - 6):dd + 4], nat[1]))
            nscripts += len(group)
        for v in j["variants"]:
            obs = progs.observe_js(r["runs"][v])
            if obs[1] == "timeout":
                raise RuntimeError("program %s/%s timed out under node (machine overloaded?)" % (j["id"], v))
            chk.add_case("program:" + v, j["id"] + "|" + str(chk.seed), kindkey="program:%s:%s" % (kind, nat[1].split(":")[0]))
            if group is not None:
                # impl vs model (emulation) — the tie; impl vs native — the property
                exp_lines, exp_end = [], "exit0"
                for i, (s, e, rr) in enumerate(group):
                    l, end = model_lines(e, "%d" % i)
                    exp_lines += l
                    exp_end = end
                if (exp_lines, exp_end) != (obs[0], obs[1]):
                    chk.add_tie_break("program-scripts:" + v, json.dumps([g[0] for g in group]), json.dumps([obs[0][-10:], obs[1]]),
                                      json.dumps([exp_lines[-10:], exp_end]))
            if obs != nat:
                d = next((i for i, (a, b) in enumerate(zip(obs[0], nat[0])) if a != b), min(len(obs[0]), len(nat[0])))
                sig = wsig
                if group is not None:
                    exp = ([], "exit0")
                    l, end = model_lines(group[0][1], "0")
                    k = script_signature(group[0][0]) if len(group) == 1 else None
                    if len(group) == 1 and (l, end) == (obs[0], obs[1]) and k:
                        sig = "C08 program-script %s predicted-by-model" % k
                chk.add_mismatch("program:" + v, json.dumps({"id": j["id"], "line": d, "scripts": [g[0] for g in group] if group else None,
                                                             "source": j["files"]["main.go"][:2500] if kind != "scenario" else "scenario program"}),
                                 impl=json.dumps([obs[0][max(0, d - 2):d + 3], obs[1]]), spec=json.dumps([nat[0][max(0, d - 2):d + 3], nat[1]]), signature=sig)
    chk.extra["programs"] = len(jobs)
    chk.extra["scripts_as_programs"] = nscripts


def run(tier, seed):
    chk = C.Check("C08", tier, seed)
    chk.rule = ("(a) scripts of the frame mini-language (call/defer/panic/recover/return/setResult/goexit, acyclic call graph, 2-6 "
                "functions, <=5 statements each; half without defect-prone features) executed by the REAL $callDeferred/$panic/$recover/"
                "$methodExpr under Node through functions of the emitted shape, vs Lean emulation (model) and Lean Go reference (spec); "
                "(b) $subslice/$substring/$makeSlice/$sliceToGoArray/$interfaceIsEqual/$assertType/$close/$send and inline check shapes on a "
                "boundary grid plus seeded operands, vs model and spec; (c) compiled programs: run-time-check tables, 33 panic/defer/"
                "recover scenarios in shuffled order with 5 endings, rendered scripts; GopherJS plain+minify vs native Go vs model. "
                "A case is non-trivial when distinct.")
    chk.trusted = ["Lean 4.33 kernel", "axioms: propext, Classical.choice, Quot.sound at most (listed per theorem)",
                   "GV.Model.Defer.emu / GV.Model.Checks tied to goroutines.js, prelude.js, types.js and the emitted wrapper by these runs",
                   "GV.Model.Defer.ref and GV.Spec.Checks = my reading of the Go specification, validated against native Go on rendered scripts"]
    chk.assumptions = ["V8's `new Error().stack` has one line per JS frame plus one header line (checked by tie (a) on the real engine)",
                       "scripted frames are written in the shape the compiler emits (pinned by compiled programs in tie (c))",
                       "suspension inside deferred calls ($blk) is not modelled in Lean; covered by scenario programs only",
                       "JS double division of 32-bit integers truncates to the mathematical quotient"]
    chk.proof = C.check_proofs("C08", THEOREMS, tier)
    scripts = script_tie(chk, tier)
    check_ops(chk, tier)
    check_programs(chk, tier)
    scenario_programs(chk, tier, scripts)
    return chk.finish()


def replay(path):
    rep = json.load(open(path))
    bad = 0
    for m in rep.get("failing_inputs", []):
        op = m["op"]
        if op.startswith("defer ") or op.startswith("chk "):
            nodeop = op if op.startswith("defer ") else "chk " + op.split(" ", 1)[1][1:]
            a = C.run_node([nodeop])[0]
            b = C.run_driver("C08", [op])[0]
            s = C.run_driver("C08", [op.replace("defer emu", "defer ref").replace("chk m", "chk s")])[0]
            print("%s\n  impl : %s\n  model: %s\n  spec : %s" % (op, a, b, s))
            bad += a != s
        else:
            print(json.dumps(m, indent=1)[:3000])
            bad += 1
    if not rep.get("failing_inputs"):
        print("no failing input recorded; broken obligations:", rep.get("broken_obligations"))
        return 1
    return 1 if bad else 0
